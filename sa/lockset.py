"""E8 — lockset and condition-variable discipline (intraprocedural must-hold analysis with wrapper summaries)."""
from collections import deque
from .flags import NORETURN
from .ir import base

LOCK = {'thread_mutex_lock'}
UNLOCK = {'thread_mutex_unlock'}
SIGNAL_UNLOCK = {'thread_cond_signal_and_unlock', 'thread_cond_broadcast_and_unlock'}   # (cond, mutex): release on all paths (summary checked)
WAIT = {'thread_cond_wait'}            # (cond, mutex): held before and after
SIGNALS = {'thread_cond_signal', 'thread_cond_broadcast'} | SIGNAL_UNLOCK


def mutex_of(f, call):
    if call.callee in LOCK | UNLOCK:
        return f.expr(call.ops[0])
    if call.callee in SIGNAL_UNLOCK | WAIT:
        return f.expr(call.ops[1])
    return None


class LockState:
    """forward dataflow: for each instruction the set of possible 'held' values {0,1} of one mutex expression"""

    def __init__(self, f, mutex_expr, entry_held=0, extra_lock=(), extra_unlock=()):
        self.f = f; self.mx = mutex_expr
        self.extra_lock = set(extra_lock); self.extra_unlock = set(extra_unlock)
        self.IN = {0: {entry_held}}
        self.errors = []
        self._run()

    def step(self, ins, held):
        f = self.f
        if ins.op != 'call':
            return held
        cal = ins.callee
        if (cal in LOCK or cal in self.extra_lock) and (cal in self.extra_lock or f.expr(ins.ops[0]) == self.mx):
            return 1
        if (cal in UNLOCK or cal in self.extra_unlock) and (cal in self.extra_unlock or f.expr(ins.ops[0]) == self.mx):
            return 0
        if cal in SIGNAL_UNLOCK and f.expr(ins.ops[1]) == self.mx:
            return 0
        return held

    def _run(self):
        f = self.f
        dq = deque([0])
        while dq:
            b = dq.popleft()
            outs = set()
            for h in self.IN.get(b, ()):
                cur = h
                dead = False
                for ins in f.blocks[b]:
                    cur = self.step(ins, cur)
                    if ins.op == 'call' and ins.callee in NORETURN:
                        dead = True
                        break
                if not dead:
                    outs.add(cur)
            for s in f.succ[b]:
                cur = self.IN.setdefault(s, set())
                if not outs <= cur:
                    cur |= outs
                    dq.append(s)

    def at(self, ins):
        res = set()
        for h in self.IN.get(ins.block, ()):
            cur = h
            for i in self.f.blocks[ins.block]:
                if i.id == ins.id:
                    break
                cur = self.step(i, cur)
            res.add(cur)
        return res
