"""hash schedule extraction from -O1 IR: multiset of multiply constants, rotate amounts (llvm.fshl/fshr),
additive / xor constants and shift amounts per hash function.  -O1 canonicalises strength-reduced
multiplications and rotate idioms, so behaviour-preserving rewrites keep the multiset."""
from collections import Counter

FUNCS = ['MurmurHash3_x86_128', 'SpookyHash128', 'MetroHash128']


def schedule(P, fname):
    f = P.functions.get(fname)
    if f is None or f.decl:
        return None
    c = Counter()
    for i in f.all_insts():
        if i.op in ('mul', 'add', 'shl', 'lshr', 'sub') and len(i.ops) == 2:
            k = f.const_of(i.ops[1])
            if k is not None:
                w = 64 if i.ty == 'i64' else 32
                k &= (1 << w) - 1
                # loop induction / pointer arithmetic noise: keep only "magic" sized constants for add/sub, all for mul/shifts
                if i.op in ('add', 'sub', 'xor') and k < 0x10000 and i.op != 'xor':
                    continue
                c['%s:%s:%x' % (i.op, i.ty, k)] += 1
        if i.op not in ('mul', 'add', 'sub', 'shl', 'lshr') and not (i.op == 'call' and i.callee and i.callee.startswith('llvm.fsh')):
            # magic constants used as plain values (initial states, xor masks, phi inputs)
            for o in i.ops:
                if o[0] == 'c' and o[2] >= 32:
                    k = o[1] & ((1 << o[2]) - 1)
                    if 0x10000 <= k < (1 << o[2]) - 0x10000:
                        c['const:i%d:%x' % (o[2], k)] += 1
        if i.op == 'load' and i.ops[0][0] == 'g':
            g = P.globals.get(i.ops[0][1])
            if g is not None and 'bytes' in g and len(g['bytes']) <= 16:
                c['glob:%s:%s' % (i.ops[0][1], g['bytes'])] += 1
        if i.op == 'call' and i.callee and i.callee.startswith('llvm.fsh'):
            k = f.const_of(i.ops[2])
            same = i.ops[0] == i.ops[1]
            c['%s:%s:%s%s' % ('rot' if same else 'fsh', i.ty, i.callee[5:9], k)] += 1
    return dict(c)


def all_schedules(P):
    out = {}
    for fn in FUNCS:
        s = schedule(P, fn)
        if s is not None:
            out[fn] = s
    return out
