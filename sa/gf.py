"""Implementation-independent model of GF(2^8) with polynomial 0x11d, the documented
generator matrices, and CRC-32C.  Written from the definitions (shift-and-xor), never
read from raid/tables.c or raid/mktables.c."""

POLY = 0x11d


def mul(a, b):
    r = 0
    while b:
        if b & 1:
            r ^= a
        a <<= 1
        if a & 0x100:
            a ^= POLY
        b >>= 1
    return r


MUL = [[mul(a, b) for b in range(256)] for a in range(256)]
EXP = [1] * 256
for _i in range(1, 256):
    EXP[_i] = MUL[EXP[_i - 1]][2]
INV = [0] * 256
for _a in range(1, 256):
    for _b in range(1, 256):
        if MUL[_a][_b] == 1:
            INV[_a] = _b
            break


def pw(a, n):
    r = 1
    for _ in range(n):
        r = MUL[r][a]
    return r


NDISK = 251


def cauchy():
    """documented extended Cauchy matrix 6 x 251: row0 = 1, row1 = 2^i,
    row j>=2 = 1/(2^-i + 2^(j-1)) normalised so that column 0 is 1"""
    A = [[1] * NDISK, [EXP[i] for i in range(NDISK)]]
    for j in range(2, 6):
        y = EXP[j - 1]
        row = [INV[INV[EXP[i]] ^ y] for i in range(NDISK)]
        f = INV[row[0]]
        A.append([MUL[v][f] for v in row])
    return A


def power():
    """alternate three-parity (power/Vandermonde) matrix: 1, 2^i, (2^-1)^i"""
    h = INV[2]
    return [[1] * NDISK, [EXP[i] for i in range(NDISK)], [pw(h, i) for i in range(NDISK)]]


def det(M):
    """determinant of a square matrix over GF(2^8) by Gaussian elimination"""
    M = [r[:] for r in M]
    n = len(M)
    d = 1
    for c in range(n):
        p = None
        for r in range(c, n):
            if M[r][c]:
                p = r
                break
        if p is None:
            return 0
        M[c], M[p] = M[p], M[c]
        d = MUL[d][M[c][c]]
        iv = INV[M[c][c]]
        for r in range(c + 1, n):
            if M[r][c]:
                f = MUL[M[r][c]][iv]
                M[r] = [x ^ MUL[f][y] for x, y in zip(M[r], M[c])]
    return d


def mulmat(c):
    """8x8 GF(2) matrix of 'multiply by c' as list of 8 column bytes: col[b] = c * (1<<b)"""
    return [MUL[c][1 << b] for b in range(8)]


# ---------------- CRC-32C (Castagnoli), reflected polynomial
CRC_POLY = 0x82F63B78


def crc32c_tables():
    t0 = []
    for n in range(256):
        c = n
        for _ in range(8):
            c = (c >> 1) ^ CRC_POLY if c & 1 else c >> 1
        t0.append(c)
    ts = [t0]
    for k in range(1, 4):
        prev = ts[-1]
        ts.append([(prev[n] >> 8) ^ t0[prev[n] & 0xff] for n in range(256)])
    return ts
