"""Rule results, known findings, evidence and exit codes (DESIGN.md 2.2)."""
import json, os, sys, time

VERIF = os.path.dirname(os.path.dirname(os.path.abspath(__file__)))
# runs against a scratch copy (VERIF_REPO set by the developer tools) never touch the committed evidence
SCRATCH = os.environ.get('VERIF_REPO', '/repo') != '/repo'
OUTDIR = os.path.join(VERIF, '.cache', 'scratch-out') if SCRATCH else VERIF


class Report:
    def __init__(self, pid, tier, seed):
        self.pid = pid; self.tier = tier; self.seed = seed
        self.t0 = time.time()
        self.obligations = []   # (rule, instance, ok, detail)
        self.violations = []    # dicts
        self.rules = {}         # rule -> {'desc':..., 'instances': n, 'min': m}
        self.notes = []
        self.broken = []         # rules that lost their anchor (isolated): the run can no longer pass
        self.assumptions = []
        self.functions = set()
        self.extra = {}
        self.level = 'other'
        self.trusted_base = []
        self.explanation = ''

    # ---- recording
    def rule(self, rid, desc, min_instances=1):
        self.rules.setdefault(rid, {'desc': desc, 'instances': 0, 'ok': 0, 'min': min_instances})

    def ok(self, rid, instance, detail=''):
        r = self.rules[rid]
        r['instances'] += 1; r['ok'] += 1
        self.obligations.append((rid, instance, True, detail))

    def fail(self, rid, instance, where, detail, function=None, construct=None, path=None):
        """a rule instance does not hold.  `function` + `construct` form the stable key used by
        known_findings.json (never line numbers)."""
        r = self.rules[rid]
        r['instances'] += 1
        self.obligations.append((rid, instance, False, detail))
        self.violations.append({'property': self.pid, 'rule': rid, 'instance': instance, 'where': where,
                                'detail': detail, 'function': function or '', 'construct': construct or instance,
                                'path': path or []})

    def check(self, cond, rid, instance, where='', detail='', **kw):
        if cond:
            self.ok(rid, instance, detail)
        else:
            self.fail(rid, instance, where, detail, **kw)
        return cond

    def analysed(self, *fns):
        for f in fns:
            self.functions.add(f if isinstance(f, str) else f.name)

    # ---- finishing
    def finish(self, units):
        from .frontend import AnalysisBroken
        failing = {v['rule'] for v in self.violations}
        for rid, r in self.rules.items():
            # a rule that reports a violation is not vacuous: the vacuity guard protects passes only
            if r['instances'] < r['min'] and rid not in failing and not self.broken:
                self.broken.append('rule %s matched %d instances, fewer than the %d confirmed on the pinned tree (vacuity guard)' % (rid, r['instances'], r['min']))
        known = []
        kf_path = os.path.join(VERIF, 'known_findings.json')
        if os.path.exists(kf_path):
            known = [k for k in json.load(open(kf_path)).get('findings', []) if k.get('status') == 'known' and k['property'] == self.pid]
        new = []
        for v in self.violations:
            hit = None
            for k in known:
                if k['rule'] == v['rule'] and k['function'] == v['function'] and k['construct'] == v['construct']:
                    hit = k
                    break
            if hit is not None:
                print('KNOWN-FINDING: property=%s %s/%s/%s/%s — %s' % (self.pid, self.pid, v['rule'], v['function'], v['construct'], hit.get('what', v['detail'])))
            else:
                new.append(v)
        rc = 0
        if self.broken:
            # a rule lost its anchor: the run is analysis-broken (exit 2), never a pass -- and never a violation either: what the other
            # rules report next to a vanished anchor is often the same vanished name seen from another side (a renamed validation
            # function makes "no validation dominates the return" true).  The rules still run isolated so that the message names all of them.
            for v in new[:5]:
                print('note: with the anchor(s) lost, rule %s would report: %s' % (v['rule'], v['instance']))
            raise AnalysisBroken('; '.join(self.broken[:3]))
        # stale replay files of earlier runs of this property would mislead: drop them
        import glob
        for old in glob.glob(os.path.join(OUTDIR, 'replay', '%s-*.json' % self.pid)):
            try:
                os.remove(old)
            except OSError:
                pass
        if new:
            rc = 1
            os.makedirs(os.path.join(OUTDIR, 'replay'), exist_ok=True)
            for n, v in enumerate(new):
                p = os.path.join(OUTDIR, 'replay', '%s-%d.json' % (self.pid, n))
                json.dump(v, open(p, 'w'), indent=1)
                print('%s: rule %s instance %s: %s' % (v['where'], v['rule'], v['instance'], v['detail']))
                for step in v['path'][:40]:
                    print('    path: %s' % step)
                print('VIOLATION property=%s replay=%s' % (self.pid, p))
        nob = len(self.obligations)
        nok = sum(1 for o in self.obligations if o[2])
        samples = []
        seen_rules = set()
        for o in self.obligations:
            if o[0] not in seen_rules or len(samples) < 12:
                if sum(1 for s in samples if s['rule'] == o[0]) < 3:
                    samples.append({'rule': o[0], 'instance': o[1], 'held': o[2], 'detail': o[3][:300]})
                seen_rules.add(o[0])
        cov = {
            'obligations': nob, 'discharged': nok,
            'rule_instances': {rid: {'instances': r['instances'], 'held': r['ok'], 'min_expected': r['min'], 'rule': r['desc']} for rid, r in self.rules.items()},
            'units_analysed': len(units), 'functions_analysed': sorted(self.functions)[:400], 'n_functions_analysed': len(self.functions),
            'samples': samples[:40],
            'explanation': self.explanation,
            'checker_cmd': './check %s --tier %s' % (self.pid, self.tier),
            'trusted_base': self.trusted_base,
            'known_findings_reported': len(self.violations) - len(new),
            'exhaustive': bool(self.extra.get('exhaustive', False)),
        }
        cov.update({k: v for k, v in self.extra.items() if k != 'exhaustive'})
        ev = {'property_id': self.pid, 'tier': self.tier, 'seed': self.seed, 'level': self.level, 'coverage': cov,
              'assumptions': self.assumptions, 'wall_s': round(time.time() - self.t0, 2), 'violations': len(new)}
        os.makedirs(os.path.join(OUTDIR, 'evidence'), exist_ok=True)
        json.dump(ev, open(os.path.join(OUTDIR, 'evidence', self.pid + '.json'), 'w'), indent=1)
        for rid, r in self.rules.items():
            print('[%s] %-10s %3d/%-3d instances hold  %s' % (self.pid, rid, r['ok'], r['instances'], r['desc'][:110]))
        print('[%s] %d obligations, %d discharged, %d violation(s), %d known finding(s), %.1fs' % (self.pid, nob, nok, len(new), len(self.violations) - len(new), time.time() - self.t0))
        return rc
