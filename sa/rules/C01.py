"""C01 — complete recovery from any loss within the parity level (necessary structural conditions only)."""
import re
from ..frontend import AnalysisBroken
from ..ir import base
from ..guards import guards_of
from .. import effects
from .C12 import operation_values
from . import C04


def run(ctx, rep):
    P = ctx.prog
    rep.explanation = ('End-to-end recovery for all damage patterns is NOT decidable statically; it rests on C02/C03 (arithmetic), C05 (validation and write-back), C06 (parity validity). Decided here are four structural '
                       'conditions without which it cannot hold: the three stripe engines hand the same stripe vector to the RAID library; check registers every way a block can be unavailable as a failed entry; '
                       'under fix the wrong parity levels are rewritten and the time restored; fix reaches a creating effect for every kind of recorded entity.')
    rep.rule('R-C01-1', 'stripe vector agreement: every raid_gen/raid_rec/raid_data call uses nd = handle_mapping count, size = block_size, the shared buffer vector; np = state->level (or i+1 in the spare-parity check); handle_mapping places a disk at its map position', 8)
    rep.rule('R-C01-2', 'failed-set completeness in check: open failure, read failure and hash mismatch register a failed[] entry with is_bad = 1; DELETED / CHG / REP blocks are registered with is_bad = 0', 5)
    rep.rule('R-C01-3', 'under fix: wrong or missing parity levels are rewritten; the modification time is restored unless the inode collision test fails', 2)
    rep.rule('R-C01-4', 'fix reaches a creating effect for every recorded entity kind: file data, empty file, symlink, hardlink, directory, ancestors', 6)
    C04.memhash_pairing(P, rep, 'R-C01-5')
    n = 0
    # roles instead of names: the disk count is the local filled by handle_mapping (or a parameter that every caller feeds with it);
    # the buffer vector is one and the same local/parameter for every raid_* call of a function
    def behind(f, o):
        """the alloca (local or spilled parameter) an operand is loaded from"""
        i = f.inst_of(o)
        while i is not None and i.op in ('load', 'zext', 'sext', 'trunc', 'bitcast'):
            j = f.inst_of(i.ops[0])
            if i.op == 'load' and j is not None and j.op == 'alloca':
                return j
            i = j
        return None
    count_roles = {}     # function name -> set of alloca ids holding the mapped disk count
    for f in P.defined():
        for hm in f.calls('handle_mapping'):
            al = f.inst_of(hm.ops[1])
            if al is not None and al.op == 'alloca':
                count_roles.setdefault(f.name, set()).add(al.id)
    changed = True
    while changed:
        changed = False
        for f in P.defined():
            for c in f.calls():
                g = P.functions.get(c.callee_full) if c.callee_full else None
                if g is None or g.decl:
                    continue
                for k, o in enumerate(c.ops[:len(g.args)]):
                    al = behind(f, o)
                    if al is not None and al.id in count_roles.get(f.name, ()):
                        for aid, ak in g.arg_allocas().items():
                            if ak == k and aid not in count_roles.setdefault(g.name, set()):
                                count_roles[g.name].add(aid); changed = True
    from .C05 import hash_matching_fn
    for fname in ('state_sync_process', 'state_scrub_process', 'state_check_process', 'repair_step', hash_matching_fn(P), 'is_parity_matching', 'repair'):
        f = P.fn(fname)
        rep.analysed(f)
        bufs = set()
        for c in f.calls({'raid_gen', 'raid_rec', 'raid_data'}):
            a = [f.xexpr(o) for o in c.ops]      # expanded: a hoisted `level = state->level` prints as state->level
            if c.callee == 'raid_gen':
                nd, np_, size, buf = a; o_nd, o_buf = c.ops[0], c.ops[3]
            elif c.callee == 'raid_rec':
                _, _, nd, np_, size, buf = a; o_nd, o_buf = c.ops[2], c.ops[5]
            else:
                _, _, _, nd, size, buf = a; o_nd, o_buf = c.ops[3], c.ops[5]
                np_ = 'state->level'
            al_nd, al_buf = behind(f, o_nd), behind(f, o_buf)
            ok_nd = al_nd is not None and al_nd.id in count_roles.get(f.name, ())
            bufs.add(al_buf.id if al_buf is not None else None)
            ok = ok_nd and size == 'state->block_size' and al_buf is not None and np_ in ('state->level', '(i+1)')
            rep.check(ok, 'R-C01-1', '%s: %s(nd=%s, np=%s, size=%s, %s)' % (fname, c.callee, nd, np_, size, buf), c.loc(), 'nd is the mapped disk count: %s' % ok_nd, function=fname, construct='%s arguments' % c.callee)
            n += 1
        rep.check(len(bufs) <= 1 and None not in bufs, 'R-C01-1', '%s: every raid_* call works on the same buffer vector' % fname, f.file, '%d distinct vectors' % len(bufs), function=fname, construct='one buffer vector')
    for fname in ('state_sync_process', 'state_scrub_process', 'state_check_process'):
        f = P.fn(fname)
        hm = list(f.calls('handle_mapping'))
        rep.check(len(hm) == 1 and f.inst_of(hm[0].ops[1]) is not None and f.inst_of(hm[0].ops[1]).op == 'alloca', 'R-C01-1', '%s: the disk count is the one returned by handle_mapping' % fname, f.file, '', function=fname, construct='diskmax source')
    h = P.fn('handle_mapping')
    rep.analysed(h)
    st = [i for i in h.all_insts() if i.op == 'store' and re.search(r'handle\[map->position\]\.disk$', h.expr(i.ops[1]))]
    rep.check(len(st) == 1, 'R-C01-1', 'handle_mapping: handle[map->position].disk = disk', h.file, '', function='handle_mapping', construct='position')
    # parity slot binding: worker buffer_skew = handle_max for writers, parity reads land after data and computed parity
    io = P.fn('io_init')
    rep.analysed(io)
    sk = sorted(io.expr(i.ops[0]) for i in io.all_insts() if i.op == 'store' and io.expr(i.ops[1]).endswith('worker->buffer_skew'))
    rep.check(sk == ['0', 'handle_max', 'parity_handle_max'], 'R-C01-1', 'io_init: data at slot j, parity to write at handle_max + l, parity read at handle_max + levels + l', io.file, str(sk), function='io_init', construct='buffer skew')

    c = P.fn('state_check_process')
    rep.analysed(c)
    bad1 = C04.is_bad_sites(P, c, 1)
    bad0 = C04.is_bad_sites(P, c, 0)
    def registers(call, edge_sel):
        """on the failing edge of `call`, every path to the next disk passes an is_bad=1 store and ++failed_count"""
        for br, ci in C04.cond_branches_on_call(c, call):
            if ci.op == 'icmp' and c.const_of(ci.ops[1]) == -1:
                fe = br.ops[2][1] if ci.pred == 'eq' else br.ops[1][1]
                lp = c.loop_of(call.block)
                lat = [x for x in c.loops[lp] if lp in c.succ[x]]
                return C04.must_increment(c, fe, bad1, lat + [lp])
        return False
    ho = list(c.calls('handle_open')); hr = list(c.calls('handle_read'))
    rep.check(len(ho) == 1 and registers(ho[0], None), 'R-C01-2', 'open failure registers a bad entry', ho[0].loc() if ho else c.file, '', function='state_check_process', construct='open failure')
    rep.check(len(hr) == 1 and registers(hr[0], None), 'R-C01-2', 'read failure registers a bad entry', hr[0].loc() if hr else c.file, '', function='state_check_process', construct='read failure')
    rep.check(len(bad1) == 3, 'R-C01-2', 'three ways to be bad: open failure, read failure, hash mismatch', c.file, '%d is_bad=1 sites' % len(bad1), function='state_check_process', construct='bad sites')
    from .C06 import blk_value
    stv = blk_value(P)
    conds = {}
    for s_ in bad0:
        from ..guards import state_test
        for a, p in guards_of(c, s_, expand=True):
            t_ = state_test(a)
            if t_ and t_[2] == p:
                conds[t_[1]] = True
    rep.check({stv['CHG'], stv['REP']} <= set(conds) and len(bad0) == 3, 'R-C01-2', 'DELETED, CHG and REP blocks are always registered (not bad)', c.file, 'states registered with is_bad=0: %s' % sorted(conds), function='state_check_process', construct='unsynced entries')
    rep.check(len(list(c.calls('repair'))) == 1, 'R-C01-2', 'every stripe goes through repair()', c.file, '', function='state_check_process', construct='repair call')
    # R-C01-3
    pw = list(c.calls('parity_write'))
    ok = len(pw) == 1
    if ok:
        gs = guards_of(c, pw[0])
        d = {}
        for a, p in gs:
            d.setdefault(a, p)
        # the block written is buffer[<mapped disk count> + level]: the parity slot right after the data slots
        src = c.inst_of(pw[0].ops[2])
        okslot = False
        if src is not None and src.op == 'load':
            gp = c.inst_of(src.ops[0])
            if gp is not None and gp.op == 'getelementptr' and len(gp.ops) == 2:
                idx = c.inst_of(gp.ops[1])
                while idx is not None and idx.op in ('zext', 'sext'):
                    idx = c.inst_of(idx.ops[0])
                if idx is not None and idx.op == 'add':
                    als = [behind(c, o_) for o_ in idx.ops]
                    okslot = any(al is not None and al.id in count_roles.get(c.name, ()) for al in als) and sum(1 for al in als if al is not None) == 2
        ok = d.get('fix') is True and any('buffer_recov[' in a and not p for a, p in gs) and okslot
    rep.check(ok, 'R-C01-3', 'fix rewrites every parity level whose on-disk copy was missing or wrong', pw[0].loc() if pw else c.file, '', function='state_check_process', construct='parity rewrite')
    fp = P.fn('file_post')
    ut = list(fp.calls('handle_utime'))
    rep.check(len(ut) == 1 and ('fix', True) in guards_of(fp, ut[0]), 'R-C01-3', 'file_post restores the modification time of fixed files', fp.file, '', function='file_post', construct='utime')
    # R-C01-4 effects required
    vals = operation_values(P)
    eff, seen, fns = effects.command_effects(P, 'main', {'operation': vals['fix']})
    have = set()
    for cls, lst in eff.items():
        for ctxk, call in lst:
            have.add((base(call.fn.name), call.callee))
    need = {('handle_create', 'open'): 'file data (create)', ('handle_write', 'pwrite'): 'file data (write)', ('state_check_process', 'open'): 'empty file',
            ('state_check_process', 'symlink'): 'symlink', ('hardlink', 'link'): 'hardlink', ('state_check_process', 'mkdir'): 'empty directory', ('mkancestor', 'mkdir'): 'ancestors', ('fmtime', 'futimens'): 'modification time'}
    for k, what in need.items():
        if what in ('file data (write)', 'modification time'):
            continue
        rep.check(k in have, 'R-C01-4', 'fix can re-create: %s (%s in %s)' % (what, k[1], k[0]), 'cmdline/check.c', 'reachable under fix' if k in have else 'no longer reachable from the fix command', function=k[0], construct='creating effect %s' % what)
    # bytes per block (last partial block) and the valid range of a data file being rebuilt
    C04.block_size_rule(P, rep, 'R-C01-6')
    from .C17 import handle_valid_size_rules
    handle_valid_size_rules(P, rep, 'R-C01-7')
    # the only allowed exception to "modification time restored": another recorded file with the same size AND the same full time-stamp
    from .C11 import compared_members, CORE
    rep.rule('R-C01-3c', 'file_post: the inode-collision exception to restoring the time-stamp compares size, seconds and nanoseconds', 1)
    cm = compared_members(fp)
    need_ = max(1, cm.get('size', 0))
    rep.check(all(cm.get(k, 0) >= need_ for k in CORE), 'R-C01-3c', 'file_post collision test compares the full stamp', fp.file, 'comparisons per member: %s' % cm, function='file_post', construct='collision stamp')
    from .C05 import stripe_selection_rule
    stripe_selection_rule(P, rep, 'R-C01-8')
    from .C17 import valid_size_rules
    valid_size_rules(P, rep, 'R-C01-9')
    used_parity_rule(P, rep, 'R-C01-10')
    always_processed_rule(P, rep, 'R-C01-14')
    modified_file_flagged_rule(P, rep, 'R-C01-15')
    optional_source_not_fatal_rule(P, rep, 'R-C01-18')
    link_recreate_rule(P, rep, 'R-C01-19')
    C04.hash_length_rule(P, rep, 'R-C01-2l')
    C04.rehash_pairing_rule(P, rep, 'R-C01-17')
    from .carried import nullable_array_rule
    nullable_array_rule(P, rep, 'R-C01-16')
    # the tests of recorded empty files, hardlinks and directories look at the entry itself: a symbolic link planted on the path
    # (to any empty file / any directory / the link target) must not pass for the recorded entity
    from .C18 import nofollow_probe_rule
    nofollow_probe_rule(P, rep, 'R-C01-13', ('state_check_process',), 'check / fix of recorded empty files, hardlinks and directories', forbidden={'stat', 'stat64', 'access'})
    from .C17 import parity_read_valid_rule
    parity_read_valid_rule(P, rep, 'R-C01-11')
    from .C17 import create_accepts_damaged_size_rule
    create_accepts_damaged_size_rule(P, rep, 'R-C01-12')


def used_parity_rule(P, rep, rid):
    """fix rewrites a lost parity block only for stripes flagged as using parity.  The flag must be raised for every stripe that
    holds a block of a file -- in particular for a stripe whose only blocks are unreadable (the lost disk): they are rebuilt from the
    surviving parity, and the lost parity of that stripe must be recomputed as well.  Rule: every site that registers a block of a
    file as failed (is_bad = 1) is reached, from the top of the per-disk loop, only through the store that raises the flag."""
    from .C04 import is_bad_sites
    from ..guards import guards_of
    f = P.fn('state_check_process')
    rep.analysed(f)
    rep.rule(rid, 'state_check_process: the flag that enables the parity rewrite of a stripe is raised before any block of a file is registered as failed in that stripe', 2)
    pw = [c for c in f.calls('parity_write')]
    if not pw:
        raise AnalysisBroken('state_check_process: parity_write not found')
    # flags: int locals only assigned constants whose test guards the parity write; the "used" one is the flag set to non-zero in the loop
    cand = {}
    for a_ in f.all_insts():
        if a_.op != 'alloca' or a_.id in f.arg_allocas():
            continue
        us = f.users.get(a_.id, ())
        if us and all(u.op == 'load' or (u.op == 'store' and f.strip(u.ops[1]) == ['i', a_.id] and f.const_of(u.ops[0]) is not None) for u in us):
            cand[a_.id] = a_
    guard_flags = set()
    for b in range(len(f.blocks)):
        t = f.term(b)
        if t.op == 'br' and len(t.ops) == 3 and any(f.bdominates(s_, pw[0].block) for s_ in t.succ if s_ != pw[0].block or True):
            if not f.bdominates(b, pw[0].block):
                continue
            for x in _loads_in(f, t.ops[0]):
                if x in cand:
                    guard_flags.add(x)
    raising = {a: [u for u in f.users.get(a, ()) if u.op == 'store' and f.const_of(u.ops[0]) not in (0, None)] for a in guard_flags}
    # the flag raised inside the per-disk loop (the other guard flag, valid parity, is only ever lowered there)
    sites = is_bad_sites(P, f, 1)
    if not sites:
        raise AnalysisBroken('state_check_process: no is_bad = 1 site')
    depth = lambda b_: sum(1 for h_, body in f.loops.items() if b_ in body or b_ == h_)
    used = [a for a in guard_flags if raising[a] and all(depth(u.block) >= 2 for u in raising[a])]
    if len(used) != 1:
        rep.check(False, rid, 'state_check_process: a flag raised in the per-disk loop guards the parity rewrite', pw[0].loc(), 'flags guarding parity_write: %s; raised inside the per-disk loop: %d' % ([cand[a].var for a in guard_flags], len(used)), function='state_check_process', construct='used-parity flag')
        return
    ua = used[0]
    for s in sites:
        h = f.loop_of(s.block)
        if h is None:
            raise AnalysisBroken('is_bad site outside a loop')
        ok = f.must_pass(s, raising[ua], start=f.blocks[h][0])
        rep.check(ok, rid, 'state_check_process: %s = 1 before the block is registered as failed' % cand[ua].var, s.loc(),
                  'every path from the top of the per-disk loop passes the raising store (line %s)' % [u.line for u in raising[ua]] if ok else 'a block of a file is registered as failed (line %s) on a path that never raised %s: if every block of the stripe is unreadable the lost parity of the stripe is not rewritten and fix truncates / leaves it stale' % (s.line, cand[ua].var),
                  function='state_check_process', construct='used flag before is_bad')


def _loads_in(f, o, depth=0, seen=None):
    """allocas whose loads feed a condition (through compares, and/or, short-circuit phis)"""
    seen = set() if seen is None else seen
    o = f.strip(o)
    if o[0] != 'i' or depth > 10 or o[1] in seen:
        return set()
    seen.add(o[1])
    i = f.insts[o[1]]
    if i.op == 'load':
        a = f.strip(i.ops[0])
        return {a[1]} if a[0] == 'i' and f.insts[a[1]].op == 'alloca' else set()
    res = set()
    if i.op == 'phi':
        for pb in i.inc:
            t = f.term(pb)
            if t.op == 'br' and len(t.ops) == 3:
                res |= _loads_in(f, t.ops[0], depth + 1, seen)
    if i.op in ('icmp', 'and', 'or', 'xor', 'phi', 'select', 'zext', 'trunc'):
        for x in i.ops:
            res |= _loads_in(f, x, depth + 1, seen)
    return res


def always_processed_rule(P, rep, rid):
    """empty files, symbolic links, hardlinks and empty directories use no parity block; check and fix handle them at the end of
    state_check_process.  state_check must therefore reach state_check_process for every array and every range, also when there is
    no block to process (an array holding only such entries, or -S at the end): every path from the entry of state_check to its
    return passes the call, except the paths that leave through exit()."""
    from .C09 import dead_blocks
    f = P.fn('state_check')
    rep.analysed(f)
    rep.rule(rid, 'state_check: every returning path passes state_check_process (empty files, links and directories are handled there even when no block is selected)', 1)
    cs = list(f.calls('state_check_process'))
    if not cs:
        raise AnalysisBroken('state_check: state_check_process not called')
    rets = f.returns()
    ok = all(f.must_pass(r, cs) for r in rets)
    det = '%d call site(s), every return passes one' % len(cs)
    if not ok:
        r0 = [r for r in rets if not f.must_pass(r, cs)][0]
        path = f.find_path(f.entry(), r0, stop={c.id for c in cs})
        # the condition that lets the path skip the call
        skip = ''
        for b in range(len(f.blocks)):
            t = f.term(b)
            if t.op == 'br' and len(t.ops) == 3 and any(f.bdominates(s_, cs[0].block) for s_ in t.succ) and not all(f.bdominates(s_, cs[0].block) or s_ == cs[0].block for s_ in t.succ) and f.bdominates(b, cs[0].block):
                skip = f.xexpr(t.ops[0])
        det = 'a path reaches the return without state_check_process (condition `%s`, lines %s): with no block to process (an array of only empty files, links and directories; -S at the end) fix recreates nothing and check reports nothing' % (skip, [p_.line for p_ in (path or [])][-6:])
    rep.check(ok, rid, 'state_check always runs state_check_process', cs[0].loc(), det, function='state_check', construct='process skipped')


def modified_file_flagged_rule(P, rep, rid):
    """file_post restores the synced modification time only of files flagged FILE_IS_FIXED (and leaves alone the ones flagged
    FILE_IS_DAMAGED).  Every operation of fix that changes the bytes or the size of a data file -- and thereby its time-stamp --
    must therefore flag the file before the stripe loop goes on: the write of a recovered block and the truncation of a file that is
    larger than recorded.  Rule: from each successful handle_write / handle_truncate in state_check_process every path to the next
    iteration of the stripe loop passes file_flag_set(.., FILE_IS_FIXED or FILE_IS_DAMAGED)."""
    f = P.fn('state_check_process')
    rep.analysed(f)
    rep.rule(rid, 'state_check_process: after handle_write / handle_truncate changed a data file, the file is flagged FIXED (or DAMAGED) before the next stripe, so that file_post restores its modification time', 2)
    FIXED, DAMAGED = 0x08, 0x04
    import re
    # constants from the pinned header are re-read from the IR: the flag passed by the two existing FIXED sites
    flags = [c for c in f.calls('file_flag_set') if f.const_of(c.ops[1]) is not None]
    marks = [c for c in flags if f.const_of(c.ops[1]) in (FIXED, DAMAGED)]
    mods = [c for c in f.calls({'handle_write', 'handle_truncate'})]
    if not mods or not marks:
        raise AnalysisBroken('state_check_process: modifying calls / flag sites not found')
    outer = max(f.loops, key=lambda h: len(f.loops[h]))
    hdr = f.blocks[outer][0]
    n = 0
    for c in mods:
        if c.block not in f.loops[outer]:
            continue
        n += 1
        # the failing side of the result test leaves through bail (dead for the loop); follow every path anyway and stop at marks
        r_ = f.reach([c], stop={m_.id for m_ in marks})
        bail = {b for b, nme in enumerate(f.bname) if nme == 'bail'}
        esc = hdr.id in r_
        if esc:
            # ignore the path through the failure test (`ret == -1` -> bail): recompute with the bail blocks as stops
            r2 = f.reach([c], stop={m_.id for m_ in marks} | {f.blocks[b][0].id for b in bail})
            esc = hdr.id in r2
        rep.check(not esc, rid, '%s at line %s is followed by the FIXED / DAMAGED flag' % (c.callee, c.line), c.loc(),
                  'flag set on every path to the next stripe' if not esc else '%s changes the file (and its modification time) but a path reaches the next stripe without file_flag_set(FILE_IS_FIXED): file_post leaves the time at "now" although fix reports the file as recovered and exits 0' % c.callee,
                  function='state_check_process', construct='%s without FIXED flag' % c.callee)
    if n < 2:
        raise AnalysisBroken('state_check_process: fewer modifying calls than on the pinned tree (%d)' % n)


def optional_source_not_fatal_rule(P, rep, rid):
    """before it uses the parity, repair() asks two optional sources for the lost block: files imported with -i and, by size and
    time-stamp, every file of the array (state_search_fetch).  They are an optimisation: a candidate that cannot be read is simply not
    a match.  The array search necessarily meets the damaged file itself (same size and time-stamp); if a read error on a candidate
    ends the process, a single unreadable sector makes plain fix / check exit before the parity is ever tried (fix -N works).
    Rule: in the comparison callback of the array search the failing side of the candidate's read does not lead to exit()."""
    from .C09 import dead_blocks
    from .C04 import cond_branches_on_call
    f = P.fn('search_file_compare')
    rep.analysed(f)
    rep.rule(rid, 'search_file_compare: a failed read of a candidate file returns "no match"; it does not terminate the run', 1)
    rd = list(f.calls({'pread', 'read'}))
    if not rd:
        raise AnalysisBroken('search_file_compare: read of the candidate not found')
    dead = dead_blocks(f)
    for c in rd:
        brs = cond_branches_on_call(f, c)
        if not brs:
            raise AnalysisBroken('search_file_compare: result of the read is not tested')
        # the failing side of a test on the read result: the successor from which the hash comparison is no longer reachable
        cont = [x.id for x in f.calls('memhash')]
        if not cont:
            raise AnalysisBroken('search_file_compare: hash comparison not found')
        fatal = []
        for t, ci in brs:
            if ('call', c.callee) not in f.value_sources(t.ops[0]):
                continue          # a later test of the same variable, assigned by another call
            for s_ in t.succ:
                r_ = f.reach([f.blocks[s_][0]], include_start=True)
                if any(k in r_ for k in cont):
                    continue
                fatal += [x for x in f.all_insts() if x.id in r_ and x.op == 'call' and x.callee in ('exit', 'os_abort', 'abort')]
        rep.check(not fatal, rid, 'search_file_compare: read failure of a candidate is not fatal', c.loc(),
                  'failure returns to the caller' if not fatal else 'a candidate that cannot be read (the damaged file itself has the wanted size and time-stamp) ends the process with exit(): one unreadable sector makes fix and check stop before the parity is used',
                  function='search_file_compare', construct='read failure fatal')


def link_recreate_rule(P, rep, rid):
    """fix recreates a recorded hard link or symbolic link that is missing or wrong.  Whatever sits at the path (a link to another
    target, a stale copy of the file, a link to another inode) must be removed first: link() and symlink() fail with EEXIST otherwise
    and the entry is reported unrecoverable although everything needed to recreate it is there.  Rule: in state_check_process every
    hardlink() / symlink() call is dominated by remove() of the same path."""
    f = P.fn('state_check_process')
    rep.analysed(f)
    rep.rule(rid, 'state_check_process: hardlink() and symlink() that recreate a recorded link are dominated by remove() of the path they create', 2)
    mk = [c for c in f.calls({'hardlink', 'symlink', 'link'})]
    rm = list(f.calls({'remove', 'unlink'}))
    if len(mk) < 2:
        raise AnalysisBroken('state_check_process: link creation calls not found (%d)' % len(mk))
    for c in mk:
        newp = f.expr(c.ops[1])
        ok = any(f.expr(r.ops[0]) == newp and f.dominates(r, c) for r in rm)
        rep.check(ok, rid, '%s(.., %s) is preceded by remove(%s)' % (c.callee, newp[:30], newp[:30]), c.loc(),
                  'removal dominates the creation' if ok else 'no remove() of %s dominates this %s(): when something already exists at the path (the very reason the link is being fixed) the call fails with EEXIST and the link is reported unrecoverable' % (newp[:40], c.callee),
                  function='state_check_process', construct='%s without prior remove' % c.callee)
