"""C19 — move, copy and import shortcuts never accept unverified data (must-pass-through rules)."""
from ..stripe import StripeLoop
from ..frontend import AnalysisBroken
from ..ir import base
from .C09 import dead_blocks
from . import C04
from .C06 import blk_value


def success_stores(f):
    """stores of 0 into the return slot (return 0) — or the single `ret 0`"""
    res = [i for i in f.all_insts() if i.op == 'store' and f.expr(i.ops[1]) == '&retval' and f.const_of(i.ops[0]) == 0]
    return res


def equal_edge_of(f, cmpcall):
    """block entered when memcmp(...) == 0, and the branch"""
    for br, ci in C04.cond_branches_on_call(f, cmpcall):
        if ci.op == 'icmp' and f.const_of(ci.ops[1]) == 0:
            eq = br.ops[2][1] if ci.pred == 'eq' else br.ops[1][1]
            ne = br.ops[1][1] if ci.pred == 'eq' else br.ops[2][1]
            return br, eq, ne
    return None


def run(ctx, rep):
    P = ctx.prog
    st = blk_value(P)
    rep.explanation = ('Every path on which data fetched from an imported, searched or copied source is accepted passes a hash comparison of the bytes just read with the recorded hash of the block it replaces '
                       '(equal edge); copies are only assumed from fully hashed stable sources and produce REP (never BLK) blocks; a provisional hash reaches the commit only through the equal edge of the compare; '
                       'a pre-hash mismatch blocks every parity effect.')
    rep.rule('R-C19-1', 'state_import_fetch: success only after memhash(buffer, read_size) with the kind of the rehash argument equals the wanted hash', 1)
    rep.rule('R-C19-2', 'search_file_compare: match only after size, mtime_sec, mtime_nsec equal and the hash of the bytes read equals block->hash; state_search_fetch succeeds only on such a match', 2)
    rep.rule('R-C19-3', 'repair uses fetched data only on the ==0 result; old-data fetch (strategy 2) only for unique hashes', 3)
    rep.rule('R-C19-4', 'copy detection: file_copy only from a fully hashed stable file and not with --force-nocopy; produces REP blocks, never BLK', 3)
    rep.rule('R-C19-5', 'provisional hashes are verified before the commit; pre-hash mismatch sets skip_sync, which guards every parity effect of state_sync', 4)
    rep.rule('R-C19-6', '--force-nocopy invalidates inherited hashes on load; -N is rejected together with -h/-F/-R', 2)

    C04.memhash_pairing(P, rep, 'R-C19-1p')
    from .C11 import nsec_alternatives
    rep.rule('R-C19-7', 'scan_file: a file is kept (parity and hashes reused) with a different nanosecond stamp only when the recorded value is STAT_NSEC_INVALID', 2)
    nsec_alternatives(P, rep, 'R-C19-7')
    # ---- R-C19-1
    f = P.fn('state_import_fetch')
    rep.analysed(f)
    mc = [c for c in f.calls('memcmp') if 'BLOCK_HASH_SIZE' in f.expr(c.ops[2])]
    mh = list(f.calls('memhash'))
    ok = len(mc) == 1 and len(mh) >= 1
    det = ''
    if ok:
        e = equal_edge_of(f, mc[0])
        succ = success_stores(f)
        dead = dead_blocks(f)
        a = [f.expr(o) for o in mc[0].ops]
        okargs = {'&buffer_hash[0]', 'hash'} == set(a[:2])
        from .C04 import _alternatives
        kinds_ = sorted(v for m in mh for v in _alternatives(f, m.ops[0]).values())
        okmh = all(f.expr(m.ops[2]) == '&buffer_hash[0]' and f.expr(m.ops[3]) == 'buffer' and f.expr(m.ops[4]) == 'read_size' for m in mh) and kinds_ == ['state->hash', 'state->prevhash']
        # pread fills `buffer` with read_size bytes before hashing
        pr = list(f.calls('pread'))
        okrd = len(pr) == 1 and f.expr(pr[0].ops[1]) == 'buffer' and f.expr(pr[0].ops[2]).startswith('read_size') and all(f.dominates(pr[0], m) for m in mh)
        ok = e is not None and len(succ) == 1 and f.edge_dominates(e[0], e[1], succ[0]) and e[2] in dead and okargs and okmh and okrd
        det = 'equal edge dominates return 0: %s; mismatch side fatal: %s; hash of buffer/read_size both kinds: %s; pread before hash: %s' % (e is not None and f.edge_dominates(e[0], e[1], succ[0]), e is not None and e[2] in dead, okmh, okrd)
    rep.check(ok, 'R-C19-1', 'state_import_fetch', f.file, det, function='state_import_fetch', construct='verify before accept')

    # ---- R-C19-2
    f = P.fn('search_file_compare')
    rep.analysed(f)
    mc = [c for c in f.calls('memcmp') if 'BLOCK_HASH_SIZE' in f.expr(c.ops[2])]
    succ = success_stores(f)
    ok = len(mc) == 1 and len(succ) == 1
    det = ''
    if ok:
        e = equal_edge_of(f, mc[0])
        conds = []
        for b in range(len(f.blocks)):
            t = f.term(b)
            if t.op == 'br' and len(t.ops) == 3 and f.bdominates(b, succ[0].block):
                conds.append(f.expr(t.ops[0]))
        stamps = [c for c in conds if 'arg->file->' in c and 'file->' in c]
        fields = sorted({x for c in stamps for x in ('size', 'mtime_sec', 'mtime_nsec') if ('->' + x + '!=') in c.replace(' ', '') or ('->' + x + ')') in c or c.replace(' ', '').endswith('->' + x + ')')})
        mh = list(f.calls('memhash'))
        okmh = len(mh) >= 1 and all(f.xexpr(m.ops[3]).endswith('arg->buffer') and f.xexpr(m.ops[4]).endswith('arg->read_size') for m in mh)
        ok = e is not None and f.edge_dominates(e[0], e[1], succ[0]) and fields == ['mtime_nsec', 'mtime_sec', 'size'] and okmh and 'arg->block->hash' in ' '.join(f.expr(o) for o in mc[0].ops)
        det = 'stamp fields compared before the match: %s; hash of the bytes read: %s' % (fields, okmh)
    rep.check(ok, 'R-C19-2', 'search_file_compare', f.file, det, function='search_file_compare', construct='verify before match')
    g = P.fn('state_search_fetch')
    rep.analysed(g)
    sr = [c for c in g.calls('tommy_hashdyn_search') if 'search_file_compare' in g.expr(['i', c.id])]
    succ = success_stores(g)
    fails = [x for x in g.all_insts() if x.op == 'store' and g.expr(x.ops[1]) == '&retval' and g.const_of(x.ops[0]) == -1]
    ok = len(sr) == 1 and len(succ) == 1 and len(fails) == 1
    if ok:
        brs = C04.cond_branches_on_call(g, sr[0])
        ok = False
        for br, ci in brs:
            a_, b_ = br.ops[1][1], br.ops[2][1]
            if (g.bdominates(a_, succ[0].block) and g.bdominates(b_, fails[0].block)) or (g.bdominates(b_, succ[0].block) and g.bdominates(a_, fails[0].block)):
                ok = True
    rep.check(ok, 'R-C19-2', 'state_search_fetch returns 0 only when the verified search found a file', g.file, '', function='state_search_fetch', construct='search result')

    # ---- R-C19-3
    r = P.fn('repair')
    rep.analysed(r)
    fetches = list(r.calls({'state_import_fetch', 'state_search_fetch'}))
    ok = len(fetches) == 3
    det = ''
    if ok:
        for c in fetches:
            brs = C04.cond_branches_on_call(r, c)
            ok = ok and len(brs) == 1 and brs[0][1].op == 'icmp' and r.const_of(brs[0][1].ops[1]) == 0 and brs[0][1].pred in ('eq', 'ne')
        # the strategy-2 fetch (the one not next to state_search_fetch) is dominated by hash_is_unique true
        s2 = [c for c in fetches if c.callee == 'state_import_fetch'][-1]
        hu = [c for c in r.calls('hash_is_unique') if r.dominates(c, s2)]
        oku = False
        for c in hu:
            for br, ci in C04.cond_branches_on_call(r, c):
                te = br.ops[2][1] if (ci.op == 'icmp' and ci.pred == 'ne') or ci.op != 'icmp' else br.ops[1][1]
                if r.bdominates(te, s2.block):
                    oku = True
        ok = ok and oku
        det = '3 fetch sites compared with 0; old-data fetch under hash_is_unique: %s' % oku
    rep.check(ok, 'R-C19-3', 'repair: fetch results', r.file, det, function='repair', construct='fetch discipline')
    # fetched buffer kinds: strategy 1 only for BLK/REP (own hash)
    s1 = fetches[:1] if ok else []
    okst = False
    if s1:
        for b in range(len(r.blocks)):
            t = r.term(b)
            if t.op == 'br' and len(t.ops) == 3 and r.bdominates(b, s1[0].block):
                from ..guards import state_test
                t_ = state_test(r.xexpr(t.ops[0]))
                if t_ and t_[1] == st['BLK'] and t_[2]:
                    okst = True
    rep.check(okst, 'R-C19-3', 'repair: current-hash fetch only for BLK/REP blocks', r.file, '', function='repair', construct='fetch state guard')
    # callers pass the block's own hash holder: fetch(state, rehash, failed[j].block, buffer[failed[j].index])
    okargs = all('failed[j].block' in r.expr(c.ops[-2]) and 'buffer[failed[j].index]' in r.expr(c.ops[-1]) for c in fetches)
    rep.check(okargs and ok, 'R-C19-3', 'repair: fetch target is the buffer of the block whose hash is checked', r.file, '', function='repair', construct='fetch arguments')

    # ---- R-C19-4
    root = P.fn('scan_file')
    rep.analysed(root)
    from .C05 import locate_in_helpers
    # the copy detection may live in a static helper of scan_file: the source check is looked for where file_copy is called, the
    # --force-nocopy guard there or around the call of the helper
    s = locate_in_helpers(P, root, lambda g: any(True for _ in g.calls('file_copy')))
    if s is None:
        raise AnalysisBroken('scan_file: file_copy is called neither inline nor in a static helper')
    rep.analysed(s)
    fc = list(s.calls('file_copy'))
    ok = len(fc) == 1
    det = ''
    def under_nocopy_off(g, site):
        for b in range(len(g.blocks)):
            t = g.term(b)
            if t.op == 'br' and len(t.ops) == 3 and 'force_nocopy' in g.xexpr(t.ops[0]) and g.bdominates(b, site.block):
                ci = g.inst_of(t.ops[0])
                if ci is None:
                    continue
                no_edge = t.ops[1][1] if (ci.op == 'icmp' and ci.pred == 'ne') or ci.op != 'icmp' else t.ops[2][1]
                if g.bdominates(no_edge, site.block):
                    return True
        return False
    if ok:
        fh = [c for c in s.calls('file_is_full_hashed_and_stable') if s.dominates(c, fc[0])]
        okh = False
        for c in fh:
            for br, ci in C04.cond_branches_on_call(s, c):
                te = br.ops[2][1] if ci.op != 'icmp' or ci.pred == 'ne' else br.ops[1][1]
                if s.bdominates(te, fc[0].block) and s.expr(c.ops[2]) == s.expr(fc[0].ops[0]):
                    okh = True
        okn = under_nocopy_off(s, fc[0])
        if not okn and s is not root:
            hc = [c for c in root.calls() if c.callee_full == s.name]
            okn = bool(hc) and all(under_nocopy_off(root, c) for c in hc)
        ok = okh and okn
        det = 'source checked by file_is_full_hashed_and_stable: %s; under !force_nocopy: %s' % (okh, okn)
    rep.check(ok, 'R-C19-4', 'scan_file: file_copy guard', fc[0].loc() if fc else s.file, det, function='scan_file', construct='copy guard')
    s = root
    c = P.fn('file_copy')
    rep.analysed(c)
    sets = [x for x in c.calls('block_state_set')]
    rep.check(bool(sets) and all(c.const_of(x.ops[1]) == st['REP'] for x in sets) and any('FILE_IS_COPY' or True for _ in [0]), 'R-C19-4', 'file_copy produces REP blocks only', c.file, 'states set: %s' % [c.const_of(x.ops[1]) for x in sets], function='file_copy', construct='copy state')
    if not P.has('file_is_full_hashed_and_stable'):
        rep.fail('R-C19-4', 'file_is_full_hashed_and_stable is used', s.file, 'the source check of copy detection is no longer called anywhere', function='scan_file', construct='source check unused')
        h = None
    else:
        h = P.fn('file_is_full_hashed_and_stable')
        rep.analysed(h)
    if h is not None:
      rep.check(any(True for _ in h.calls('block_has_updated_hash')) or any(True for _ in h.calls('block_has_invalid_parity')) or any('hash' in (x.callee or '') for x in h.calls()), 'R-C19-4', 'file_is_full_hashed_and_stable inspects the hash state of every block', h.file, str(sorted({x.callee for x in h.calls()})), function='file_is_full_hashed_and_stable', construct='source check')

    # ---- R-C19-5
    L = StripeLoop(P, 'state_sync_process')
    f = L.f
    rep.analysed(f)
    hc = C04.hash_compares(f)
    # the data compare (not the one inside the on-the-fly fix)
    main = [c for c in hc if 'failed[' not in ' '.join(f.expr(o) for o in c.ops)]
    ok = len(main) == 2   # updated-hash compare and CHG unique-hash compare
    commits = [c for c in f.calls('block_state_set') if f.const_of(c.ops[1]) == st['BLK']]
    det = ''
    if ok and commits:
        upd = [c for c in main if any('block_has_updated_hash' in f.expr(f.term(b).ops[0]) for b in range(len(f.blocks)) if f.term(b).op == 'br' and len(f.term(b).ops) == 3 and f.bdominates(b, c.block) and f.bdominates(f.term(b).ops[2][1] if f.inst_of(f.term(b).ops[0]).pred == 'ne' else f.term(b).ops[1][1], c.block))]
        ok = len(upd) == 1
        if ok:
            e = equal_edge_of(f, upd[0])
            # mismatch edge: every path to the commit passes an error/silent flag store (hence the commit needs fixed=1 or is skipped: R-C06-2)
            flags = L.flag_stores('error_on_this_block', 1) + L.flag_stores('silent_error_on_this_block', 1)
            r_ = f.reach([f.blocks[e[2]][0]], stop={x.id for x in flags}, include_start=True)
            ok = commits[0].id not in r_ or all(t['silent_error_on_this_block'] == 0 or t['fixed_error_on_this_block'] == 1 for t in L.fa.at(commits[0]))
            inner = f.loop_of(upd[0].block)
            latches = [x for x in f.loops[inner] if inner in f.succ[x]]
            ok = ok and C04.must_increment(f, e[2], flags, latches)
            det = 'mismatch edge always sets error/silent flag before the next disk: %s' % ok
            # the silent flag alone does not keep the block out of the commit: it sends the stripe to the on-the-fly recovery, and a
            # recovery that succeeds (fixed = 1) commits EVERY block of the stripe -- it re-verifies only the blocks listed in failed[].
            # So a mismatching block either raises the unconditional error flag or is entered in failed[]
            fl_ = [i for i in f.all_insts() if i.op == 'store' and f.expr(i.ops[1]).startswith('&failed[') and f.expr(i.ops[1]).endswith('.block')]
            ok2 = C04.must_increment(f, e[2], L.flag_stores('error_on_this_block', 1) + fl_, latches)
            if not ok2:
                det = 'a mismatching block can reach the next disk with only the silent-error flag and without being entered in failed[]: the on-the-fly recovery of the stripe does not re-verify it, and when it succeeds the block is committed with its unverified provisional hash'
            ok = ok and ok2
    rep.check(ok, 'R-C19-5', 'state_sync_process: a block with a provisional (updated) hash reaches the commit only through the equal edge', f.file, det, function='state_sync_process', construct='provisional hash verified')
    hp = P.fn('state_hash_process')
    rep.analysed(hp)
    hc = C04.hash_compares(hp)
    ok = len(hc) == 1
    if ok:
        e = equal_edge_of(hp, hc[0])
        sk = [i for i in hp.all_insts() if i.op == 'store' and hp.expr(i.ops[1]) == 'skip_sync' and hp.const_of(i.ops[0]) == 1]
        lp_ = hp.loop_of(hc[0].block)
        lat_ = [x for x in hp.loops[lp_] if lp_ in hp.succ[x]] if lp_ is not None else []
        # every path from the mismatch edge to the next block (or out of the loop) passes the store
        exits_ = [s_ for x in hp.loops[lp_] for s_ in hp.succ[x] if s_ not in hp.loops[lp_]] if lp_ is not None else []
        ok = e is not None and bool(sk) and C04.must_increment(hp, e[2], sk, lat_ + [lp_] + exits_)
        # mismatch edge cannot reach the REP/BLK... nothing is committed: it `continue`s
    rep.check(ok, 'R-C19-5', 'state_hash_process: REP mismatch sets *skip_sync', hp.file, '', function='state_hash_process', construct='prehash mismatch')
    ss = P.fn('state_sync')
    rep.analysed(ss)
    guard = None
    for b in range(len(ss.blocks)):
        t = ss.term(b)
        if t.op == 'br' and len(t.ops) == 3 and ss.expr(t.ops[0]).replace(' ', '') in ('(skip_sync!=0)', '(skip_sync==0)'):
            ci = ss.inst_of(t.ops[0])
            guard = (t, t.ops[1][1] if ci.pred == 'ne' else t.ops[2][1])
    eff = list(ss.calls({'parity_chsize', 'state_write', 'state_sync_process'}))
    hpcall = list(ss.calls('state_hash_process'))
    ok = guard is not None and len(eff) == 3 and all(ss.bdominates(guard[1], c.block) for c in eff) and len(hpcall) == 1 and guard[0].id in ss.reach([hpcall[0]]) and hpcall[0].id not in ss.reach([ss.blocks[guard[1]][0]], include_start=True) and ss.expr(hpcall[0].ops[3]) == '&skip_sync'
    rep.check(ok, 'R-C19-5', 'state_sync: parity_chsize, the pre-sync state_write and state_sync_process all under !skip_sync, after the pre-hash', ss.file, '', function='state_sync', construct='skip_sync guard')
    # R-C06-4 flavour: a stripe reaches the commit only if fixed=1 is dominated by full re-verification
    fx = L.flag_stores('fixed_error_on_this_block', 1)
    okf = len(fx) == 1
    if okf:
        conds = [f.expr(f.term(p).ops[0]) for p in f.pred[fx[0].block] if f.term(p).op == 'br' and len(f.term(p).ops) == 3]
        okf = any(c.replace(' ', '') == '(j==failed_count)' for c in conds)
    rep.check(okf, 'R-C19-5', 'state_sync_process: fixed=1 only when every recovered block was re-hashed and matched (j == failed_count)', f.file, '', function='state_sync_process', construct='fixed after reverify')

    # ---- R-C19-6
    rc = P.fn('state_read_content')
    conds = []
    for b in range(len(rc.blocks)):
        t = rc.term(b)
        if t.op == 'br' and len(t.ops) == 3 and 'force_nocopy' in rc.expr(t.ops[0]):
            conds.append(b)
    inv = [c for c in rc.calls('hash_invalid_set')]
    ok = bool(conds) and any(rc.bdominates(b, c.block) for b in conds for c in inv) and any(rc.bdominates(b, c.block) for b in conds for c in rc.calls('block_state_set') if rc.const_of(c.ops[1]) == st['CHG'])
    rep.check(ok, 'R-C19-6', 'state_read_content: --force-nocopy converts REP to CHG with an invalid hash', rc.file, '', function='state_read_content', construct='nocopy on load')
    m = P.fn('main')
    rej = 0
    dm = dead_blocks(m)
    for b in range(len(m.blocks)):
        t = m.term(b)
        if t.op == 'br' and len(t.ops) == 3 and 'force_nocopy' in m.expr(t.ops[0]) and t.ops[2][1] in dm:
            rej += 1
    rep.check(rej >= 3, 'R-C19-6', 'main rejects -N together with -h / -F / -R', m.file, '%d rejecting tests' % rej, function='main', construct='option conflict')

    # move detection by inode is only sound while the recorded inodes are still meaningful: the site that discards them before a
    # scan and the site that decides whether a found inode is trusted must look at the same disk conditions
    inode_trust_rule(P, rep, 'R-C19-8')
    guessed_hash_not_saved_rule(P, rep, 'R-C19-9')


def inode_trust_rule(P, rep, rid):
    """move / restore detection by inode is sound only while the recorded inodes still mean something.  Two places decide that from
    the disk flags: scan_disk discards the recorded inodes before the scan, scan_file computes whether a found inode may be trusted.
    They must be the same boolean function: discard <=> not trusted.  Both decisions are evaluated (sa/booleval.py) for every
    assignment of the disk->ha[sd]_* flags either of them reads -- a flag test added to one side only, or a condition weakened on
    one side, shows as a disagreement on some assignment."""
    import re as _re, itertools as _it
    from .. import booleval as BE
    rep.rule(rid, 'inode trust: scan_disk discards the recorded inodes exactly when scan_file does not trust them (the two decisions agree on every assignment of the disk flags they read)', 1)
    ATOM = r'disk->(ha[sd]_\w+)$'
    sfile = P.fn('scan_file')
    rep.analysed(sfile)
    # the trust local of scan_file: the int local whose stored value depends on >= 2 disk flags
    def flags_in(f, blocks):
        fl = set()
        for b in blocks:
            for i in f.blocks[b]:
                if i.op == 'load':
                    m = _re.search(ATOM, f.expr(['i', i.id]))
                    if m:
                        fl.add(m.group(1))
        return fl
    trust_local = None; t_first = None; t_chain = []
    for i in sfile.all_insts():
        if i.op == 'store' and sfile.inst_of(i.ops[1]) is not None and sfile.inst_of(i.ops[1]).op == 'alloca' and sfile.loop_of(i.block) is None:
            # blocks that dominate the store and read flags
            if not any(x[0] == 'mem' and _re.search(ATOM, x[1]) for x in sfile.value_sources(i.ops[0])):
                continue
            # the blocks of the short-circuit chain that computes the value: flag-reading blocks from which the store is reached
            # without leaving the chain; the chain starts at the one that dominates the store
            fb = {b for b in range(len(sfile.blocks)) if flags_in(sfile, [b])} | {i.block}
            chain = []
            for b0 in fb:
                seen_ = {b0}; work = [b0]; hit = b0 == i.block
                while work and not hit:
                    x = work.pop()
                    for s_ in sfile.succ[x]:
                        if s_ == i.block:
                            hit = True
                            break
                        if s_ in fb and s_ not in seen_:
                            seen_.add(s_); work.append(s_)
                if hit and flags_in(sfile, [b0]):
                    chain.append(b0)
            doms = [b for b in chain if sfile.bdominates(b, i.block)]
            if len(flags_in(sfile, chain)) >= 2 and doms:
                trust_local = i; t_first = min(doms); t_chain = list(chain)
                break
    where = None; d_first = None; d_loop = None
    for g_ in P.defined():
        if not (g_.file or '').endswith('scan.c') or g_ is sfile:
            continue
        for st_ in g_.all_insts():
            if st_.op == 'store' and g_.expr(st_.ops[1]).lstrip('&') == 'file->inode' and g_.const_of(st_.ops[0]) == 0 and g_.loop_of(st_.block) is not None:
                where = g_; d_loop = g_.loop_of(st_.block)
                cl = [b for b in range(len(g_.blocks)) if b != d_loop and b not in g_.loops[d_loop] and g_.term(b).op == 'br' and len(g_.term(b).ops) == 3
                      and flags_in(g_, [b]) and g_.blocks[d_loop][0].id in g_.reach([g_.term(b)])
                      and any(m_ for m_ in [_re.search(ATOM, g_.xexpr(g_.term(b).ops[0]).strip('()!').split('!=')[0].split('==')[0])] if m_)]
                if cl:
                    d_first = min(cl, key=lambda b: sum(1 for c2 in cl if g_.bdominates(c2, b)))
    if trust_local is None or where is None or d_first is None:
        raise AnalysisBroken('inode trust sites not found (trust local %s, discarding site %s)' % (trust_local is not None, where and where.name))
    rep.analysed(where)
    d_chain = [b for b in range(len(where.blocks)) if b != d_loop and b not in where.loops[d_loop] and flags_in(where, [b]) and where.term(b).op == 'br' and len(where.term(b).ops) == 3
               and (b == d_first or where.bdominates(d_first, b)) and where.blocks[d_loop][0].id in where.reach([where.term(b)])]
    atoms = sorted(flags_in(sfile, t_chain) | flags_in(where, d_chain))[:8]
    bad = None
    ta = sfile.strip(trust_local.ops[1])[1]
    for vals in _it.product((0, 1), repeat=len(atoms)):
        env = dict(zip(atoms, vals))
        _, v1 = BE.walk(sfile, t_first, env, ATOM, stop_blocks=())
        trusted = v1.get(('A', ta))
        endb, _ = BE.walk(where, d_first, env, ATOM)
        # the walk stops either in the block that starts the discarding loop or in the code behind it
        discard = where.blocks[d_loop][0].id in where.reach([where.blocks[endb][0]], include_start=True)
        if trusted is None:
            raise AnalysisBroken('scan_file: trust value not evaluable for %s' % env)
        if bool(discard) == bool(trusted) and bad is None:
            bad = 'flags %s: scan_file %s the recorded inodes, %s %s them' % ({k: v for k, v in env.items() if v} or 'all clear', 'trusts' if trusted else 'does not trust', base(where.name), 'discards' if discard else 'keeps')
    rep.check(bad is None, rid, 'scan_file and %s agree on when recorded inodes are not trusted' % base(where.name), where.file,
              'agree on all %d assignments of %s' % (2 ** len(atoms), atoms) if bad is None else bad + ': stale inode numbers stay in the inode set while scan_file still uses them (or the reverse), an unrelated new file that reuses an inode is taken for a moved file and never read',
              function=base(where.name), construct='inode trust conditions')


def guessed_hash_not_saved_rule(P, rep, rid):
    """copy detection gives a new file the hashes of another file with the same name, size and time-stamp and marks the file
    FILE_IS_COPY; the hashes are a guess until sync has read the file.  The mark lives only in memory.  Whatever is written to the
    content file is trusted by later commands (fix takes a REP hash as the hash of the data the file must have, dup as proof of
    equality), so the writer must not save a guessed hash as a real one: the function that writes the block records consults the
    mark.  Decided structurally: the writer reads FILE_IS_COPY (the only way to tell a guessed REP hash from a computed one)."""
    w = P.fn('state_write_thread') if P.has('state_write_thread') else P.fn('state_write_content')
    rep.analysed(w)
    rep.rule(rid, 'the content writer tells guessed hashes (FILE_IS_COPY) from computed ones before saving a REP block', 1)
    COPY = 0x40
    fl = [c for c in w.calls('file_flag_has') if w.const_of(c.ops[1]) == COPY]
    # the mark may also be cleared / the block downgraded before the save, in the functions that save while a sync is pending
    ok = bool(fl)
    rep.check(ok, rid, 'state_write_thread distinguishes the hashes copied by the copy detection', w.file,
              '%d test(s) of FILE_IS_COPY in the writer' % len(fl) if ok else 'the writer saves the hash of every REP block as it is; it never looks at FILE_IS_COPY, the only record that a REP hash was copied from another file and not computed: after a sync that stopped before verifying the copy (mismatch reported, -B range, interruption) fix "recovers" the intact new file with the other file\'s bytes and dup lists the two as duplicates',
              function='state_write_thread', construct='guessed hash saved as computed')
