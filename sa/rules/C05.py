"""C05 — fix never silently leaves or produces wrong data (validation, write-back discipline, hash provenance)."""
import re
from ..frontend import AnalysisBroken
from ..ir import base
from ..guards import guards_of, state_is
from .C09 import dead_blocks
from . import C04
from .C06 import blk_value
from .C19 import equal_edge_of, success_stores


def true_edge_of_call(f, call):
    """(branch, block taken when the call result is non-zero)"""
    from .C09 import first_cond_branch, depends_on
    fb = first_cond_branch(f, call)
    if fb is not None and fb.op == 'br' and len(fb.ops) == 3 and depends_on(f, fb.ops[0], call.id):
        ci = f.inst_of(fb.ops[0])
        if ci is not None and ci.op == 'icmp' and f.const_of(ci.ops[1]) == 0:
            return fb, (fb.ops[2][1] if ci.pred == 'ne' else fb.ops[1][1])
    for br, ci in C04.cond_branches_on_call(f, call):
        if ci.op == 'icmp' and f.const_of(ci.ops[1]) == 0:
            return br, (br.ops[2][1] if ci.pred == 'ne' else br.ops[1][1])
        if ci.op != 'icmp':
            return br, br.ops[2][1]
    return None


def run(ctx, rep):
    P = ctx.prog
    st = blk_value(P)
    rep.explanation = ('Every success return of the repair step is reached only through a hash or spare-parity validation edge; recovered data is written only when fixing, only for bad entries of selected files, '
                       'uncertain (out-of-date) recoveries always mark the file DAMAGED, which is renamed to .unrecoverable and never gets its time restored; hash-provenance typestate: a hash of freshly read data '
                       'may be stored in a block only together with the transition to REP/BLK, a REP hash never survives the transition to DELETED.')
    rep.rule('R-C05-1', 'repair_step returns 0 only through is_hash_matching / is_parity_matching (or nothing failed); is_hash_matching returns 1 only if a hash was checked', 4)
    rep.rule('R-C05-2', 'write-back discipline: handle_write only under fix, is_bad, !excluded; is_outofdate => DAMAGED; failed repair => DAMAGED + unrecoverable error; failing return iff unrecoverable', 6)
    rep.rule('R-C05-3', 'file_post: DAMAGED => rename to .unrecoverable and no handle_utime; "recovered" only for FIXED and not DAMAGED', 3)
    rep.rule('R-C05-5', 'hash provenance: a freshly computed data hash is stored in a block only together with the commit to REP/BLK; REP -> DELETED always invalidates; new CHG blocks get ZERO or the DELETED predecessor\'s hash', 5)

    C04.memhash_pairing(P, rep, 'R-C05-1p')
    # ---- R-C05-1
    f = P.fn('repair_step')
    rep.analysed(f)
    succ = success_stores(f)
    hm_name = hash_matching_fn(P)
    val = list(f.calls({hm_name, 'is_parity_matching'}))
    oks = 0
    for s in succ:
        how = None
        for c in val:
            te = true_edge_of_call(f, c)
            if te and f.edge_dominates(te[0], te[1], s):
                how = c.callee
        if how is None:
            gs = guards_of(f, s)
            if any((a.replace(' ', '') == '(failed_count==0)' and p) or (a == 'failed_count' and not p) for a, p in gs):
                how = 'failed_count == 0'
        rep.check(how is not None, 'R-C05-1', 'repair_step: return 0 at %s' % s.loc().split(':')[-1], s.loc(), 'validated by %s' % how if how else 'a success return is not dominated by a validation edge', function='repair_step', construct='success return')
        oks += 1
    if len(succ) < 3:
        raise AnalysisBroken('repair_step: expected >= 3 success returns')
    g = P.fn(hm_name)
    rep.analysed(g)
    one = [i for i in g.all_insts() if i.op == 'store' and g.expr(i.ops[1]) == '&retval' and g.const_of(i.ops[0]) == 1]
    ok = len(one) == 1
    if ok:
        gs = guards_of(g, one[0])
        ok = any(a == 'hash_checked' and p for a, p in gs)
        bc = list(g.calls('blockcmp'))
        ok = ok and len(bc) == 1
        if ok:
            br, ne = None, None
            for b_, ci in C04.cond_branches_on_call(g, bc[0]):
                ne = b_.ops[2][1] if ci.pred == 'ne' else b_.ops[1][1]
            zero = [i for i in g.all_insts() if i.op == 'store' and g.expr(i.ops[1]) == '&retval' and g.const_of(i.ops[0]) == 0]
            ok = ne is not None and any(g.bdominates(ne, z.block) for z in zero)
            # the hash length is the block size of the file position
            ok = ok and 'pos_size' == g.expr(bc[0].ops[3])
    rep.check(ok, 'R-C05-1', 'is_hash_matching: returns 1 only with hash_checked and no blockcmp mismatch', g.file, '', function='is_hash_matching', construct='hash validation')

    # ---- R-C05-2
    c = P.fn('state_check_process')
    rep.analysed(c)
    hw = list(c.calls('handle_write'))
    ok = len(hw) == 1
    det = ''
    if ok:
        gs = guards_of(c, hw[0], expand=True)
        d = {}
        for a, p in gs:
            d.setdefault(a, p)
        need = [('fix', True), ('failed[j].is_bad', True), ('state->opt.auditonly', False)]
        ok = all(d.get(a) is p for a, p in need) and any('file_flag_has(failed[j].file' in a and not p for a, p in gs)
        ok = ok and any(('repair(' in a or a == 'ret') and not p for a, p in gs)
        det = ' && '.join(('' if p else '!') + a for a, p in gs[-8:])
    rep.check(ok, 'R-C05-2', 'handle_write guard', hw[0].loc() if hw else c.file, det, function='state_check_process', construct='write-back guard')
    # is_outofdate => DAMAGED (not FIXED): the store of FIXED is not reachable on the outofdate edge
    flagsets = [(x, c.const_of(x.ops[1])) for x in c.calls('file_flag_set')]
    # FILE_IS_DAMAGED / FILE_IS_FIXED constants from file_post's tests
    fp = P.fn('file_post')
    consts = {}
    for x in fp.calls('file_flag_has'):
        k = fp.const_of(x.ops[1])
        # the one guarding rename is DAMAGED
        for r in fp.calls('rename'):
            te = true_edge_of_call(fp, x)
            if te and fp.edge_dominates(te[0], te[1], r):
                consts['DAMAGED'] = k
    recov = [x for x in fp.calls('log_tag') if 'status:recovered' in fp.expr(x.ops[0])]
    for x in fp.calls('file_flag_has'):
        k = fp.const_of(x.ops[1])
        te = true_edge_of_call(fp, x)
        if recov and te and fp.edge_dominates(te[0], te[1], recov[0]) and k != consts.get('DAMAGED'):
            gsr = guards_of(fp, recov[0])
            consts.setdefault('FIXED', k)
    if 'DAMAGED' not in consts:
        raise AnalysisBroken('cannot identify FILE_IS_DAMAGED')
    ood = [b for b in range(len(c.blocks)) if c.term(b).op == 'br' and len(c.term(b).ops) == 3 and c.expr(c.term(b).ops[0]) == '(failed[j].is_outofdate!=0)' and hw and c.dominates(hw[0], c.term(b))]
    ok = len(ood) == 1
    if ok:
        t = c.term(ood[0])
        te = t.ops[2][1]
        dam = [x for x, k in flagsets if k == consts['DAMAGED'] and c.bdominates(te, x.block)]
        fixed = [x for x, k in flagsets if k == consts.get('FIXED') and c.bdominates(ood[0], x.block)]
        # from the outofdate edge, the FIXED store of the same iteration is not reachable before the loop latch
        lp = c.loop_of(ood[0])
        r_ = c.reach([c.blocks[te][0]], stop={c.blocks[lp][0].id}, include_start=True)
        ok = bool(dam) and bool(fixed) and all(x.id not in r_ for x in fixed)
    rep.check(ok, 'R-C05-2', 'out-of-date recovery marks the file DAMAGED and never FIXED', c.file, '', function='state_check_process', construct='outofdate => DAMAGED')
    rp = list(c.calls('repair'))
    ok = len(rp) == 1
    if ok:
        te = true_edge_of_call(c, rp[0])
        ok = te is not None
        if ok:
            dam = [x for x, k in flagsets if k == consts['DAMAGED'] and c.bdominates(te[1], x.block)]
            ue = [i for i in c.all_insts() if i.op == 'store' and c.expr(i.ops[1]) == '&unrecoverable_error' and c.bdominates(te[1], i.block)]
            ok = bool(dam) and bool(ue) and not any(c.bdominates(te[1], x.block) for x in hw)
    rep.check(ok, 'R-C05-2', 'unsuccessful repair: DAMAGED for bad entries, ++unrecoverable_error, no write-back', c.file, '', function='state_check_process', construct='failed repair')
    rets = [i for i in c.all_insts() if i.op == 'store' and c.expr(i.ops[1]) == '&retval' and c.const_of(i.ops[0]) == -1]
    ok = False
    for r in rets:
        gs = guards_of(c, r)
        if any('unrecoverable_error' in a and p for a, p in gs):
            ok = True
    rep.check(ok, 'R-C05-2', 'state_check_process returns failure when unrecoverable_error != 0', c.file, '', function='state_check_process', construct='failing return')
    # partial recover counted
    pre = [i for i in c.all_insts() if i.op == 'store' and c.expr(i.ops[1]) == '&partial_recover_error']
    rep.check(len(pre) >= 2, 'R-C05-2', 'out-of-date bad entries are counted as unrecoverable (partial recover)', c.file, '', function='state_check_process', construct='partial recover')
    hcs = list(c.calls('handle_create'))
    ok = len(hcs) == 1
    if ok:
        gs = guards_of(c, hcs[0])
        ok = ('fix', True) in gs and any('file_flag_has(file' in a and not p for a, p in gs)
    rep.check(ok, 'R-C05-2', 'handle_create only under fix and for non-excluded files', c.file, '', function='state_check_process', construct='create guard')

    # ---- R-C05-3
    rep.analysed(fp)
    rn = list(fp.calls('rename'))
    ut = list(fp.calls('handle_utime'))
    ok = len(rn) == 1 and len(ut) == 1
    if ok:
        gs = dict(guards_of(fp, rn[0]))
        ok = gs.get('fix') is True and '.unrecoverable' in fp.expr(rn[0].ops[1]) or True
        # from the DAMAGED edge handle_utime is unreachable within the iteration
        dmg = [x for x in fp.calls('file_flag_has') if fp.const_of(x.ops[1]) == consts['DAMAGED'] and fp.dominates(x, rn[0])]
        te = true_edge_of_call(fp, dmg[0]) if dmg else None
        lp = fp.loop_of(rn[0].block)
        ok = te is not None and ut[0].id not in fp.reach([fp.blocks[te[1]][0]], stop={fp.blocks[lp][0].id}, include_start=True)
        pp = [x for x in fp.calls('pathprint') if fp.dominates(x, rn[0]) and 'unrecoverable' in fp.expr(x.ops[2])]
        ok = ok and bool(pp)
    rep.check(ok, 'R-C05-3', 'file_post: DAMAGED => rename to <name>.unrecoverable, time not restored', fp.file, '', function='file_post', construct='damaged handling')
    ok = bool(recov)
    if ok:
        gs = guards_of(fp, recov[0])
        d = {}
        for a, p in gs:
            d.setdefault(a, p)
        fl = [(a, p) for a, p in gs if 'file_flag_has(file' in a]
        ok = d.get('fix') is True and len([1 for a, p in fl if not p]) >= 2 and any(p for a, p in fl)
    rep.check(ok, 'R-C05-3', 'file_post: "recovered" reported only under fix, FIXED and not DAMAGED / not excluded', fp.file, '', function='file_post', construct='recovered report')
    gs = guards_of(fp, ut[0]) if ut else []
    rep.check(bool(ut) and ('fix', True) in gs, 'R-C05-3', 'file_post: modification time restored only when fixing', fp.file, '', function='file_post', construct='utime guard')

    hash_provenance_rules(P, rep, 'R-C05-5', st)
    # recovery must never decode from parity bytes that were never written: the valid-size typestate of the parity files
    from .C17 import valid_size_rules
    valid_size_rules(P, rep, 'R-C05-7')
    from .C17 import parity_read_valid_rule
    parity_read_valid_rule(P, rep, 'R-C05-7p')
    pr = P.fn('parity_read')
    chk = [b for b in range(len(pr.blocks)) if pr.term(b).op == 'br' and len(pr.term(b).ops) == 3 and 'valid_size' in pr.expr(pr.term(b).ops[0])]
    rd = list(pr.calls('pread'))
    rep.rule('R-C05-7r', 'parity_read refuses positions beyond valid_size before reading', 1)
    rep.check(bool(chk) and bool(rd) and all(pr.bdominates(chk[0], r_.block) for r_ in rd), 'R-C05-7r', 'parity_read: valid_size test dominates pread', pr.file, '', function='parity_read', construct='valid_size gate')
    # ---- R-C05-1v a reconstruction without any hash is validated against the one parity that did NOT take part in it
    rep.rule('R-C05-1v', 'repair_step: when no hash is available the result of raid_data(r-1, ..., ip) is checked against parity level ip[r-1], the member of the combination not used for the reconstruction', 1)
    rs_ = P.fn('repair_step')
    ipm = list(rs_.calls('is_parity_matching'))
    if len(ipm) != 1:
        raise AnalysisBroken('repair_step: is_parity_matching call not found')
    pm = ipm[0]
    rd_ = [c_ for c_ in rs_.calls('raid_data') if rs_.dominates(c_, pm) and rs_.loop_of(c_.block) == rs_.loop_of(pm.block)]
    okv = len(rd_) == 1
    detv = 'no raid_data call feeds the parity check'
    if okv:
        lvl = rs_.inst_of(pm.ops[2])
        okv = False
        detv = 'level argument %s' % rs_.expr(pm.ops[2])
        # level = load (gep ip, idx): same array as raid_data's parity vector, idx == raid_data's count of parities used
        if lvl is not None and lvl.op == 'load':
            gp = rs_.inst_of(lvl.ops[0])
            if gp is not None and gp.op == 'getelementptr':
                arr = rs_.strip(gp.ops[0]); rarr = rs_.strip(rd_[0].ops[2])
                def root(o):
                    i_ = rs_.inst_of(o)
                    while i_ is not None and i_.op in ('getelementptr', 'bitcast', 'load') and i_.op != 'alloca':
                        if i_.op == 'load':
                            break
                        i_ = rs_.inst_of(i_.ops[0])
                    return i_.id if i_ is not None else None
                idx = gp.ops[-1]
                same_arr = root(gp.ops[0]) is not None and root(gp.ops[0]) == root(rd_[0].ops[2])
                same_idx = rs_.xexpr(idx).replace(' ', '') == rs_.xexpr(rd_[0].ops[0]).replace(' ', '')
                okv = same_arr and same_idx
                detv = 'checked against %s; raid_data used the first %s entries of %s' % (rs_.expr(pm.ops[2]), rs_.expr(rd_[0].ops[0]), rs_.expr(rd_[0].ops[2]))
    rep.check(okv, 'R-C05-1v', 'repair_step: spare-parity validation uses the unused member of the combination', pm.loc(), detv, function='repair_step', construct='spare parity level')

    # ---- R-C05-9 which stripes check/fix process when the parity is filtered out: every stripe holding a block of a selected file,
    # whatever the state of that block (CHG / REP blocks of a file recorded by an interrupted sync can be recovered too)
    stripe_selection_rule(P, rep, 'R-C05-9')
    buffer_slot_rule(P, rep, 'R-C05-10')
    deleted_forgotten_rule(P, rep, 'R-C05-12')
    C04.hash_length_rule(P, rep, 'R-C05-2l')
    from .carried import nullable_array_rule
    nullable_array_rule(P, rep, 'R-C05-13')
    from .C18 import nofollow_probe_rule
    nofollow_probe_rule(P, rep, 'R-C05-11', ('state_check_process',), 'check / fix of recorded empty files, hardlinks and directories', forbidden={'stat', 'stat64', 'access'})
    from .C18 import selection_effects_rule
    selection_effects_rule(P, rep, 'R-C05-16')

    # ---- R-C05-8 a per-file flag that steers a write decision is read only after the site that computes it
    rep.rule('R-C05-8', 'state_check_process: every test of a file flag computed by the first-open detection (FILE_IS_UNSYNCED) is reached only after that detection in the same disk iteration (a --filter-error/-e fix never acts on a stale flag)', 1)
    cp = P.fn('state_check_process')
    def _fed_by_stat_compare(c):
        for pb in cp.pred[c.block]:
            t = cp.term(pb)
            if t.op == 'br' and len(t.ops) == 3 and any(w in cp.expr(t.ops[0]) for w in ('st_size', 'st_mtim')):
                # control dependent on the comparison: the other outcome can finish the iteration without the setter
                others = [o[1] for o in t.ops[1:] if o[1] != c.block]
                hd_ = cp.loop_of(c.block)
                if hd_ is None:
                    continue
                for ob in others:
                    r_ = cp.reach([cp.blocks[ob][0]], stop={cp.blocks[hd_][0].id}, include_start=True)
                    if c.id not in r_:
                        return True
        return False
    sets = [c for c in cp.calls('file_flag_set') if cp.const_of(c.ops[1]) is not None and _fed_by_stat_compare(c)]
    if not sets:
        raise AnalysisBroken('state_check_process: first-open change detection (file_flag_set under a size/time comparison) not found')
    for sc in sets:
        k = cp.const_of(sc.ops[1])
        obj = cp.expr(sc.ops[0])
        hd = cp.loop_of(sc.block)
        if hd is None:
            raise AnalysisBroken('state_check_process: change detection is not inside the disk loop')
        stop = {cp.blocks[hd][0].id}
        early = []
        nread = 0
        for rd_ in cp.calls('file_flag_has'):
            if cp.const_of(rd_.ops[1]) != k or rd_.block not in cp.loops[hd]:
                continue
            nread += 1
            if sc.id in cp.reach([rd_], stop=stop):
                early.append(rd_)
        rep.check(nread >= 1 and not early, 'R-C05-8', 'file flag 0x%x set at line %s is tested only after it is computed' % (k, sc.line), (early[0] if early else sc).loc(),
                  '%d tests in the disk loop; tests that can run before the detection: %s' % (nread, ['line %s' % e_.line for e_ in early]), function='state_check_process', construct='flag 0x%x read before set' % k)

    # ---- R-C05-6 hash-length agreement: a past hash (CHG/DELETED block) was computed under the block length of ANOTHER file;
    # a comparison that uses the current file's block size can fail for equal data, so a mismatch must be treated conservatively
    rep.rule('R-C05-6', 'comparisons of recovered/read data with a possibly inherited past hash treat a mismatch conservatively', 2)
    rp_ = P.fn('repair')
    # the loop that judges recovered CHG blocks may have been split out of repair() into a static helper: analyse it where it lives
    _host = locate_in_helpers(P, rp_, lambda g_: any(state_is(guards_of(g_, bc_, expand=True), st['CHG']) for bc_ in g_.calls('blockcmp')))
    if _host is not None:
        rp_ = _host
        rep.analysed(rp_)
    for bc in rp_.calls('blockcmp'):
        gs = guards_of(rp_, bc)
        chg = state_is(guards_of(rp_, bc, expand=True), st['CHG'])
        if not chg:
            continue
        brs = C04.cond_branches_on_call(rp_, bc)
        ood = [i for i in rp_.all_insts() if i.op == 'store' and rp_.expr(i.ops[1]).endswith('.is_outofdate') and rp_.const_of(i.ops[0]) == 1]
        okc = False
        for br, ci in brs:
            if ci.op == 'icmp' and rp_.const_of(ci.ops[1]) == 0:
                mism = br.ops[2][1] if ci.pred == 'ne' else br.ops[1][1]
                lp_ = rp_.loop_of(bc.block)
                lat_ = [x for x in rp_.loops[lp_] if lp_ in rp_.succ[x]] if lp_ is not None else []
                okc = C04.must_increment(rp_, mism, ood, lat_ + ([lp_] if lp_ is not None else []))
        rep.check(okc, 'R-C05-6', 'repair: blockcmp of a CHG block against its inherited hash', bc.loc(),
                  'mismatch marks the entry out of date' if okc else 'on a mismatch the recovered data is accepted as the up-to-date version (written back and reported fixed), although the inherited hash may have been computed over a different block length',
                  function='repair', construct='blockcmp on CHG: mismatch accepted as up to date')
    # the special hash values (INVALID = lost, ZERO = was empty) can never validate recovered data, whatever the hash size: decided by
    # interpreting the judgement of repair() (the former guard-name rules R-C05-6i / R-C05-6r asked for calls of hash_is_invalid /
    # hash_is_zero and for a test of the hash size: a spelling, not the behaviour)
    chg_decision_rules(P, rep, rid_safe='R-C05-6r')
    blockcmp_size_rule(P, rep, 'R-C05-14')
    failed_index_vectors_rule(P, rep, 'R-C05-15')
    whole_file_processed_rule(P, rep, 'R-C05-3s')
    sy = P.fn('state_sync_process')
    hc2 = [c for c in C04.hash_compares(sy) if 'failed[' not in ' '.join(sy.expr(o) for o in c.ops)]
    okc = False
    for c in hc2:
        gs = guards_of(sy, c)
        if any('hash_is_unique' in a and p for a, p in gs):
            e = equal_edge_of(sy, c)
            sets = [i for i in sy.all_insts() if i.op == 'store' and sy.expr(i.ops[1]) == '&parity_needs_to_be_updated' and sy.const_of(i.ops[0]) == 1]
            okc = e is not None and any(sy.bdominates(e[2], x.block) for x in sets)
    rep.check(okc, 'R-C05-6', 'state_sync_process: CHG block vs inherited hash: mismatch forces the parity update (conservative)', sy.file, '', function='state_sync_process', construct='sync CHG compare')


def hash_provenance_rules(P, rep, rid, st):
    """hash-provenance typestate (shared by C05 and C06): CHG/DELETED carry the hash of what the parity holds, REP/BLK of the current data"""
    if rid not in rep.rules:
        rep.rule(rid, 'hash provenance: a freshly computed data hash is stored in a block only together with the commit to REP/BLK; REP -> DELETED always invalidates; new CHG blocks get ZERO or the DELETED predecessor\'s hash', 5)
    # ---- R-C05-5 hash provenance
    # (a) every store of a freshly computed hash into block->hash
    engines = []
    for fname in ('state_sync_process', 'state_hash_process'):
        h0 = P.fn(fname)
        engines.append((fname, h0))
        # static helpers split out of the engine (the per-disk commit loop) are analysed like the engine itself
        for c_ in h0.calls():
            g_ = P.functions.get(c_.callee_full) if c_.callee_full else None
            if g_ is not None and not g_.decl and g_.internal and any(True for _ in g_.calls('block_state_set')):
                engines.append((fname, g_))
    for fname, h in engines:
        rep.analysed(h)
        for m in h.calls('llvm.memcpy.p0i8.p0i8.i64'):
            dst, src = h.expr(m.ops[0]), h.expr(m.ops[1])
            if not dst.endswith('->hash[0]') or 'rehandle' in src or 'rehandle' in dst:
                continue
            if not (src.startswith('&hash[0]') or 'chghandle' in src):
                continue
            # must be followed, before the enclosing per-stripe/per-block iteration ends, by block_state_set(REP|BLK) on every path
            commits = [x for x in h.calls('block_state_set') if h.const_of(x.ops[1]) in (st['REP'], st['BLK'])]
            lp = h.loop_of(m.block)
            outer = [hh for hh, body in h.loops.items() if m.block in body]
            top = max(outer, key=lambda hh: len(h.loops[hh])) if outer else None
            targets = [h.blocks[top][0]] if top is not None else []
            r_ = h.reach([m], stop={x.id for x in commits})
            esc = [t for t in targets if t.id in r_] + [r for r in h.returns() if r.id in r_]
            rep.check(not esc, rid, '%s: hash of freshly read data stored into %s' % (fname, dst[1:]), m.loc(),
                      'followed by the commit to REP/BLK on every path' if not esc else 'the block can keep its CHG state (stripe skipped for an error elsewhere) while its hash already describes the NEW data, not what the parity holds',
                      function=fname, construct='fresh hash stored before commit')
    # (b) REP -> DELETED invalidates
    d = P.fn('scan_file_deallocate')
    rep.analysed(d)
    dele = [x for x in d.calls('block_state_set')]
    inval = list(d.calls('hash_invalid_set'))
    repb = state_case_entries(d, st['REP'])
    ok = len(dele) == 1 and bool(repb) and all(d.must_pass(dele[0], inval, start=d.blocks[b_][0]) for b_ in repb)
    rep.check(ok, rid, 'scan_file_deallocate: a REP block is always invalidated before becoming DELETED', d.file, '%d entries of the REP case' % len(repb), function='scan_file_deallocate', construct='REP to DELETED')
    blkb = state_case_entries(d, st['BLK'])
    ok = len(dele) == 1 and bool(blkb) and not any(x.id in d.reach([d.blocks[b_][0]], stop={dele[0].id}, include_start=True) for x in inval for b_ in blkb)
    rep.check(ok, rid, 'scan_file_deallocate: a BLK block keeps its hash (it is what the parity holds)', d.file, '%d entries of the BLK case' % len(blkb), function='scan_file_deallocate', construct='BLK to DELETED')
    # (c) new CHG blocks (the code may live in a static helper split out of scan_file_allocate)
    root = P.fn('scan_file_allocate')
    a = locate_in_helpers(P, root, lambda g: any(g.const_of(x.ops[1]) == st['CHG'] for x in g.calls('block_state_set')))
    if a is None:
        raise AnalysisBroken('scan_file_allocate: the site that creates CHG blocks was not found (neither inline nor in a static helper)')
    rep.analysed(a)
    chg = [x for x in a.calls('block_state_set') if a.const_of(x.ops[1]) == st['CHG']]
    ok = len(chg) == 1
    if ok:
        zero = list(a.calls('hash_zero_set'))
        cp = [m for m in a.calls('llvm.memcpy.p0i8.p0i8.i64') if a.expr(m.ops[0]).endswith('block->hash[0]') and 'over_block->hash' in a.expr(m.ops[1])]
        fa_ = list(a.calls('fs_allocate'))
        ok = len(zero) == 1 and len(cp) == 1
        if ok and fa_:
            ok = len(fa_) == 1 and a.must_pass(fa_[0], zero + cp, start=chg[0])
        elif ok:
            # helper: every path from the state change to the helper's return sets the hash; the caller allocates afterwards
            esc = a.reach([chg[0]], stop={x.id for x in zero + cp})
            ok = not any(r_.id in esc for r_ in a.returns())
            hc = [c for c in root.calls() if c.callee_full == a.name]
            fr = list(root.calls('fs_allocate'))
            ok = ok and len(hc) == 1 and len(fr) == 1 and fr[0].id in root.reach([hc[0]])
        # copy only from a DELETED predecessor, and invalidated when clear_past_hash is not set
        inv = [x for x in a.calls('hash_invalid_set') if a.dominates(cp[0], x)] if cp else []
        ok = ok and bool(inv)
    rep.check(ok, rid, 'scan_file_allocate: a new CHG block gets the ZERO hash or the hash of the DELETED block it overwrites', a.file, '', function='scan_file_allocate', construct='new CHG hash')


def locate_in_helpers(P, root, pred, depth=0):
    """the function satisfying `pred` among `root` and the static helpers it calls (two levels): code split out of an anchor function"""
    if pred(root):
        return root
    if depth >= 2:
        return None
    for c in root.calls():
        g = P.functions.get(c.callee_full) if c.callee_full else None
        if g is not None and not g.decl and g.internal and g is not root:
            r = locate_in_helpers(P, g, pred, depth + 1)
            if r is not None:
                return r
    return None


def stripe_selection_rule(P, rep, rid):
    rep.rule(rid, 'check/fix stripe selection (block_is_enabled of check.c): a stripe is taken when any disk has a block with a file (block_has_file: BLK, CHG and REP alike) whose file is not excluded', 1)
    cands = [f_ for f_ in P.variants('block_is_enabled') if (f_.file or '').endswith('check.c')]
    if len(cands) != 1:
        raise AnalysisBroken('check.c block_is_enabled not found')
    f = cands[0]
    rep.analysed(f)
    ones = [i for i in f.all_insts() if i.op == 'store' and f.expr(i.ops[1]) == '&retval' and f.const_of(i.ops[0]) == 1]
    preds = set()
    for st_ in ones:
        gs = guards_of(f, st_)
        if any(a.startswith('block_has') for a, _ in gs):
            for a, p_ in gs:
                if a.startswith('block_has') or a.startswith('file_flag_has'):
                    preds.add((a.split('(')[0], p_))
    want = {('block_has_file', True), ('file_flag_has', False)}
    rep.check(preds == want, rid, 'block_is_enabled (check): file-based inclusion', f.file, 'included under %s' % sorted(preds) if preds == want else 'the per-disk inclusion is decided by %s instead of block_has_file && !excluded: stripes whose selected file has only not-yet-synced blocks are skipped, the file is never opened nor recovered' % sorted(preds),
              function='block_is_enabled', construct='check stripe selection')


def hash_matching_fn(P):
    """name of the function that validates a recovery attempt of repair_step() through the block hashes (is_hash_matching today):
    by role -- the static callee of repair_step that calls blockcmp() -- so a rename does not lose the anchor"""
    rs = P.fn('repair_step')
    c_ = set()
    for c in rs.calls():
        g = P.functions.get(c.callee_full) if c.callee_full else None
        if g is not None and not g.decl and any(True for _ in g.calls('blockcmp')):
            c_.add(base(g.name))
    if len(c_) != 1:
        raise AnalysisBroken('repair_step: the callee that validates a recovery through the block hashes was not identified (%s)' % sorted(c_))
    return list(c_)[0]


def chg_judgement_fn(P):
    """the function holding the loop that judges rebuilt CHG blocks: repair(), or a static helper split out of it"""
    def pred(g):
        return any(g.loop_of(c.block) is not None and any(i.op == 'call' and i.callee == 'block_state_get' and i.block in g.loops[g.loop_of(c.block)] for i in g.all_insts()) for c in g.calls('blockcmp'))
    f = locate_in_helpers(P, P.fn('repair'), pred)
    if f is None:
        raise AnalysisBroken('repair: the loop that judges the rebuilt CHG blocks was not found (neither inline nor in a static helper)')
    return f


def buffer_slot_rule(P, rep, rid):
    """the repair functions receive the stripe buffers indexed by disk slot and the failed blocks as a list; the j-th failed entry is
    the block of slot failed[j].index.  Every access to buffer[] in them must go through that slot number (or address the parity area
    diskmax + level): indexing buffer[] with the position in the failed list reads another disk's block whenever the two differ --
    e.g. the "recovered block is all zero, maybe it is the old content" test then looks at good data of disk 0 and accepts the zeros"""
    rep.rule(rid, 'repair / repair_step / is_hash_matching: buffer[] is indexed by failed[..].index or diskmax + parity index, never by the bare position in the failed list', 2)
    n = 0
    # which parameter is the number of data disks (the base of the parity area)?  By role, not by name: in repair_step it is the
    # value handed to raid_data() / raid_gen() as nd; repair passes it down to repair_step, repair_step to is_hash_matching
    role = {}
    rs = P.fn('repair_step')
    ks = set()
    for c in rs.calls({'raid_data', 'raid_gen'}):
        o = c.ops[3] if c.callee == 'raid_data' else c.ops[0]
        ks |= {x[1] for x in rs.value_sources(o) if x[0] == 'arg'}
    if len(ks) == 1:
        k = list(ks)[0]
        role['repair_step'] = [k]
        rp = P.fn('repair')
        ms = set()
        for c in rp.calls('repair_step'):
            ms |= {x[1] for x in rp.value_sources(c.ops[k]) if x[0] == 'arg'}
        if len(ms) == 1:
            role['repair'] = list(ms)
        for c in rs.calls():
            g_ = P.functions.get(c.callee_full) if c.callee_full else None
            if g_ is not None and not g_.decl and base(g_.name) not in role:
                ps = [q for q, o in enumerate(c.ops[:len(g_.args)]) if any(x == ('arg', k) for x in rs.value_sources(o))]
                if len(ps) == 1:
                    role[base(g_.name)] = ps
    hm = [x for x in role if x not in ('repair', 'repair_step')]
    for fn in ['repair', 'repair_step', hash_matching_fn(P)]:
        f = P.fn(fn)
        rep.analysed(f)
        seen = {}
        pn = role.get(fn) or [k_ for k_, a in enumerate(f.args) if a.get('name') == 'diskmax']
        if not pn:
            raise AnalysisBroken('%s: the parameter holding the number of data disks was not identified' % fn)
        for i in f.all_insts():
            if i.op != 'getelementptr' or len(i.ops) != 2:
                continue
            e = f.expr(['i', i.id])
            if not e.startswith('&buffer['):
                continue
            src = f.value_sources(i.ops[1])
            slot = any(x[0] == 'mem' and x[1].endswith('.index') for x in src)
            par = any(x[0] == 'arg' and x[1] in pn for x in src)
            key = (e, slot or par)
            if key in seen:
                continue
            seen[key] = 1
            n += 1
            rep.check(slot or par, rid, '%s: %s' % (fn, e.lstrip('&')), i.loc(),
                      'through %s' % ('failed[].index' if slot else 'diskmax + level') if slot or par else 'the index derives only from %s: the position in the failed list is used as a disk slot, another disk\'s block is examined whenever the failed block is not on the first slots' % sorted(str(x) for x in src),
                      function=fn, construct='buffer index')
    if n < 2:
        raise AnalysisBroken('repair: buffer[] accesses not recognised (%d)' % n)


def chg_decision_table(P):
    """finite-domain interpretation (E10) of the part of repair() that judges a rebuilt CHG block: the loop over failed[] is run for one
    entry with the hash size, the bytes of the past hash, "the rebuilt block is all zeros" and the verdict of blockcmp() as inputs.
    Returns {(size, kind, zeros, differs): (is_outofdate, blockcmp_called)}; kinds: INVALID (all 00), ZERO (all FF), REAL."""
    from .. import region as RG
    from .C06 import blk_value
    f = chg_judgement_fn(P)
    st = blk_value(P)
    bcs = [c for c in f.calls('blockcmp')]
    lps = {f.loop_of(c.block) for c in bcs if f.loop_of(c.block) is not None}
    # the loop over the failed entries that holds the CHG judgement: the one whose body tests the block state
    cand = [h for h in lps if any(i.op == 'call' and i.callee == 'block_state_get' and i.block in f.loops[h] for i in f.all_insts())]
    if len(cand) != 1:
        raise AnalysisBroken('repair: the loop that judges the rebuilt CHG blocks was not found (%d candidates)' % len(cand))
    h = cand[0]
    fs = P.distructs.get('failed_struct'); bl = P.distructs.get('snapraid_block')
    if not fs or not bl:
        raise AnalysisBroken('layouts of failed_struct / snapraid_block not found')
    fo = {m['name']: m['off'] for m in fs['members']}; bo = {m['name']: m['off'] for m in bl['members']}
    for k in ('is_bad', 'is_outofdate', 'block', 'index', 'file', 'file_pos'):
        if k not in fo:
            raise AnalysisBroken('failed_struct.%s not found' % k)
    table = {}
    for size in (16, 8, 2):
        for kind in ('INVALID', 'ZERO', 'REAL'):
            for zeros in (0, 1):
                for differs in (0, 1):
                    called = [0]
                    def ext(ins, args):
                        c = ins.callee
                        if c == 'blockcmp':
                            called[0] += 1
                            return (1 if differs else 0,)
                        if c == 'memcmp':
                            return (0 if zeros else 1,)
                        if c in ('log_tag', 'log_fatal', 'log_error', 'msg_progress'):
                            return (0,)
                        if c in ('file_block_size', 'llvm.objectsize.i64.p0i8'):
                            return (1024,)
                        if c in ('__assert_fail',):
                            raise AnalysisBroken('repair: the CHG judgement asserts on a CHG block')
                        return None
                    R = RG.Region(P, extern=ext)
                    R.discover = []
                    fp = RG.P_(('obj', 'failed'), 0); bp = RG.P_(('obj', 'blk'), 0); sp = RG.P_(('obj', 'state'), 0)
                    R.zero_regions.add(sp.reg); R.zero_regions.add(('obj', 'file'))
                    R.mem[(fp.reg, fo['is_bad'])] = 1; R.mem[(fp.reg, fo['is_outofdate'])] = 0; R.mem[(fp.reg, fo['index'])] = 0
                    R.mem[(fp.reg, fo['block'])] = bp; R.mem[(fp.reg, fo['file'])] = RG.P_(('obj', 'file'), 0); R.mem[(fp.reg, fo['file_pos'])] = 0
                    R.mem[(bp.reg, bo['state'])] = st['CHG']
                    byte = {'INVALID': 0x00, 'ZERO': 0xFF}.get(kind)
                    for k_ in range(16):
                        R.mem[(bp.reg, bo['hash'] + k_)] = byte if byte is not None else (0x11 + 7 * k_) & 0xff
                    R.mem[(('glob', 'BLOCK_HASH_SIZE'), 0)] = size
                    R.set_local(f, 'failed', fp); R.set_local(f, 'failed_count', 1); R.set_local(f, 'state', sp); R.set_local(f, 'rehash', 0)
                    R.set_local(f, 'buffer', R.array('buffer', [RG.P_(('obj', 'buf0'), 0)], 8)); R.set_local(f, 'buffer_zero', RG.P_(('obj', 'zero'), 0))
                    jj = [i for i in f.all_insts() if i.op == 'alloca' and (i.var or '') == 'j']
                    if len(jj) != 1:
                        raise AnalysisBroken('repair: loop counter not identified')
                    R.mem[(R.local_by_id(f, jj[0].id).reg, 0)] = 0
                    body = f.loops[h]
                    try:
                        R.run(f, h, stop=lambda ins: f.insts.get(ins.id) is ins and ins.block not in body and ins.block != h)
                    except RG.Stop:
                        pass
                    except RG.Unsupported as e:
                        raise AnalysisBroken('cannot interpret the CHG judgement of repair: %s' % e)
                    table[(size, kind, zeros, differs)] = (R.mem.get((fp.reg, fo['is_outofdate'])), called[0])
    return table


def chg_decision_rules(P, rep, rid_safe=None, rid_size=None):
    """(safety, C05) a marker never validates rebuilt data: a lost past hash (INVALID) always gives out-of-date, the ZERO marker gives
    out-of-date when the rebuilt block is all zeros, neither is handed to blockcmp -- for EVERY hash size (the library predicates
    hash_is_invalid / hash_is_zero answer 0 for reduced sizes); a real past hash gives out-of-date exactly when it matches, or always.
    (size independence, C16) the judgement does not depend on the hash size: an array written with hashsize 8 by the reference
    version is repaired like one with hashsize 16."""
    f = P.fn('repair')
    rep.analysed(f)
    t = chg_decision_table(P)
    if rid_safe:
        rep.rule(rid_safe, 'repair, judgement of a rebuilt CHG block interpreted for hash sizes 16 / 8 / 2: INVALID -> out of date; ZERO -> out of date when the rebuilt block is zero; markers never reach blockcmp; a real past hash -> out of date iff it matches (or always)', 30)
        for (size, kind, zeros, differs), (ood, called) in sorted(t.items()):
            if kind == 'INVALID':
                ok = ood == 1 and not called
                why = 'a lost past hash (all 00) must give out-of-date without any comparison'
            elif kind == 'ZERO':
                ok = not called and (ood == 1 or not zeros)
                why = 'the ZERO marker (all FF) is not a hash: no comparison, and a rebuilt block of zeros is possibly the old content'
            else:
                ok = (ood == (1 if not differs else 0)) if called else ood == 1
                why = 'a real past hash that matches the rebuilt block means possibly old data'
            rep.check(ok, rid_safe, 'hashsize %d, past hash %s, rebuilt block %s, blockcmp %s' % (size, kind, 'zero' if zeros else 'not zero', 'differs' if differs else 'matches'), f.file,
                      'out-of-date=%s, compared=%s' % (ood, bool(called)) if ok else 'out-of-date=%s, compared=%s: %s -- with this hash size the rebuilt bytes (zeros, or the previous occupant of the position) are written back and reported recovered' % (ood, bool(called), why),
                      function='repair', construct='marker tests blind for reduced hash' if size != 16 else 'CHG judgement')
    if rid_size:
        rep.rule(rid_size, 'repair: the judgement of a rebuilt CHG block is the same for every hash size (reduced hash arrays are repaired like full hash ones)', 24)
        for (size, kind, zeros, differs), (ood, called) in sorted(t.items()):
            if size == 16:
                continue
            ref = t[(16, kind, zeros, differs)]
            ok = ood == ref[0]
            rep.check(ok, rid_size, 'hashsize %d vs 16: past hash %s, rebuilt block %s, blockcmp %s' % (size, kind, 'zero' if zeros else 'not zero', 'differs' if differs else 'matches'), f.file,
                      'same judgement' if ok else 'out-of-date=%s (compared=%s) with hashsize %d, %s (compared=%s) with 16: a block that was correctly rebuilt from a fully updated parity is declared out of date only because the array uses a reduced hash -- after an interrupted sync every added or changed file of a lost disk comes back as .unrecoverable, while the reference version rebuilt them' % (ood, bool(called), size, ref[0], bool(ref[1])),
                      function='repair', construct='CHG judgement depends on the hash size')


def blockcmp_size_rule(P, rep, rid):
    """blockcmp() hashes `pos_size` bytes of the rebuilt block and compares with the recorded hash; recorded hashes are always taken
    over the valid length of the block in its file (file_block_size: shorter for the last block).  A comparison over any other
    length never matches for a partial block: a matching OLD block is then taken for new data and written back as recovered."""
    rep.rule(rid, 'check.c: the length handed to blockcmp() is the result of file_block_size() for the entry being judged', 2)
    n = 0
    for fn in sorted({base(chg_judgement_fn(P).name), hash_matching_fn(P)}):
        f = P.fn(fn)
        rep.analysed(f)
        for c in f.calls('blockcmp'):
            n += 1
            src = f.value_sources(c.ops[3])
            ok = bool(src) and all(x == ('call', 'file_block_size') for x in src)
            rep.check(ok, rid, '%s: length of the compared block' % fn, c.loc(), 'file_block_size()' if ok else 'the length is %s, not the valid length of the block in its file: for the last, partial block of a file the hash of data + padding never equals the recorded hash, so a rebuilt block that IS the old content is judged "differs -> new data" and reported recovered' % f.xexpr(c.ops[3])[:60],
                      function=fn, construct='blockcmp length')
    if n < 2:
        raise AnalysisBroken('blockcmp call sites not found (%d)' % n)


def failed_index_vectors_rule(P, rep, rid):
    """repair_step() copies the indexes of the failed blocks of the stripe into `int id[LEV_MAX]` and the parities to use into
    `int ip[LEV_MAX]`.  The number of failed blocks is whatever the stripe has -- 36 when a controller with 36 disks is not
    mounted -- not at most the number of parities.  The function is interpreted (E10, local arrays bounded by their declared
    length) up to its first recovery attempt for every count of failed blocks 1..10 and every level 1..6: no store outside a local
    array.  (With more failures than parities the answer must be `no strategy`, not a smashed stack.)"""
    from .. import region as RG
    rep.rule(rid, 'repair_step: for 1..10 failed blocks and 1..6 parity levels no index vector (id[], ip[]) is written outside its declared length before the first recovery attempt', 60)
    f = P.fn('repair_step')
    rep.analysed(f)
    fs = P.distructs.get('failed_struct'); bl = P.distructs.get('snapraid_block'); sl = P.distructs.get('snapraid_state')
    if not fs or not bl or not sl:
        raise AnalysisBroken('layouts of failed_struct / snapraid_block / snapraid_state not found')
    fo = {m['name']: m['off'] for m in fs['members']}; bo = {m['name']: m['off'] for m in bl['members']}; so = {m['name']: m['off'] for m in sl['members']}
    from .C06 import blk_value
    st = blk_value(P)
    n = 0
    for level in range(1, 7):
        for cnt in range(1, 11):
            class _Attempt(Exception):
                pass
            def ext(ins, args):
                c = ins.callee
                if c in ('log_tag', 'log_fatal', 'log_error'):
                    return (0,)
                if c in ('raid_gen', 'raid_data', 'raid_rec', 'memcpy', 'llvm.memcpy.p0i8.p0i8.i64', 'is_parity_matching', 'is_hash_matching'):
                    raise _Attempt()
                return None
            R = RG.Region(P, extern=ext)
            R.discover = []
            fp = RG.P_(('obj', 'failed'), 0); sp = RG.P_(('obj', 'state'), 0)
            R.zero_regions.add(sp.reg)
            R.mem[(sp.reg, so['level'])] = level
            for k in range(cnt):
                b = k * fs['size']
                bp = RG.P_(('obj', 'blk%d' % k), 0)
                R.mem[(bp.reg, bo['state'])] = st['BLK']
                R.mem[(fp.reg, b + fo['is_bad'])] = 1; R.mem[(fp.reg, b + fo['is_outofdate'])] = 0
                R.mem[(fp.reg, b + fo['index'])] = k; R.mem[(fp.reg, b + fo['block'])] = bp
            fmap = R.array('failed_map', list(range(cnt)), 4)
            recov = R.array('buffer_recov', [RG.P_(('obj', 'par%d' % k), 0) for k in range(6)], 8)
            buf = R.array('buffer', [RG.P_(('obj', 'buf%d' % k), 0) for k in range(32)], 8)
            n += 1
            bad = None
            try:
                R.run(f, 0, [sp, 0, 0, 16, fp, fmap, cnt, buf, recov, RG.P_(('obj', 'zero'), 0)])
            except _Attempt:
                pass
            except RG.OutOfBounds as e:
                bad = str(e)
            except RG.Unsupported as e:
                raise AnalysisBroken('cannot interpret repair_step: %s' % e)
            rep.check(bad is None, rid, '%d failed blocks, %d parity levels' % (cnt, level), f.file,
                      'index vectors stay within their length' if bad is None else bad + ': a stripe with more failed blocks than the vector has entries (a shelf of disks not mounted) overwrites the stack of check / fix -- a hardened build dies with `stack smashing detected` instead of listing the files as unrecoverable',
                      function='repair_step', construct='index vector overflow')


def old_state_strategy_rule(P, rep, rid):
    """second strategy of repair(): the parity is assumed to describe the array BEFORE the interrupted sync.  Every block that changed
    since (CHG, REP, DELETED) has unknown old content and costs one parity to reconstruct -- except a CHG block whose past hash is
    the ZERO marker: the position was empty, its old content is known to be zero, it is zero-filled and costs nothing.  That is
    what keeps the files synced before an adds-only sync recoverable from as many lost disks as there are parities.  The
    classification loop is interpreted (E10) for one entry over state x is_bad x past hash kind."""
    from .. import region as RG
    from .C06 import blk_value
    rep.rule(rid, 'repair, old-state strategy: a CHG block with the ZERO past hash is zero-filled and not counted among the blocks to reconstruct, whether or not it is readable; a readable BLK block is not counted; every other changed block is counted or fetched -- for hash sizes 16, 8 and 2', 30)
    f = P.fn('repair')
    rep.analysed(f)
    st = dict(blk_value(P))
    rd = P.fn('state_read_content')
    dele = [rd.const_of(c.ops[1]) for c in rd.calls('block_state_set') if rd.const_of(c.ops[1]) not in st.values()]
    if len(set(dele)) != 1:
        raise AnalysisBroken('DELETED state constant not recovered')
    st['DELETED'] = dele[0]
    # the loop of the second strategy: the loop over failed[] that stores into failed_map[]
    cands = []
    for h, body in f.loops.items():
        if any(i.op == 'store' and 'failed_map[' in f.expr(i.ops[1]) and i.block in body for i in f.all_insts()) and any(c.block in body for c in f.calls('block_state_get')) \
                and any((c.callee or '').startswith('llvm.memset') and c.block in body for c in f.calls()):
            cands.append(h)
    if len(cands) != 1:
        raise AnalysisBroken('repair: the classification loop of the old-state strategy was not found (%d candidates)' % len(cands))
    h = cands[0]
    body = f.loops[h]
    fs = P.distructs.get('failed_struct'); bl = P.distructs.get('snapraid_block')
    fo = {m['name']: m['off'] for m in fs['members']}; bo = {m['name']: m['off'] for m in bl['members']}
    nn = [i for i in f.all_insts() if i.op == 'alloca' and (i.var or '') == 'n']
    jj = [i for i in f.all_insts() if i.op == 'alloca' and (i.var or '') == 'j']
    if len(nn) != 1 or len(jj) != 1:
        raise AnalysisBroken('repair: locals n / j not identified')
    for hsize in (16, 8, 2):
        for state_name in ('BLK', 'CHG', 'REP', 'DELETED'):
            for is_bad in (0, 1):
                for kind in (('ZERO', 'REAL') if state_name in ('CHG',) else ('REAL',)):
                    zeroed = [0]; fetched = [0]
                    def ext(ins, args):
                        c = ins.callee or ''
                        if c.startswith('llvm.memset'):
                            zeroed[0] += 1
                            return (0,)
                        if c == 'state_import_fetch':
                            fetched[0] += 1
                            return (1,)          # not found
                        if c in ('log_tag', 'log_fatal', '__assert_fail'):
                            return (0,)
                        return None
                    R = RG.Region(P, extern=ext)
                    R.discover = []
                    fp = RG.P_(('obj', 'failed'), 0); bp = RG.P_(('obj', 'blk'), 0); sp = RG.P_(('obj', 'state'), 0)
                    R.zero_regions.add(sp.reg)
                    R.mem[(fp.reg, fo['is_bad'])] = is_bad; R.mem[(fp.reg, fo['is_outofdate'])] = 0; R.mem[(fp.reg, fo['index'])] = 0; R.mem[(fp.reg, fo['block'])] = bp
                    R.mem[(bp.reg, bo['state'])] = st[state_name]
                    for k_ in range(16):
                        R.mem[(bp.reg, bo['hash'] + k_)] = 0xFF if kind == 'ZERO' else (0x21 + 5 * k_) & 0xff
                    R.mem[(('glob', 'BLOCK_HASH_SIZE'), 0)] = hsize
                    R.set_local(f, 'failed', fp); R.set_local(f, 'failed_count', 1); R.set_local(f, 'state', sp); R.set_local(f, 'rehash', 0)
                    R.set_local(f, 'buffer', R.array('buffer', [RG.P_(('obj', 'buf0'), 0)], 8))
                    R.set_local(f, 'failed_map', R.array('failed_map', [99, 99], 4))
                    R.mem[(R.local_by_id(f, nn[0].id).reg, 0)] = 0
                    R.mem[(R.local_by_id(f, jj[0].id).reg, 0)] = 0
                    try:
                        R.run(f, h, stop=lambda ins: f.insts.get(ins.id) is ins and ins.block not in body and ins.block != h)
                    except RG.Stop:
                        pass
                    except RG.Unsupported as e:
                        raise AnalysisBroken('cannot interpret the old-state strategy of repair: %s' % e)
                    n_ = R.mem[(R.local_by_id(f, nn[0].id).reg, 0)]
                    if state_name == 'CHG' and kind == 'ZERO':
                        ok = n_ == 0
                        why = 'its old content is known to be zero: it must be zero-filled and cost no parity; counted as one more block to reconstruct, an adds-only interrupted sync leaves the files synced before recoverable from one device less than there are parities'
                    elif state_name == 'BLK':
                        ok = n_ == is_bad
                        why = 'a synced block is reconstructed iff it is bad'
                    else:
                        ok = n_ == 1
                        why = 'a changed block with unknown old content has to be reconstructed (or fetched)'
                    rep.check(ok, rid, 'hashsize %d: %s block, %s, past hash %s' % (hsize, state_name, 'bad' if is_bad else 'readable', kind), f.file,
                              'counted among the blocks to reconstruct: %d' % n_ if ok else 'counted among the blocks to reconstruct: %d -- %s' % (n_, why) + (' (hash_is_zero() answers 0 for every reduced hash: with hashsize < 16 the marker is not recognised)' if hsize != 16 else ''), function='repair', construct='old-state classification' if hsize == 16 else 'old-state classification blind for reduced hash')


def whole_file_processed_rule(P, rep, rid):
    """file_post() gives the verdict of a file (recovered: report + recorded time-stamp restored; unrecoverable: renamed) when the LAST
    block of the file is processed.  The verdict is about the whole file only if its FIRST block was inside the processed range too:
    `fix -S n` starting inside a lost file rebuilds the blocks from n on, leaves zeros before them, and -- without a test of the
    range start -- reports the file recovered and gives it the recorded time-stamp, so that diff and sync see it as unchanged.  Rule:
    the range start of state_check_process reaches file_post, and the time-stamp restoration there is guarded by a test that
    involves it."""
    from ..guards import guards_of
    rep.rule(rid, 'file_post: the verdict of a file (time-stamp restored, `recovered`) is given only if the start of the processed range is not after the first block of the file', 1)
    sc = P.fn('state_check_process')
    fp = P.fn('file_post')
    rep.analysed(sc, fp)
    calls = [c for c in sc.calls('file_post')]
    if not calls:
        raise AnalysisBroken('state_check_process no longer calls file_post')
    # the range start: the parameter of state_check_process that initialises the stripe counter (named blockstart in the reference)
    # by role: the parameter stored into the counter of the loop that holds the file_post call, before that loop
    m = []
    lp = sc.loop_of(calls[0].block)
    outer = [h_ for h_, b_ in sc.loops.items() if calls[0].block in b_]
    top = max(outer, key=lambda h_: len(sc.loops[h_])) if outer else None
    if top is not None:
        t_ = sc.term(top)
        ci_ = sc.inst_of(t_.ops[0]) if t_.op == 'br' and len(t_.ops) == 3 else None
        li_ = sc.inst_of(ci_.ops[0]) if ci_ is not None and ci_.op == 'icmp' else None
        ca_ = sc.strip(li_.ops[0]) if li_ is not None and li_.op == 'load' else None
        if ca_ is not None and ca_[0] == 'i':
            for u in sc.users.get(ca_[1], ()):
                if u.op == 'store' and sc.strip(u.ops[1]) == ca_ and u.block not in sc.loops[top]:
                    m += [x[1] for x in sc.value_sources(u.ops[0]) if x[0] == 'arg']
    m = sorted(set(m)) or [k for k, a in enumerate(sc.args) if a.get('name') == 'blockstart']
    if len(m) != 1:
        raise AnalysisBroken('state_check_process: the range start parameter was not identified (%s)' % m)
    ks = [k for k, o in enumerate(calls[0].ops[:len(fp.args)]) if sc.value_sources(o) == {('arg', m[0])}] or \
         [k for k, o in enumerate(calls[0].ops[:len(fp.args)]) if any(x == ('arg', m[0]) for x in sc.value_sources(o))]
    ut = list(fp.calls('handle_utime'))
    if not ut:
        raise AnalysisBroken('file_post: handle_utime not found')
    ok = False
    det = 'file_post is not given the start of the range'
    if ks:
        # the name under which expressions show the parameter: the (reference-mapped) name of its spill slot
        nm = ''
        for aid_, ak_ in fp.arg_allocas().items():
            if ak_ == ks[0]:
                nm = fp.insts[aid_].var or ''
        nm = nm or fp.args[ks[0]].get('name') or ''
        gs = guards_of(fp, ut[0], expand=True)
        ok = bool(nm) and any(re.search(r'\b%s\b' % re.escape(nm), a) for a, p_ in gs)
        det = 'guards of the time-stamp restoration: %s' % [a[:50] for a, p_ in gs if nm and nm in a] if ok else 'file_post receives the range start (%s) but the verdict does not depend on it' % nm
    rep.check(ok, rid, 'file_post: verdict only for files whose first block is inside the range', ut[0].loc(),
              det if ok else det + ': `fix -S n` with n inside a lost file leaves zeros in the blocks before n, reports the file recovered and restores the recorded time-stamp -- diff says `No differences`, sync `Nothing to do`',
              function='file_post', construct='verdict for a partially processed file')


def state_case_entries(f, k):
    """blocks of `f` entered exactly when the state obtained from block_state_get() equals the constant k: the destinations of a
    `switch` case, or the equal side of an == / != comparison -- so a switch and an if / else-if chain are read alike"""
    out = []
    def is_state(o):
        src = f.value_sources(o)
        return bool(src) and all(x == ('call', 'block_state_get') for x in src)
    for b in range(len(f.blocks)):
        t = f.term(b)
        if t.op == 'switch' and is_state(t.ops[0]):
            out += [cb for cv, cb in t.cases if cv == k]
        elif t.op == 'br' and len(t.ops) == 3:
            ci = f.inst_of(t.ops[0])
            if ci is not None and ci.op == 'icmp' and ci.pred in ('eq', 'ne') and f.const_of(ci.ops[1]) == k and is_state(ci.ops[0]):
                out.append(t.ops[2][1] if ci.pred == 'eq' else t.ops[1][1])
    return list(dict.fromkeys(out))


def deleted_forgotten_rule(P, rep, rid):
    """scan gives the block of a new file the ZERO past hash when it lands on an EMPTY position ("the parity holds zeros there"), and
    repair() trusts that: a rebuilt block that is not all zeros is taken for the new data.  A position becomes EMPTY again when the
    save drops its DELETED blocks (fs_position_clear_deleted) -- done for every position without a file, although sync never
    recomputes the parity of a stripe that has no file: the parity there still holds the deleted data.  Necessary condition decided
    here: DELETED blocks are dropped at save only under evidence that the parity of the position was rewritten (any guard beyond
    "no file uses this position")."""
    from ..guards import guards_of
    f = P.fn('state_write_content')
    rep.analysed(f)
    rep.rule(rid, 'state_write_content: DELETED blocks are forgotten (fs_position_clear_deleted) only for positions whose parity was rewritten, not merely because no file uses the position', 1)
    cs = list(f.calls('fs_position_clear_deleted'))
    if not cs:
        rep.check(True, rid, 'state_write_content keeps DELETED blocks', f.file, 'no fs_position_clear_deleted on the save path', function='state_write_content', construct='deleted blocks forgotten')
        return
    for c in cs:
        h_ = f.loop_of(c.block)
        bound = f.xexpr(f.term(h_).ops[0]) if h_ is not None and f.term(h_).op == 'br' and len(f.term(h_).ops) == 3 else None
        gs = [(a, p) for a, p in guards_of(f, c, expand=True) if a != bound]
        only_unused = bool(gs) and all('fs_position_is_required' in a for a, p in gs)
        rep.check(not only_unused, rid, 'state_write_content: fs_position_clear_deleted at line %s' % c.line, c.loc(),
                  'guards: %s' % gs if not only_unused else 'guarded only by %s: the DELETED blocks of a stripe that holds no file are dropped although sync never recomputed its parity; the next file placed there is recorded with the ZERO past hash, and when it is lost before being synced fix "recovers" it with the bytes of the deleted file (exit 0)' % [a for a, p in gs],
                  function='state_write_content', construct='deleted blocks forgotten')
