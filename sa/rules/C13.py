"""C13 — results do not depend on thread scheduling (lock discipline only; the hand-over protocol is NOT explored)."""
import re
from ..lockset import LockState, LOCK, UNLOCK, SIGNAL_UNLOCK, WAIT, SIGNALS, mutex_of
from ..frontend import AnalysisBroken
from ..ir import base
from . import C04

# fields of the io ring shared between the control thread and the workers (confirmed by reading io.c / io.h)
PROTECTED = ('io->done', 'io->reader_index', 'io->writer_index', 'worker->index', 'io->writer_error[')
THREAD_FUNCS = ['io_reader_step', 'io_writer_step', 'io_read_next_thread', 'io_write_next_thread', 'io_refresh_thread', 'io_task_read_thread', 'io_parity_write_thread']
# field -> condition variable that must be signalled/broadcast before the mutex is released after a store
SIGNAL_AFTER = {'io->reader_index': 'io->read_sched', 'io->writer_index': 'io->write_sched'}


def accesses(f):
    res = []
    for i in f.all_insts():
        if i.op in ('load', 'store'):
            e = f.expr(i.ops[0] if i.op == 'load' else i.ops[1]).lstrip('&')
            for p in PROTECTED:
                if e == p or (p.endswith('[') and e.startswith(p)):
                    res.append((i, p.rstrip('[')))
    return res


def run(ctx, rep):
    P = ctx.prog
    rep.explanation = ('Necessary lock discipline of the io ring and of the per-disk extent maps: balanced lock/unlock on all paths, every access to the shared ring fields with io_mutex definitely held '
                       '(or before thread creation / after join), every condition wait inside a re-checking loop with the mutex held, stores to the ring indices followed by the matching broadcast before release, '
                       'extent trees touched only under fs_lock or from *_unlock helpers called under it, the failed list sorted before decoding, mono/thread slot implementations agreeing on their out-parameters. '
                       'Buffer ownership, exactly-once processing and termination are protocol properties (model checking family) and are NOT decided.')
    rep.rule('R-C13-1', 'io ring: every access to done/reader_index/writer_index/worker.index/writer_error[] happens with io_mutex held; lock/unlock balanced at every return', 30)
    rep.rule('R-C13-1s', 'io_start_thread touches ring fields only before the first thread_create; io_stop_thread sets done under the mutex and joins every worker', 3)
    rep.rule('R-C13-2', 'every thread_cond_wait is inside a loop and called with the mutex held', 4)
    rep.rule('R-C13-3', 'stores to reader_index / writer_index / done are followed, before the mutex is released, by a broadcast of the scheduling condition; worker index advance signals the done condition', 4)
    rep.rule('R-C13-4', 'extent trees and fs_last are accessed only under fs_lock (or in *_unlock helpers reached only from locked regions)', 10)
    rep.rule('R-C13-5', 'the failed list is sorted by disk index before the decoder is called', 1)
    rep.rule('R-C13-6', 'wrappers: *_and_unlock release the mutex on every path; mono and thread implementations of a slot write the same out-parameters', 4)

    MX = '&io->io_mutex'
    for fname in THREAD_FUNCS:
        f = P.fn(fname)
        rep.analysed(f)
        ls = LockState(f, MX)
        for r in f.returns():
            h = ls.at(r)
            rep.check(h == {0}, 'R-C13-1', '%s: io_mutex released at return' % fname, r.loc(), 'held values at return: %s' % sorted(h), function=fname, construct='balanced')
        for ins, fld in accesses(f):
            h = ls.at(ins)
            rep.check(h == {1}, 'R-C13-1', '%s: %s %s under io_mutex' % (fname, ins.op, fld), ins.loc(), 'held values: %s' % sorted(h), function=fname, construct='%s %s unprotected' % (ins.op, fld) if h != {1} else 'access')
        for w in f.calls(WAIT):
            h = ls.at(w)
            inloop = f.loop_of(w.block) is not None
            rep.check(h == {1} and inloop and f.expr(w.ops[1]) == MX, 'R-C13-2', '%s: thread_cond_wait(%s)' % (fname, f.expr(w.ops[0])), w.loc(), 'in loop: %s, mutex held: %s' % (inloop, sorted(h)), function=fname, construct='wait discipline')
        # signal after update
        for ins, fld in accesses(f):
            if ins.op != 'store' or fld not in SIGNAL_AFTER:
                continue
            cv = '&' + SIGNAL_AFTER[fld]
            sigs = [c for c in f.calls(SIGNALS) if f.expr(c.ops[0]) == cv]
            rel = [c for c in f.calls(UNLOCK | SIGNAL_UNLOCK) if mutex_of(f, c) == MX and c not in sigs]
            r_ = f.reach([ins], stop={c.id for c in sigs})
            esc = [c for c in rel if c.id in r_] + [r for r in f.returns() if r.id in r_]
            rep.check(not esc and bool(sigs), 'R-C13-3', '%s: store to %s followed by broadcast/signal of %s before release' % (fname, fld, SIGNAL_AFTER[fld]), ins.loc(), '', function=fname, construct='signal after %s' % fld)
    # worker index advance -> done signal
    for fname, cv in (('io_reader_step', '&io->read_done'), ('io_writer_step', '&io->write_done')):
        f = P.fn(fname)
        st = [i for i, fld in accesses(f) if i.op == 'store' and fld == 'worker->index']
        sig = [c for c in f.calls(SIGNALS) if f.expr(c.ops[0]) == cv]
        ok = len(st) == 1 and len(sig) == 1 and f.dominates(st[0], sig[0])
        if ok:
            from ..guards import guards_of
            gs = guards_of(f, sig[0])
            ok = any('done_index' in a and 'waiting_index' in a and p for a, p in gs)
        rep.check(ok, 'R-C13-3', '%s: advancing worker->index signals %s when the finished index is the awaited one' % (fname, cv[1:]), f.file, '', function=fname, construct='done signal')
    # start / stop
    f = P.fn('io_start_thread')
    rep.analysed(f)
    tcs = list(f.calls('thread_create'))
    okst = bool(tcs)
    for ins, fld in accesses(f):
        if fld == 'worker->index':
            okst = okst and any(ins.block == t.block and ins.idx < t.idx for t in tcs)
        else:
            okst = okst and not any(ins.id in f.reach([t]) for t in tcs)
    rep.check(okst, 'R-C13-1s', 'io_start_thread: ring fields initialised before any worker exists; worker->index set right before its thread_create', f.file, '%d thread_create sites' % len(tcs), function='io_start_thread', construct='init before create')
    f = P.fn('io_stop_thread')
    rep.analysed(f)
    ls = LockState(f, MX)
    dn = [i for i, fld in accesses(f) if i.op == 'store' and fld == 'io->done']
    bc = [c for c in f.calls(SIGNALS)]
    ok = len(dn) == 1 and ls.at(dn[0]) == {1} and {f.expr(c.ops[0]) for c in bc} == {'&io->read_sched', '&io->write_sched'} and all(ls.at(c) == {1} and f.dominates(dn[0], c) for c in bc)
    rep.check(ok, 'R-C13-1s', 'io_stop_thread: done=1 and both scheduling broadcasts under the mutex', f.file, '', function='io_stop_thread', construct='stop protocol')
    joins = list(f.calls('thread_join'))
    ok = len(joins) == 2 and all(f.loop_of(j.block) is not None for j in joins) and all(ls.at(j) == {0} for j in joins)
    if ok:
        bounds = sorted(f.expr(f.term(f.loop_of(j.block)).ops[0]) for j in joins)
        ok = any('reader_max' in b for b in bounds) and any('writer_max' in b for b in bounds)
    rep.check(ok, 'R-C13-1s', 'io_stop_thread: joins every reader and every writer, outside the mutex', f.file, '', function='io_stop_thread', construct='join all')

    # ---- R-C13-4 extent maps
    locked_fns = set()
    tree_re = re.compile(r'(disk->fs_parity|disk->fs_file|disk->fs_last)')
    helpers = set()
    cands = [f for f in P.defined() if (f.file or '').endswith('elem.c')]
    for f in cands:
        touches = []
        for i in f.all_insts():
            if i.op in ('load', 'store', 'getelementptr') or (i.op == 'call' and not i.asm):
                e = f.expr(['i', i.id]) if i.op != 'store' else f.expr(i.ops[1])
                if tree_re.search(e) and i.op in ('call', 'load', 'store'):
                    touches.append(i)
        if not touches:
            continue
        if base(f.name).endswith('_unlock') or base(f.name) in ('disk_alloc', 'disk_free', 'fs_init', 'fs_done'):
            helpers.add(base(f.name))
            continue
        ls = LockState(f, None, extra_lock={'fs_lock'}, extra_unlock={'fs_unlock'})
        rep.analysed(f)
        for i in touches:
            h = ls.at(i)
            rep.check(h == {1}, 'R-C13-4', '%s: access to the extent map under fs_lock' % base(f.name), i.loc(), f.expr(['i', i.id])[:60] if i.op != 'store' else f.expr(i.ops[1])[:60], function=base(f.name), construct='extent map access')
        for r in f.returns():
            rep.check(ls.at(r) == {0}, 'R-C13-4', '%s: fs_lock released at return' % base(f.name), r.loc(), '', function=base(f.name), construct='fs balanced')
    # *_unlock helpers are called (or passed as callbacks) only inside locked regions
    for f in cands:
        ls = None
        for c in f.calls():
            names = set()
            if c.callee and base(c.callee).endswith('_unlock') and base(c.callee) != 'fs_unlock' and base(c.callee).startswith(('fs_', 'extent_')):
                names.add(c.callee)
            for o in c.ops:
                o = f.strip(o)
                if o[0] == 'f' and base(o[1]).endswith('_unlock') and base(o[1]).startswith('extent_'):
                    names.add(o[1])
            if not names or base(f.name).endswith('_unlock'):
                continue
            if ls is None:
                ls = LockState(f, None, extra_lock={'fs_lock'}, extra_unlock={'fs_unlock'})
            rep.check(ls.at(c) == {1}, 'R-C13-4', '%s: %s used under fs_lock' % (base(f.name), sorted(names)[0]), c.loc(), '', function=base(f.name), construct='unlock helper outside lock')

    # ---- R-C13-5
    s = P.fn('state_sync_process')
    rec = list(s.calls('raid_rec'))
    qs = [c for c in s.calls('qsort') if 'failed' in s.expr(c.ops[0])]
    ok = len(rec) == 1 and len(qs) == 1 and s.dominates(qs[0], rec[0])
    if ok:
        # the comparator, whatever its name, orders the entries by their disk index: it compares the `index` member of both arguments
        co = s.strip(qs[0].ops[3])
        cf = P.functions.get(co[1]) if co[0] == 'f' else None
        ok = cf is not None and not cf.decl
        if ok:
            cmps = [i for i in cf.all_insts() if i.op == 'icmp' and cf.expr(i.ops[0]).endswith('->index') and cf.expr(i.ops[1]).endswith('->index')]
            ok = bool(cmps) and all(cf.expr(i.ops[0]).split('->')[0] != cf.expr(i.ops[1]).split('->')[0] for i in cmps)
    rep.check(ok, 'R-C13-5', 'state_sync_process: qsort of the failed list with a comparator on .index dominates raid_rec', rec[0].loc() if rec else s.file, '', function='state_sync_process', construct='sort before decode')

    # ---- R-C13-6
    for w in sorted(SIGNAL_UNLOCK):
        f = P.fn(w)
        rep.analysed(f)
        ul = list(f.calls('thread_mutex_unlock'))
        from ..flags import pinned_reach
        ok = len(ul) == 2
        for v in (0, 1):
            reach, _ = pinned_reach(f, {}, genv={'thread_cond_signal_outside': v})
            ok = ok and sum(1 for u in ul if u.id in reach) == 1 and all(r.id in reach for r in f.returns())
        # exactly one unlock on every path: the two unlock sites are under complementary guards
        rep.check(ok, 'R-C13-6', '%s releases the mutex on every path' % w, f.file, '%d unlock sites' % len(ul), function=w, construct='wrapper summary')
    wt = P.fn('io_writer_thread')
    rep.analysed(wt)
    stp = list(wt.calls('io_writer_step'))
    lst = [i for i in wt.all_insts() if i.op == 'store' and wt.expr(i.ops[1]) == '&latest_state' and wt.loop_of(i.block) is not None]
    rep.rule('R-C13-6w', 'the error state a writer reports is the state of the task it just ran (mono and thread modes count each failure once)', 1)
    rep.check(bool(stp) and bool(lst) and not any(c.id in wt.reach([c], stop={x.id for x in lst}) for c in stp), 'R-C13-6w', 'io_writer_thread: latest_state reassigned on every iteration', wt.file, '', function='io_writer_thread', construct='stale writer state')
    slots = P.slots()
    for slot in ('g:io_data_read', 'g:io_parity_write'):
        impls = sorted(slots.get(slot, ()))
        outs = {}
        for fn in impls:
            f = P.fn(fn)
            # follow a tail call to the shared implementation
            tgt = f
            cs = [c for c in f.calls() if c.callee and c.callee.startswith('io_task_read')]
            if cs:
                tgt = P.fn(cs[0].callee_full)
            w_ = set()
            for i in tgt.all_insts():
                if i.op == 'store':
                    e = tgt.expr(i.ops[1])
                    for p in ('pos', 'waiting_mac', 'waiting_map'):
                        if e == p or e.startswith('&waiting_map[') and p == 'waiting_map' or e == '*' + p:
                            w_.add(p)
            outs[fn] = w_
        vals = list(outs.values())
        rep.check(len(impls) == 2 and all(v == vals[0] for v in vals) and vals[0] >= {'pos', 'waiting_mac'}, 'R-C13-6', 'slot %s: implementations write the same out-parameters' % slot[2:], 'cmdline/io.c', str({k: sorted(v) for k, v in outs.items()}), function=slot[2:], construct='slot contract')

    # mono honours the skip argument of io_write_preset, the threaded ring the one of io_write_next: both must carry the same decision
    rep.rule('R-C13-7', 'io_write_preset (honoured by the single-thread engine) and io_write_next (honoured by the ring) receive the same position and the same skip decision, unchanged in between', 1)
    import re as _re
    n = 0
    for f in P.defined():
        pre = [c for c in f.calls() if c.indirect and 'io_write_preset' in f.expr(c.target)]
        nxt = [c for c in f.calls() if c.indirect and 'io_write_next' in f.expr(c.target)]
        if not pre and not nxt:
            continue
        n += 1
        rep.analysed(f)
        ok = len(pre) == 1 and len(nxt) == 1
        det = '%d preset / %d next calls' % (len(pre), len(nxt))
        if ok:
            a = [f.expr(o) for o in pre[0].ops[1:3]]; b = [f.expr(o) for o in nxt[0].ops[1:3]]
            ok = a == b
            det = 'preset(%s) / next(%s)' % (', '.join(a), ', '.join(b))
            if ok:
                names = set(_re.findall(r'[A-Za-z_][A-Za-z_0-9]*', ' '.join(a)))
                between = f.reach([pre[0]], stop={nxt[0].id})
                mods = [i for i in f.all_insts() if i.op == 'store' and i.id in between and f.expr(i.ops[1]).lstrip('&') in names and nxt[0].id in f.reach([i], stop={pre[0].id})]
                ok = not mods
                if mods:
                    det += '; %s is modified between the two calls at line %s' % (f.expr(mods[0].ops[1]).lstrip('&'), mods[0].line)
        rep.check(ok, 'R-C13-7', '%s: io_write_preset and io_write_next agree' % base(f.name), (pre or nxt)[0].loc(), det, function=base(f.name), construct='preset/next agreement')
    if n == 0:
        raise AnalysisBroken('no caller of io_write_preset / io_write_next found')

    # a condition several threads wait on must be woken with broadcast: after one io_*_next every worker has a new task
    rep.rule('R-C13-3b', 'a condition variable waited on by the worker threads (one thread per disk / parity) is only woken with a broadcast', 2)
    entries = set()
    for f in P.defined():
        for c in f.calls('thread_create'):
            o = f.strip(c.ops[1])
            if o[0] == 'f' and f.loop_of(c.block) is not None:
                entries.add(o[1])
    if not entries:
        raise AnalysisBroken('no worker thread entry (thread_create in a loop) found')
    cg = P.callgraph()
    worker_code = P.reachable(entries, cg)
    multi = {}
    for fn in worker_code:
        f = P.functions.get(fn)
        if f is None or f.decl:
            continue
        for c in f.calls('thread_cond_wait'):
            m_ = re.search(r'->(\w+)$', f.expr(c.ops[0]))
            if m_:
                multi.setdefault(m_.group(1), []).append(base(f.name))
    if len(multi) < 2:
        raise AnalysisBroken('worker-side condition waits not found (%s)' % multi)
    for cond, waiters in sorted(multi.items()):
        wakes = []
        for f in P.defined():
            if not (f.file or '').endswith('io.c'):
                continue
            for c in f.calls(SIGNALS):
                m_ = re.search(r'->(\w+)$', f.expr(c.ops[0]))
                if m_ and m_.group(1) == cond:
                    wakes.append((base(f.name), c))
        bad_ = [(fn_, c.callee, c.line) for fn_, c in wakes if 'broadcast' not in c.callee]
        rep.check(bool(wakes) and not bad_, 'R-C13-3b', 'io->%s (waited on by %s in every worker) is woken only by broadcast' % (cond, sorted(set(waiters))), wakes[0][1].loc() if wakes else 'cmdline/io.c',
                  '%d wake sites, all broadcast' % len(wakes) if not bad_ else 'woken with a single-thread signal in %s: workers with a pending task can stay asleep (hang with short rings)' % bad_, function=bad_[0][0] if bad_ else 'io', construct='broadcast %s' % cond)

    # ring arithmetic: the ring may have any size in IO_MIN..IO_MAX (--test-io-cache, large block sizes give non powers of two):
    # every index that advances along the ring wraps with `% io->io_max`, the same way in the main thread and in the workers
    rep.rule('R-C13-8', 'every ring index advance in io.c is (index + 1) % io->io_max: no masking or other wrap that agrees only for some ring sizes', 6)
    nwrap = 0
    for f in P.defined():
        if not (f.file or '').endswith('cmdline/io.c'):
            continue
        for i in f.all_insts():
            # values stored into / compared with a ring index: index fields and locals named *_index are fed by (x + 1) <op> <something with io_max>
            if i.op in ('urem', 'and', 'srem', 'udiv', 'select'):      # whatever the wrap is taken against (a constant included)
                a0 = f.inst_of(i.ops[0])
                adv = a0 is not None and a0.op == 'add' and f.const_of(a0.ops[1]) == 1 and 'index' in f.expr(a0.ops[0])
                if not adv:
                    continue
                nwrap += 1
                ok = i.op == 'urem' and f.expr(i.ops[1]).endswith('io->io_max')
                rep.check(ok, 'R-C13-8', '%s: %s' % (base(f.name), f.expr(['i', i.id])), i.loc(), 'wraps with %% io->io_max' if ok else 'the index wraps with `%s`: it agrees with %% io_max only for some ring sizes (a lost wake-up / wrong slot for the others)' % f.expr(['i', i.id]),
                          function=base(f.name), construct='ring wrap')
    if nwrap < 6:
        raise AnalysisBroken('io.c: ring index advances not recognised (%d)' % nwrap)
    # the errors the writers accumulate are handed to the caller once: whichever engine is installed, the accumulator is cleared
    # between two reports (mono clears in its preset, the ring in its next)
    rep.rule('R-C13-6e', 'writer error accumulator io->writer_error[] is zeroed between two reports in both engines (preset/next pair of each mode)', 2)
    slots = P.slots()
    pres = sorted(slots.get('g:io_write_preset', ())); nxts = sorted(slots.get('g:io_write_next', ()))
    modes = {}
    for fn in pres + nxts:
        modes.setdefault(fn.rsplit('_', 1)[-1], []).append(fn)
    if len(modes) < 2 or not all(len(v) == 2 for v in modes.values()):
        raise AnalysisBroken('io_write_preset / io_write_next implementations not paired by mode: %s' % modes)
    for mode, fns in sorted(modes.items()):
        zero = []; rd = []
        for fn in fns:
            g = P.fn(fn)
            rep.analysed(g)
            zero += [i for i in g.all_insts() if i.op == 'store' and 'writer_error[' in g.expr(i.ops[1]) and 'io->' in g.expr(i.ops[1]) and g.const_of(i.ops[0]) == 0]
            rd += [i for i in g.all_insts() if i.op == 'load' and 'io->writer_error[' in g.expr(['i', i.id])]
        rep.check(bool(zero) and bool(rd), 'R-C13-6e', '%s engine: reported errors are cleared' % mode, P.fn(fns[0]).file, '%d report sites, %d clearing sites' % (len(rd), len(zero)) if zero else 'the accumulator is reported but never cleared: one write error is counted again at every later stripe (the ring hits the error limit, the single-thread engine does not)',
                  function=fns[-1], construct='writer_error cleared (%s)' % mode)
    # per-disk verdict flags of the engines must not depend on the disks delivered before (reader completion order)
    from .carried import carried_flags_rule
    carried_flags_rule(P, rep, 'R-C13-9')
    worker_list_width_rule(P, rep, 'R-C13-10')
    from .C08 import writer_error_counted_rule
    writer_error_counted_rule(P, rep, 'R-C13-11')
    scan_thread_shared_set_rule(P, rep, 'R-C13-12')
    writer_error_clear_after_report_rule(P, rep, 'R-C13-6r')


def scan_thread_shared_set_rule(P, rep, rid):
    """state_diffscan runs one scan thread per disk.  Whatever a thread reads of ANOTHER disk during that phase must not be something
    the other disk's thread changes in the same phase, or the result depends on which thread runs first -- with every single access
    properly locked.  Found from the code: the functions reachable from the thread entry, the per-disk hash sets (members of
    snapraid_disk given to tommy_hashdyn_*) they modify, and the lookups of the same member made on a disk taken from the list
    of all disks (node->data of state->disklist) rather than on the thread's own disk."""
    rep.rule(rid, 'scan threads: no per-disk set that the scan threads modify (tommy_hashdyn insert / remove) is looked up on the OTHER disks (a disk obtained from state->disklist) inside the threaded phase', 1)
    sd = P.fn('state_diffscan')
    rep.analysed(sd)
    entries = set()
    for c in sd.calls('thread_create'):
        for o in c.ops:
            so = sd.strip(o)
            if so[0] == 'f' and so[1] in P.functions:
                entries.add(so[1])
    if not entries:
        raise AnalysisBroken('state_diffscan: the scan thread entry was not found')
    R = P.reachable(entries)
    MUT = {'tommy_hashdyn_insert', 'tommy_hashdyn_remove', 'tommy_hashdyn_remove_existing'}
    LOOK = {'tommy_hashdyn_search'}
    muts = {}; looks = {}
    for name in R:
        g = P.functions.get(name)
        if g is None or g.decl:
            continue
        for c in g.calls(MUT | LOOK):
            e = g.xexpr(c.ops[0])
            m = re.match(r'^&?\(?\*?([\w.>-]+?)\)?->(\w+)$', e.strip('()&').join(['', '']) if False else e)
            mm = re.search(r'->(\w+)\)?$', e)
            if not mm:
                continue
            member = mm.group(1)
            if c.callee in MUT:
                muts.setdefault(member, []).append((g, c))
            else:
                # whose set?  the disk pointer behind the first argument
                gi = g.inst_of(c.ops[0])
                src = g.value_sources(gi.ops[0]) if gi is not None and gi.op == 'getelementptr' else []
                cross = any(x[0] == 'mem' and x[1].endswith('->data') for x in src) and any('->disklist' in g.expr(['i', i.id]) for i in g.all_insts() if i.op == 'load')
                if cross:
                    looks.setdefault(member, []).append((g, c))
    if not muts:
        raise AnalysisBroken('scan threads: no per-disk set modified in the threaded phase was recognised')
    shared = sorted(set(muts) & set(looks))
    for g in {x[0] for v in list(muts.values()) + list(looks.values()) for x in v}:
        rep.analysed(g)
    if shared:
        m_ = shared[0]
        g, c = looks[m_][0]
        rep.fail(rid, 'per-disk set `%s`' % m_, c.loc(), 'every scan thread looks `%s` up on all the disks of the array (%s, line %s) while the thread of each disk removes and inserts entries in it (%s): the answer depends on which thread runs first -- a file copied from a disk whose old version is being replaced is a "copy" (hashes inherited, REP blocks) or an "add" for the same input' % (
            m_, base(g.name), c.line, ', '.join(sorted({'%s:%s' % (base(x[0].name), x[1].line) for x in muts[m_]}))), function='state_diffscan', construct='%s looked up across disks in the threaded phase' % m_)
    else:
        rep.ok(rid, 'sets modified by the scan threads (%s) are not looked up across disks' % sorted(muts))


def writer_error_clear_after_report_rule(P, rep, rid):
    """with write-behind threads a parity write can fail at any moment between two calls of the main thread.  The accumulator
    io->writer_error[] may therefore be cleared only in the same critical section that hands its content to the caller: a clearing
    anywhere else (say in the preset of the next stripe, as the single-thread engine does -- there nothing runs concurrently) erases
    the errors that arrived since the last report, and sync ends `Everything OK` after a failed parity write."""
    rep.rule(rid, 'threaded io engine: io->writer_error[] is zeroed only after the same function copied it to the caller (no clearing outside the reporting critical section)', 1)
    n = 0
    for f in P.defined():
        if not (f.file or '').endswith('cmdline/io.c') or not base(f.name).endswith('_thread'):
            continue
        zero = [i for i in f.all_insts() if i.op == 'store' and 'io->writer_error[' in f.expr(i.ops[1]) and f.const_of(i.ops[0]) == 0]
        if not zero:
            continue
        rep.analysed(f)
        rd = [i for i in f.all_insts() if i.op == 'load' and 'io->writer_error[' in f.expr(['i', i.id])]
        thru = list(rd) + [f.blocks[f.loop_of(r.block)][0] for r in rd if f.loop_of(r.block) is not None]
        creates = list(f.calls('thread_create'))
        for z in zero:
            # initialisation: cleared before the first worker thread exists
            if creates and z.id not in f.reach(creates):
                continue
            n += 1
            ok = bool(rd) and f.must_pass(z, thru)
            rep.check(ok, rid, '%s: clearing of io->writer_error[] at line %s' % (base(f.name), z.line), z.loc(), 'after the report in the same function' if ok else 'io->writer_error[] is cleared in a function of the threaded engine that does not report it first: the write errors that the writer threads recorded since the last report are erased, the failing stripes stay recorded as synced and sync exits 0',
                      function=base(f.name), construct='writer_error cleared without report')
    if n < 1:
        # nothing clears the accumulator in the threaded engine: that is the defect R-C13-6e describes (every error is counted again at
        # each later stripe), reported here as a failing instance rather than as a lost anchor
        rep.fail(rid, 'threaded engine: io->writer_error[] is cleared after each report', 'cmdline/io.c', 'no function of the threaded engine clears io->writer_error[]: one write error is reported again at every later stripe', function='io_write_next_thread', construct='writer_error never cleared')


TYPE_BITS = {'unsigned char': 8, 'char': 8, 'signed char': 8, 'unsigned short': 16, 'short': 16, 'unsigned int': 32, 'int': 32, 'unsigned': 32,
             'unsigned long': 64, 'long': 64, 'unsigned long long': 64, 'long long': 64, 'size_t': 64, 'uint8_t': 8, 'uint16_t': 16, 'uint32_t': 32, 'uint64_t': 64}


def worker_list_width_rule(P, rep, rid):
    """the ring engine links the workers still to be waited for through io->reader_list / io->writer_list: element k holds a worker
    number, element 0 the number of workers itself (reader_max = data disks + parities, up to 251 + 6).  An element type narrower
    than the counter truncates 256 to 0: with 250 data disks and 6 parities scrub aborts (assertion) in the threaded engine only,
    the single-thread engine works.  Rule: the element type of each list is at least as wide as the type of the count."""
    rep.rule(rid, 'io ring: the element type of reader_list / writer_list is as wide as reader_max / writer_max (a worker number or the count itself is never truncated)', 2)
    d = P.distructs.get('snapraid_io')
    if not d:
        raise AnalysisBroken('struct snapraid_io not found')
    mem = {m['name']: m for m in d['members']}
    f = P.fn('io_init')
    rep.analysed(f)
    for lst, cnt in (('reader_list', 'reader_max'), ('writer_list', 'writer_max')):
        if lst not in mem or cnt not in mem:
            raise AnalysisBroken('snapraid_io.%s / %s not found' % (lst, cnt))
        et = (mem[lst].get('ty') or '').replace('*', '').replace('const', '').strip()
        eb = TYPE_BITS.get(et); cb = mem[cnt].get('bits')
        if eb is None or not cb or not (mem[lst].get('ty') or '').strip().endswith('*'):
            raise AnalysisBroken('snapraid_io.%s: element type %r not understood' % (lst, mem[lst].get('ty')))
        rep.check(eb >= cb, rid, 'io->%s holds values up to io->%s' % (lst, cnt), f.file,
                  '%d-bit elements for a %d-bit count' % (eb, cb) if eb >= cb else 'elements of type %s (%d bits) hold worker numbers and the count io->%s (%d bits): 256 workers (250 data disks + 6 parities, a supported array) wrap to 0, the list is corrupted and the threaded engine aborts where the single-thread engine works' % (et, eb, cnt, cb),
                  function='io_init', construct='%s element width' % lst)
