"""C07 — interrupted sync and fix are safe and resumable (necessary orderings only; kill points are NOT explored)."""
from ..stripe import StripeLoop
from ..frontend import AnalysisBroken
from ..ir import base
from .. import effects
from ..flags import pinned_reach, local_env
from .C09 import dead_blocks
from . import C04
from .C12 import operation_values


def run(ctx, rep):
    P = ctx.prog
    rep.explanation = ('The crash-point quantifier is not decidable statically. Decided are the orderings resumability rests on: sync never writes a data disk; the pending state (CHG/REP/DELETED) is saved after the '
                       'parities are resized and before the first parity write; sync loads with clear_past_hash; the signal handler only sets a flag and a graceful stop leaves the loop at its end, passes parity_sync and '
                       'io_stop, and main then saves the content; fix removes files it created but did not finish; content replacement protocol (C09).')
    rep.rule('R-C07-1', 'sync reaches no data-disk write effect; data files are opened read-only', 2)
    rep.rule('R-C07-2', 'state_sync: parity_chsize -> state_refresh -> pre-sync state_write -> state_sync_process, in this order', 3)
    rep.rule('R-C07-3', 'sync sets clear_past_hash before loading; the sync loop asserts it; scan invalidates inherited hashes when it is clear', 4)
    rep.rule('R-C07-4', 'graceful stop: handler only sets a flag; the loop is left only at its end; the exit path passes parity_sync and io_stop; main saves afterwards', 5)
    rep.rule('R-C07-6', 'fix: files created by this run and not finished are removed on the exit path; parity truncated to the valid size', 2)
    vals = operation_values(P)
    eff, seen, fns = effects.command_effects(P, 'main', {'operation': vals['sync']})
    bad = set(eff) & {'DATA', 'MTIME', 'LMTIME', 'MKDIR', 'POOL'}
    rep.check(not bad, 'R-C07-1', 'sync: no data-disk write effect reachable', 'cmdline/snapraid.c', 'effects: %s' % sorted(eff), function='main', construct='sync data effect')
    ho = P.fn('handle_open')
    bits = effects.Bits(P)
    oks = []
    for c in ho.calls({'open_noatime', 'open'}):
        fl = bits.of(ho, c.ops[1])
        oks.append(fl is not None and not (fl & effects.WRITE_BITS))
    rep.check(bool(oks) and all(oks), 'R-C07-1', 'handle_open opens read-only', ho.file, '', function='handle_open', construct='open flags')
    rep.analysed(ho)

    s = P.fn('state_sync')
    rep.analysed(s)
    order = []
    for name in ('parity_chsize', 'state_refresh', 'state_write', 'state_sync_process'):
        cs = list(s.calls(name))
        if len(cs) != 1:
            if not P.variants(name):
                raise AnalysisBroken('state_sync: anchor function %s does not exist' % name)
            rep.fail('R-C07-2', 'state_sync calls %s exactly once' % name, s.file, '%d calls of %s in state_sync' % (len(cs), name), function='state_sync', construct='missing %s' % name)
            continue
        order.append(cs[0])
    for a, b in zip(order, order[1:]):
        ok = s.dom_or_loop(a, b) or (b.id in s.reach([a]) and a.id not in s.reach([b]) and s.must_pass(b, [a], start=s.blocks[a.block][0]) )
        if a.callee == 'state_write':
            # the pre-sync save is conditional (need_write / test option) but, when taken, precedes the loop
            ok = b.id in s.reach([a]) and a.id not in s.reach([b])
        rep.check(ok, 'R-C07-2', 'state_sync: %s before %s' % (a.callee, b.callee), b.loc(), '', function='state_sync', construct='%s->%s' % (a.callee, b.callee))

    m = P.fn('main')
    rep.analysed(m)
    reach, fo = pinned_reach(m, local_env(m, {'operation': vals['sync']}))
    cps = [i for i in m.all_insts() if i.op == 'store' and m.expr(i.ops[1]).endswith('state.clear_past_hash') and m.const_of(i.ops[0]) == 1 and i.id in reach]
    reads = [c for c in m.calls('state_read') if c.id in reach]
    rep.check(len(cps) == 1 and len(reads) == 1 and m.must_pass(reads[0], cps), 'R-C07-3', 'main(sync): clear_past_hash = 1 before state_read', m.file, '', function='main', construct='clear_past_hash')
    sp = P.fn('state_sync_process')
    asserts = [b for b in range(len(sp.blocks)) if sp.term(b).op == 'br' and len(sp.term(b).ops) == 3 and 'clear_past_hash' in sp.expr(sp.term(b).ops[0])]
    rep.check(bool(asserts) and sp.bdominates(asserts[0], [c for c in sp.calls() if c.indirect and 'io_start' in sp.expr(c.target)][0].block), 'R-C07-3', 'state_sync_process asserts clear_past_hash before starting', sp.file, '', function='state_sync_process', construct='assert')
    from .C05 import locate_in_helpers
    for fn in ('scan_file_allocate', 'scan_file_deallocate'):
        g = locate_in_helpers(P, P.fn(fn), lambda g_: any(g_.term(b).op == 'br' and len(g_.term(b).ops) == 3 and 'clear_past_hash' in g_.expr(g_.term(b).ops[0]) for b in range(len(g_.blocks))))
        if g is None:
            raise AnalysisBroken('%s: the clear_past_hash test was not found (neither inline nor in a static helper)' % fn)
        rep.analysed(g)
        ok = False
        for b in range(len(g.blocks)):
            t = g.term(b)
            if t.op == 'br' and len(t.ops) == 3 and 'clear_past_hash' in g.expr(t.ops[0]):
                ci = g.inst_of(t.ops[0])
                clear_edge = t.ops[1][1] if ci.pred == 'ne' else t.ops[2][1]
                if any(g.bdominates(clear_edge, c.block) for c in g.calls('hash_invalid_set')):
                    ok = True
        rep.check(ok, 'R-C07-3', '%s: inherited hash invalidated when clear_past_hash is not set' % fn, g.file, '', function=fn, construct='invalidate inherited')

    # the loader's clearing of indeterminate hashes is effective: nothing rewrites block->hash after it in the same iteration
    rep.rule('R-C07-3r', 'state_read_content: with clear_past_hash, every CHG/DELETED (and REP under --force-nocopy) hash is left INVALID: the invalidation is guarded by the flag and no later write of the same hash field follows it in the iteration', 2)
    rc = P.fn('state_read_content')
    rep.analysed(rc)
    inv = list(rc.calls('hash_invalid_set'))
    past_hash_cleared_rule(P, rep, 'R-C07-3d')
    zero_marker_kept_rule(P, rep, 'R-C07-3z')
    # recovery in the intermediate state of an interrupted sync goes through repair(): the buffers it zeroes / inspects are those of the failed disk
    from .C05 import buffer_slot_rule, old_state_strategy_rule
    buffer_slot_rule(P, rep, 'R-C07-10')
    old_state_strategy_rule(P, rep, 'R-C07-11')
    from .C11 import need_write_rule
    need_write_rule(P, rep, 'R-C07-8')
    # the pre-sync save must keep the DELETED blocks of a disk without files: they are the memory of a pending parity update
    from .C10 import empty_disk_rule, empty_disk_search_rule
    empty_disk_rule(P, rep, 'R-C07-9')
    empty_disk_search_rule(P, rep, 'R-C07-9s')
    from ..guards import guards_of
    def hash_writers(f):
        res = []
        for c in f.calls():
            if c.callee in ('sread', 'hash_zero_set', 'memcpy', 'memset', 'sgetbs') and c.ops:
                e = f.expr(c.ops[1] if c.callee == 'sread' else c.ops[0])
                if e.endswith('->hash') or e.endswith('->hash[0]') or '->hash' in e:
                    res.append((c, e))
        return res
    W = hash_writers(rc)
    if len(W) < 2:
        raise AnalysisBroken('state_read_content: hash readers not found')
    for hcall in inv:
        g = dict(guards_of(rc, hcall))
        guarded = g.get('state->clear_past_hash') is True
        hd = rc.loop_of(hcall.block)
        stop = {rc.blocks[hd][0].id} if hd is not None else set()
        r = rc.reach([hcall], stop=stop)
        tgt = rc.expr(hcall.ops[0])
        later = [c for c, e in W if c.id in r and e == tgt]
        rep.check(guarded and not later and hd is not None, 'R-C07-3r', 'hash_invalid_set(%s) at line %s is guarded by clear_past_hash and final for the iteration' % (tgt, hcall.line), hcall.loc(),
                  'guarded by clear_past_hash: %s; later writes of the same field in the iteration: %s' % (guarded, ['%s at line %s' % (c.callee, c.line) for c in later]),
                  function='state_read_content', construct='past hash cleared')

    h = P.fn('signal_handler')
    rep.analysed(h)
    calls = [c for c in h.calls()]
    stores = [i for i in h.all_insts() if i.op == 'store' and i.ops[1][0] == 'g']
    rep.check(not calls and len(stores) == 1 and stores[0].ops[1][1] == 'global_interrupt', 'R-C07-4', 'signal_handler: one store to global_interrupt, no call', h.file, '%d calls, %d global stores' % (len(calls), len(stores)), function='signal_handler', construct='handler purity')
    L = StripeLoop(P, 'state_sync_process')
    f = L.f
    sps = [c for c in f.calls('state_progress') if c.block in L.body]
    ok = len(sps) == 1
    det = ''
    if ok:
        wn = L.slot_calls('io_write_next')
        ok = len(wn) == 1 and f.dominates(wn[0], sps[0])
        brs = C04.cond_branches_on_call(f, sps[0])
        okb = False
        for br, ci in brs:
            te = br.ops[2][1] if ci.op != 'icmp' or ci.pred == 'ne' else br.ops[1][1]
            okb = okb or te not in L.body or any(s not in L.body for s in f.succ[te])
        ok = ok and okb
        det = 'state_progress tested after io_write_next of the current stripe: %s; non-zero leaves the loop: %s' % (f.dominates(wn[0], sps[0]) if wn else False, okb)
    rep.check(ok, 'R-C07-4', 'state_sync_process: interruption is honoured only at the end of a stripe', sps[0].loc() if sps else f.file, det, function='state_sync_process', construct='stop point')
    ends = list(f.calls('state_progress_end'))
    ps = [c for c in f.calls('parity_sync') if c.block not in L.body]
    stop = L.slot_calls('io_stop')
    rets = f.returns()
    ok = bool(ends) and bool(ps) and bool(stop) and all(any(f.dom_or_loop(p, s_) for p in ps) or not f.bdominates(ends[0].block, s_.block) for s_ in stop) and all(f.must_pass(r, stop) for r in rets)
    rep.check(ok, 'R-C07-4', 'state_sync_process: from the loop end every path to the return passes parity_sync (all levels) and io_stop', f.file, '', function='state_sync_process', construct='graceful exit path')
    syn = [c for c in m.calls('state_sync') if c.id in reach]
    sw = [c for c in m.calls('state_write') if c.id in reach and c.id in m.reach([syn[0]])] if syn else []
    rep.check(len(syn) == 1 and len(sw) >= 1, 'R-C07-4', 'main(sync): the content is saved after state_sync returns', m.file, '%d save sites after state_sync' % len(sw), function='main', construct='final save')
    # the final save is not skipped on a failing sync when something was synced: its guard
    if sw:
        from ..guards import guards_of
        gs = guards_of(m, sw[0])
        rep.check(not any(a in ('ret',) or 'state_sync(' in a for a, p in gs), 'R-C07-4', 'main(sync): the final save does not depend on the result of state_sync', sw[0].loc(), ' && '.join(('' if p else '!') + a for a, p in gs if 'operation' not in a), function='main', construct='final save guard')

    from .C06 import autosave_drain_rule
    autosave_drain_rule(P, rep, L, 'R-C07-7')
    c = P.fn('state_check_process')
    rep.analysed(c)
    rm = [x for x in c.calls('remove')]
    from ..guards import guards_of
    cleanup = []
    for x in rm:
        gs = dict(guards_of(c, x))
        if gs.get('fix') is True and any('file_flag_has' in k for k in gs):
            cleanup.append(x)
    bailb = [b for b, n in enumerate(c.bname) if n == 'bail']
    ok = len(cleanup) == 1 and bool(bailb) and c.bdominates(bailb[0], cleanup[0].block)
    rep.check(ok, 'R-C07-6', 'state_check_process: created-but-unfinished files are removed after bail (every exit path)', cleanup[0].loc() if cleanup else c.file, '', function='state_check_process', construct='cleanup created')
    rule_created_reset(P, rep, 'R-C07-6c')
    rule_finished_only_processed(P, rep, 'R-C07-6f')
    # resumability also rests on the content replacement protocol (a stale .tmp of a killed save must not block the next save): rule shared with C09
    from .C09 import rule_save_protocol
    rep.rule('R-C09-6', 'save protocol ordering: write->flush->fsync->close->verify->rename, stale temporaries removed, all failures fatal (shared with C09)', 20)
    rule_save_protocol(ctx, rep)
    # resumability after a kill rests on which hashes survive in the content: shared with C05/C06
    from .C05 import hash_provenance_rules
    from .C06 import blk_value
    hash_provenance_rules(P, rep, 'R-C07-3p', blk_value(P))
    sc = P.fn('state_check')
    rep.analysed(sc)
    pt = list(sc.calls('parity_truncate'))
    rep.check(bool(pt), 'R-C07-6', 'state_check: parity_truncate to the valid size when fixing', sc.file, '%d sites' % len(pt), function='state_check', construct='parity truncate')


def rule_created_reset(P, rep, rid):
    """the flag that decides the end-of-fix removal is produced by handle_create: it must be reset before every open()"""
    hc = P.fn('handle_create')
    rep.analysed(hc)
    cst = [i for i in hc.all_insts() if i.op == 'store' and hc.expr(i.ops[1]) == '&handle->created']
    opens = list(hc.calls('open'))
    zero = [i for i in cst if hc.const_of(i.ops[0]) == 0]
    okc = bool(zero) and bool(opens) and all(hc.must_pass(o, zero) for o in opens)
    rep.rule(rid, 'handle_create resets handle->created before opening, so FILE_IS_CREATED (which lets fix remove the file on exit) means "created by this call"', 1)
    rep.check(okc, rid, 'handle_create: created = 0 precedes every open()', hc.file, '%d resetting stores, %d opens' % (len(zero), len(opens)), function='handle_create', construct='created reset')
    # and state_check_process derives FILE_IS_CREATED only from that flag, right after handle_create
    c = P.fn('state_check_process')
    sets = [x for x in c.calls('file_flag_set') if c.const_of(x.ops[1]) is not None]
    hcs = list(c.calls('handle_create'))
    from ..guards import guards_of
    okg = False
    for x in sets:
        gs = guards_of(c, x)
        if any('created' in a_ and p_ for a_, p_ in gs) and hcs and c.dominates(hcs[0], x):
            okg = True
    rep.check(okg, rid, 'state_check_process: FILE_IS_CREATED set only under handle[j].created after handle_create', c.file, '', function='state_check_process', construct='created flag source')


def rule_finished_only_processed(P, rep, rid):
    """the end-of-fix clean-up removes files that were created but not finished; file_post may mark a file finished only
    on the path that really finishes it: after the test that skips excluded files and, under --filter-error, unsynced files"""
    from ..guards import guards_of
    rep.rule(rid, 'file_post: the FINISHED mark (which protects a created file from the end-of-fix removal) is set only after the skip test for excluded / unsynced-under-filter files', 1)
    fp = P.fn('file_post')
    cc = P.fn('state_check_process')
    rep.analysed(fp)
    # the constant of FINISHED: the flag tested next to the removal in state_check_process
    rm = [x for x in cc.calls('remove')]
    consts = set()
    for x in rm:
        for a, pol in guards_of(cc, x):
            if a.startswith('file_flag_has(') and pol is False:
                try:
                    consts.add(int(a.rstrip(')').split(',')[-1]))
                except ValueError:
                    pass
    sets = [c for c in fp.calls('file_flag_set') if fp.const_of(c.ops[1]) in consts]
    if len(consts) != 1 or len(sets) != 1:
        raise AnalysisBroken('file_post: FINISHED mark not identified (constants %s, %d set sites)' % (sorted(consts), len(sets)))
    st = sets[0]
    hd = fp.loop_of(st.block)
    skips = []
    for b in range(len(fp.blocks)):
        t = fp.term(b)
        if t.op == 'br' and len(t.ops) == 3 and 'file_flag_has(file' in fp.expr(t.ops[0]):
            skips.append(t)
    stop = {fp.blocks[hd][0].id} if hd is not None else set()
    from ..guards import normalise
    later = []
    n_ok = 0
    for t in skips:
        a, pol = normalise(fp, t.ops[0], True)
        true_edge = t.ops[2][1] if pol else t.ops[1][1]      # edge taken when the flag IS set
        false_edge = t.ops[1][1] if pol else t.ops[2][1]
        r_true = fp.reach([fp.blocks[true_edge][0]], stop=stop, include_start=True)
        r_false = fp.reach([fp.blocks[false_edge][0]], stop=stop, include_start=True)
        if st.id in r_false and st.id not in r_true:
            n_ok += 1
        elif t.id in fp.reach([st], stop=stop):
            later.append(fp.expr(t.ops[0]))
    # the two skip reasons (excluded; unsynced under the filter) must both precede the mark
    need = 2
    rep.check(hd is not None and n_ok >= need, rid, 'file_post: FINISHED set only when the file is neither excluded nor skipped as unsynced', st.loc(),
              '%d skip tests precede the mark (need %d); flag tests evaluated only after the mark: %s' % (n_ok, need, later), function='file_post', construct='finished only processed')


def past_hash_cleared_rule(P, rep, rid):
    """sync loads the content with clear_past_hash: every block restored in a state whose hash describes PAST data (CHG, DELETED)
    gets its hash invalidated in the same iteration of the loader, under the flag -- otherwise a hash saved before an interrupted
    sync is trusted afterwards and parity updates are skipped"""
    from ..guards import guards_of
    from .C06 import blk_value
    rc = P.fn('state_read_content')
    st = blk_value(P)
    known = set(st.values())
    sets = list(rc.calls('block_state_set'))
    deleted = {rc.const_of(c.ops[1]) for c in sets if rc.const_of(c.ops[1]) not in known and rc.const_of(c.ops[1]) is not None}
    past = {st['CHG']: 'CHG'}
    for d in deleted:
        past[d] = 'DELETED'
    rep.rule(rid, 'state_read_content: each loop that restores blocks in a past-hash state (CHG, DELETED) invalidates their hash under clear_past_hash', 2)
    inv = list(rc.calls('hash_invalid_set'))
    done = set()
    for c in sets:
        k = rc.const_of(c.ops[1])
        if k not in past:
            continue
        h = rc.loop_of(c.block)
        if h is None or (h, past[k]) in done:
            continue
        # a state produced from another state by an option (REP -> CHG under --force-nocopy) carries its own invalidation: skip sets that are themselves guarded by clear_past_hash
        if any(a == 'state->clear_past_hash' and p for a, p in guards_of(rc, c)):
            continue
        done.add((h, past[k]))
        ok = False
        for x in inv:
            if x.block in rc.loops[h] and rc.expr(x.ops[0]) == '&block->hash[0]':
                g = dict(guards_of(rc, x))
                extra = [a for a in g if a.startswith('state->opt.') or 'block_state_get' in a]
                if g.get('state->clear_past_hash') is True and not extra:
                    ok = True
        rep.check(ok, rid, 'blocks restored as %s have their hash invalidated under clear_past_hash' % past[k], c.loc(),
                  'invalidation present in the same loop' if ok else 'no hash_invalid_set(block->hash) guarded only by clear_past_hash in the loop that restores %s blocks: the hash of data that may no longer be in the parity is trusted by the next sync' % past[k],
                  function='state_read_content', construct='%s hash cleared on load' % past[k])


def zero_marker_kept_rule(P, rep, rid):
    """a block of a new file placed on a free parity position is recorded as CHG with the ZERO hash: "the parity holds zeros here (or,
    after an aborted run, already the new data)" -- the two cases repair() tries, which keeps the OTHER blocks of the stripe
    recoverable while the sync is pending.  The loader's clearing of past hashes for a new sync must spare that marker: turned into
    INVALID it is saved as such when the second run is stopped, and the files synced before lose their protection in every stripe the
    run did not reach (finding F25)."""
    from ..guards import guards_of
    rc = P.fn('state_read_content')
    rep.rule(rid, 'state_read_content: the invalidation of past hashes under clear_past_hash does not apply to the ZERO marker (guard includes !hash_is_zero)', 1)
    inv = [x for x in rc.calls('hash_invalid_set') if rc.expr(x.ops[0]) == '&block->hash[0]' and dict(guards_of(rc, x)).get('state->clear_past_hash') is True]
    # only CHG blocks can carry the marker: the site in the loop that restores file blocks, not tied to an option
    from .C06 import blk_value
    chg = blk_value(P)['CHG']
    chg_loops = {rc.loop_of(c.block) for c in rc.calls('block_state_set') if rc.loop_of(c.block) is not None}
    file_loops = {rc.loop_of(c.block) for c in rc.calls('fs_file2block_get') if rc.loop_of(c.block) is not None}
    del_loops = {rc.loop_of(c.block) for c in rc.calls('block_state_set') if rc.const_of(c.ops[1]) is not None and rc.const_of(c.ops[1]) not in set(blk_value(P).values())}
    inv = [x for x in inv if rc.loop_of(x.block) in file_loops and rc.loop_of(x.block) not in del_loops and not any(a.startswith('state->opt.') for a, p in guards_of(rc, x))]
    if not inv:
        # no clearing tied to clear_past_hash at all in the file-block loop: that is R-C07-3d's violation; say so here too instead of giving up
        rep.check(False, rid, 'past-hash clearing of CHG blocks is tied to clear_past_hash', rc.file, 'no hash_invalid_set(block->hash) guarded by clear_past_hash in the loop that restores file blocks', function='state_read_content', construct='clearing not under clear_past_hash')
        return
    for x in inv:
        g = guards_of(rc, x, expand=True)
        spared = any('hash_is_zero' in a and p is False for a, p in g)
        rep.check(spared, rid, 'past-hash clearing at line %s spares the ZERO marker' % x.line, x.loc(),
                  'guarded by !hash_is_zero' if spared else 'every CHG / DELETED hash is invalidated, the ZERO marker of never-synced positions included: after sync is stopped twice (Ctrl+C, restart, Ctrl+C) with only additions pending, a file synced before cannot be recovered from one lost disk in the stripes the second run did not reach',
                  function='state_read_content', construct='ZERO marker cleared on load')
