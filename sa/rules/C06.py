"""C06 — stripes recorded as synced always have valid parity (when the state may say so)."""
from ..stripe import StripeLoop
from ..frontend import AnalysisBroken
from ..ir import base
from .. import grammar
from .C09 import dead_blocks, first_cond_branch, depends_on


def blk_value(P):
    """BLOCK_STATE_* are macros: recover BLK/CHG/REP/DELETED from the writer's state->tag switch"""
    wf = P.fn('state_write_thread')
    m = {}
    for b in range(len(wf.blocks)):
        t = wf.term(b)
        if t.op == 'switch':
            for cv, cb in t.cases:
                for i in wf.blocks[cb]:
                    if i.op == 'call' and i.callee == 'sputc' and wf.const_of(i.ops[0]) is not None:
                        m[chr(wf.const_of(i.ops[0]))] = cv
    if {'b', 'g', 'p'} <= set(m):
        return {'BLK': m['b'], 'CHG': m['g'], 'REP': m['p']}
    # the writer does not dispatch on the state with a switch (an if chain, a table): take the constants from the predicates of
    # elem.h that define what the states mean -- valid parity + file: BLK; updated hash: BLK or REP; file: BLK, CHG or REP
    def consts_of(name):
        vs = P.variants(name) if hasattr(P, 'variants') else []
        if not vs:
            raise AnalysisBroken('cannot recover block state constants (%s not found)' % name)
        g = vs[0]
        return {g.const_of(i.ops[1]) for i in g.all_insts() if i.op == 'icmp' and i.pred in ('eq', 'ne') and g.const_of(i.ops[1]) is not None}
    blk = consts_of('block_has_file_and_valid_parity')
    upd = consts_of('block_has_updated_hash')
    fil = consts_of('block_has_file')
    if len(blk) != 1 or len(upd - blk) != 1 or len(fil - upd) != 1 or not blk <= upd <= fil:
        raise AnalysisBroken('cannot recover block state constants')
    return {'BLK': list(blk)[0], 'CHG': list(fil - upd)[0], 'REP': list(upd - blk)[0]}


ALLOWED_SETTERS = {
    # function -> states it may assign (confirmed by reading)
    'state_read_content': {'BLK', 'CHG', 'REP', 'DELETED'},   # state restored from a content file
    'state_sync_process': {'BLK'},                            # commit of a verified stripe
    'state_hash_process': {'REP'},                            # pre-hash: CHG -> REP after hashing
    'file_alloc': {'CHG'}, 'file_copy': {'REP'},
    'scan_file_allocate': {'CHG', 'REP'}, 'scan_file_deallocate': {'DELETED'},
}


_CALLERS = {}


def _owners(P, fname, depth=0):
    """the non-helper functions on whose behalf a static helper runs: its callers, through other unlisted static helpers"""
    if id(P) not in _CALLERS:
        inv = {}
        for a, bs in P.callgraph().items():
            for b in bs:
                inv.setdefault(b, set()).add(a)
        _CALLERS[id(P)] = inv
    inv = _CALLERS[id(P)]
    res = set()
    for c in inv.get(fname, ()):
        cf = P.functions.get(c)
        if base(c) in ALLOWED_SETTERS or cf is None or not cf.internal or depth > 3:
            res.add(base(c))
        else:
            res |= _owners(P, c, depth + 1)
    return res


def run(ctx, rep):
    P = ctx.prog
    rep.explanation = ('Typestate of "synced": who may set BLK and under which flag tuples (predicate abstraction over the stripe loop), parity written iff recomputed, '
                       'content saves ordered after parity sync, file-system self-checks on load/save/scan. Numerical parity equality is C02.')
    rep.assumptions = ['block states are only changed through block_state_set (checked: no other store to the state bits)']
    st = blk_value(P)
    inv = {v: k for k, v in st.items()}
    rep.rule('R-C06-1', 'who-may-set: block_state_set(.,K) only in the functions allowed to produce state K; BLK only by the content reader and the sync commit', 14)
    n = 0
    # DELETED is the state the reader assigns for the hole sub-tag 'o'
    rf = P.fn('state_read_content')
    deleted = None
    for c in rf.calls('block_state_set'):
        k = rf.const_of(c.ops[1])
        if k not in inv:
            deleted = k
    for f in P.defined():
        for c in f.calls('block_state_set'):
            k = f.const_of(c.ops[1])
            name = inv.get(k, 'DELETED' if k == deleted else str(k))
            ok = base(f.name) in ALLOWED_SETTERS and name in ALLOWED_SETTERS[base(f.name)]
            if not ok and base(f.name) not in ALLOWED_SETTERS and f.internal:
                # a static helper split out of an allowed function acts on its behalf: every caller (transitively) must be allowed
                owners = _owners(P, f.name)
                ok = bool(owners) and all(o in ALLOWED_SETTERS and name in ALLOWED_SETTERS[o] for o in owners)
            det = 'allowed'
            if not ok and name == 'CHG':
                # CHG says "the parity does not cover the present data": assigning it can never make a stripe look synced.  What it must
                # not do is keep a hash that describes something else than what the parity holds, so an unlisted site is accepted when it
                # gives the block the INVALID ("unknown past") marker in the same basic block (state_rehash demoting pending REP blocks)
                be = f.expr(c.ops[0])
                mk = [x for x in f.calls('hash_invalid_set') if x.block == c.block and f.expr(x.ops[0]).lstrip('&').startswith(be + '->hash')]
                if mk:
                    ok = True
                    det = 'not in the table, but CHG together with hash_invalid_set(%s->hash): only withdraws a claim' % be
            rep.check(ok, 'R-C06-1', '%s sets %s' % (base(f.name), name), c.loc(), det if ok else 'state %s assigned outside the functions allowed to produce it' % name, function=base(f.name), construct='block_state_set %s' % name)
            rep.analysed(f)
            n += 1
    # direct stores into the state field outside block_state_set
    for f in P.defined():
        if base(f.name) in ('block_state_set', 'file_dup'):
            # file_dup: duplicates a file entry, copying state and hash of each block together (value comes from another block)
            continue
        for i in f.all_insts():
            if i.op == 'store':
                e = f.expr(i.ops[1])
                if e.endswith('->state') and 'block' in e and 'snapraid_block' in (f.insts[f.strip(i.ops[1])[1]].src or '') if f.strip(i.ops[1])[0] == 'i' else False:
                    rep.fail('R-C06-1', '%s writes block->state directly' % f.name, i.loc(), 'store to the block state outside block_state_set', function=base(f.name), construct='direct state store')

    # the predicates every engine uses to classify a block, over the whole state domain (finite: five states + no block)
    from .. import region as RG
    rep.rule('R-C06-11', 'block predicates over all states: has_file = {BLK,CHG,REP}; invalid_parity = {CHG,REP,DELETED}; file_and_valid_parity = {BLK}; updated_hash = {BLK,REP}; past_hash = {CHG,DELETED}; none holds for an empty position', 5)
    states = dict(st); states['DELETED'] = deleted
    table = {'block_has_file': {'BLK', 'CHG', 'REP'}, 'block_has_invalid_parity': {'CHG', 'REP', 'DELETED'}, 'block_has_file_and_valid_parity': {'BLK'},
             'block_has_updated_hash': {'BLK', 'REP'}, 'block_has_past_hash': {'CHG', 'DELETED'}}
    lay = P.distructs.get('snapraid_block')
    if not lay or deleted is None:
        raise AnalysisBroken('struct snapraid_block / DELETED state not found')
    so = [m for m in lay['members'] if m['name'] == 'state'][0]
    for pn, want in sorted(table.items()):
        vs = P.variants(pn)
        if not vs:
            raise AnalysisBroken('predicate %s not found' % pn)
        g = vs[0]
        rep.analysed(g)
        got = set()
        for name, k in states.items():
            R = RG.Region(P)
            bp = RG.P_(('obj', 'block'), 0)
            R.mem[(bp.reg, so['off'])] = k
            try:
                if R.run(g, 0, [bp]):
                    got.add(name)
            except RG.Unsupported as e:
                raise AnalysisBroken('cannot interpret %s: %s' % (pn, e))
        try:
            if RG.Region(P).run(g, 0, [0]):      # BLOCK_NULL: a position without a block
                got.add('EMPTY')
        except RG.Unsupported as e:
            raise AnalysisBroken('cannot interpret %s on BLOCK_NULL: %s' % (pn, e))
        rep.check(got == want, 'R-C06-11', '%s holds exactly for %s' % (pn, sorted(want)), g.file, 'holds for %s' % sorted(got), function=pn, construct='truth table')
    L = StripeLoop(P, 'state_sync_process')
    f = L.f
    rep.analysed(f)
    fa = L.fa
    rep.rule('R-C06-2', 'commit typestate: BLK set / DELETED released / info refreshed only with error=0, io_error=0 and (silent=0 or fixed=1)', 2)
    commits = [c for c in f.calls('block_state_set') if f.const_of(c.ops[1]) == st['BLK']] + list(f.calls('fs_deallocate'))
    # the commit of a stripe may live in a static helper (a loop over the disks split out of the engine): the call of the helper is then the commit site
    helper_commits = []
    for c in f.calls():
        g_ = P.functions.get(c.callee_full) if c.callee_full else None
        if g_ is not None and not g_.decl and g_.internal and any(g_.const_of(x.ops[1]) == st['BLK'] for x in g_.calls('block_state_set')):
            helper_commits.append(c)
    if not [c for c in commits if c.callee == 'block_state_set'] and not helper_commits:
        raise AnalysisBroken('state_sync_process: the commit to BLK was found neither inline nor in a static helper')
    commits = commits + helper_commits
    refresh = [c for c in f.calls('info_make')]
    for c in commits + refresh:
        tuples = fa.at(c)
        bad = [t for t in tuples if not (t['error_on_this_block'] == 0 and t['io_error_on_this_block'] == 0 and (t['silent_error_on_this_block'] == 0 or t['fixed_error_on_this_block'] == 1))]
        if c.callee == 'info_make':
            bad += [t for t in tuples if not (t['silent_error_on_this_block'] == 0 and t['parity_needs_to_be_updated'] == 1)]
        rep.check(bool(tuples) and not bad, 'R-C06-2', '%s in the commit of state_sync_process' % c.callee, c.loc(), '%d possible flag tuples, %d outside the allowed set%s' % (len(tuples), len(bad), (': %s' % bad[0]) if bad else ''), function='state_sync_process', construct='commit %s' % c.callee)
    rep.rule('R-C06-3', 'parity is written iff it was recomputed: going=1 only after raid_gen; the writer receives skip=!going; a committed stripe never has needs=1 and going=0', 5)
    gens = list(f.calls('raid_gen'))
    sets = L.flag_stores('parity_going_to_be_updated', 1)
    rep.check(len(sets) == 1 and gens and all(f.must_pass(s, gens, start=L.block_first(L.header)) for s in sets), 'R-C06-3', 'parity_going_to_be_updated=1 dominated by raid_gen within the iteration', sets[0].loc() if sets else f.file, '%d raid_gen sites' % len(gens), function='state_sync_process', construct='going after raid_gen')
    for g in gens:
        args = [f.xexpr(o) for o in g.ops]
        rep.check(args == ['diskmax', 'state->level', 'state->block_size', 'buffer'], 'R-C06-3', 'raid_gen over all disks, all levels, full block', g.loc(), str(args), function='state_sync_process', construct='raid_gen arguments')
    for slot in ('io_write_preset', 'io_write_next'):
        cs = L.slot_calls(slot)
        if len(cs) != 1:
            raise AnalysisBroken('state_sync_process: %s call not found' % slot)
        e = f.expr(cs[0].ops[2])
        rep.check('parity_going_to_be_updated' in e and ('!=0)^1' in e.replace(' ', '') or '==0' in e), 'R-C06-3', '%s receives skip = !parity_going_to_be_updated' % slot, cs[0].loc(), e, function='state_sync_process', construct='%s skip' % slot)
    for c in commits:
        tuples = fa.at(c)
        bad = [t for t in tuples if t['parity_needs_to_be_updated'] != 0 and t['parity_going_to_be_updated'] != 1]
        rep.check(not bad, 'R-C06-3', 'commit %s: needs=1 implies going=1' % c.callee, c.loc(), '%d tuples' % len(tuples), function='state_sync_process', construct='needs implies going at %s' % c.callee)

    # a committed stripe always has its parity write scheduled before the loop moves on or ends normally
    rep.rule('R-C06-3w', 'after the commit of a stripe every path to the next stripe or to the normal end of the loop passes io_write_next (the write of that stripe is scheduled)', 1)
    wn = L.slot_calls('io_write_next')
    ends = list(f.calls('state_progress_end'))
    if len(wn) != 1 or not ends:
        raise AnalysisBroken('state_sync_process: io_write_next / state_progress_end not found')
    blk_commits = [c for c in commits if c.callee == 'block_state_set' or c in helper_commits]
    r_ = f.reach(blk_commits, stop={wn[0].id})
    esc = [t for t in [L.block_first(L.header)] + ends if t.id in r_]
    rep.check(not esc, 'R-C06-3w', 'state_sync_process: commit is always followed by io_write_next', blk_commits[0].loc(), '' if not esc else 'a path from the commit reaches %s without scheduling the parity write' % esc[0].loc(), function='state_sync_process', construct='commit without write')
    rep.rule('R-C06-6', 'content saves reachable from sync are preceded by parity_sync of all levels with the result checked', 2)
    sw = list(f.calls('state_write'))
    ps = list(f.calls('parity_sync'))
    dead = dead_blocks(f)
    for c in sw:
        pre = [p for p in ps if f.dom_or_loop(p, c)]
        ok = bool(pre)
        for p in pre:
            br = first_cond_branch(f, p)
            ok = ok and br is not None and len(br.ops) == 3 and depends_on(f, br.ops[0], p.id)
        rep.check(ok, 'R-C06-6', 'autosave: parity_sync (checked) dominates state_write', c.loc(), '%d dominating parity_sync sites' % len(pre), function='state_sync_process', construct='autosave sync-before-save')
    # every return-to-caller path of the normal exit passes parity_sync
    # the normal end of the stripe loop: the block that calls the progress epilogue (label `end:` in the pinned tree, whatever its name)
    endb = [c_.block for c_ in f.calls('state_progress_end')][:1]
    if endb:
        stops = L.slot_calls('io_stop')
        post = [p for p in ps if p.block not in L.body]
        rep.check(bool(post) and bool(stops) and all(any(f.dom_or_loop(p, s) for p in post) or s.block in L.body or not f.bdominates(endb[0], s.block) for s in stops) and any(f.bdominates(endb[0], p.block) for p in post), 'R-C06-6', 'normal end: parity_sync of all levels before io_stop/return', f.file, '%d post-loop parity_sync sites' % len(post), function='state_sync_process', construct='final sync')
    autosave_drain_rule(P, rep, L, 'R-C06-6b')

    rep.rule('R-C06-7', 'file-system self-check (fs_check of every disk, fatal) on load, before save and after scan', 4)
    for fn in ('state_read_content', 'state_write_content', 'state_diffscan'):
        g = P.fn(fn)
        rep.analysed(g)
        cs = list(g.calls('state_fscheck'))
        rets = g.returns()
        rep.check(bool(cs) and all(g.must_pass(r, cs) for r in rets), 'R-C06-7', '%s: every return passes state_fscheck' % fn, g.file, '%d call sites' % len(cs), function=fn, construct='fscheck')
    g = P.fn('state_fscheck')
    rep.analysed(g)
    cs = list(g.calls('fs_check'))
    dg = dead_blocks(g)
    ok = False
    for c in cs:
        br = first_cond_branch(g, c)
        ok = br is not None and len(br.ops) == 3 and depends_on(g, br.ops[0], c.id) and (br.ops[1][1] in dg or br.ops[2][1] in dg)
    rep.check(ok and len(cs) == 1 and g.loop_of(cs[0].block) is not None, 'R-C06-7', 'state_fscheck: fs_check for every disk, failure is fatal', g.file, '', function='state_fscheck', construct='fatal')

    from .. import comparators
    comparators.tree_rules(P, rep, 'R-C06-9')
    # a stripe may skip its parity update when every CHG block still matches its past hash: that hash must really be the parity's
    from .C05 import hash_provenance_rules
    hash_provenance_rules(P, rep, 'R-C06-10', st)
    rep.rule('R-C06-8', 'parity size: parity_chsize of every level to parity_allocated_size*block_size, failure fatal, dominates state_sync_process', 2)
    s = P.fn('state_sync')
    rep.analysed(s)
    ch = list(s.calls('parity_chsize')); sp = list(s.calls('state_sync_process'))
    ds = dead_blocks(s)
    ok = len(ch) == 1 and len(sp) == 1 and s.dom_or_loop(ch[0], sp[0]) and s.expr(ch[0].ops[3]) == 'size'
    if ok:
        br = first_cond_branch(s, ch[0])
        ok = br is not None and len(br.ops) == 3 and depends_on(s, br.ops[0], ch[0].id) and (br.ops[1][1] in ds or br.ops[2][1] in ds)
    rep.check(ok, 'R-C06-8', 'state_sync: parity_chsize (fatal on failure) before state_sync_process', s.file, '', function='state_sync', construct='chsize')
    sizest = [i for i in s.all_insts() if i.op == 'store' and s.expr(i.ops[1]) == '&size']
    rep.check(len(sizest) == 1 and 'blockmax' in s.expr(sizest[0].ops[0]) and 'block_size' in s.expr(sizest[0].ops[0]) and any(c.callee == 'parity_allocated_size' for c in s.calls()), 'R-C06-8', 'size = parity_allocated_size(state) * block_size', s.file, s.expr(sizest[0].ops[0]) if sizest else '?', function='state_sync', construct='size')
    save_before_clobber_rule(P, rep, 'R-C06-12')
    from .C17 import chsize_full_size_rule
    chsize_full_size_rule(P, rep, 'R-C06-14', 'state_check')
    from .C11 import need_write_rule
    need_write_rule(P, rep, 'R-C06-15')
    chsize_full_size_rule(P, rep, 'R-C06-14s', 'state_sync')
    # a disk without files keeps its mapping and its DELETED blocks while their parity is pending: dropping them makes the stripes
    # look synced while the parity still holds the deleted data (shared with C07 / C10)
    from .C10 import empty_disk_rule, empty_disk_search_rule
    empty_disk_rule(P, rep, 'R-C06-16')
    empty_disk_search_rule(P, rep, 'R-C06-16s')
    from .C07 import past_hash_cleared_rule
    past_hash_cleared_rule(P, rep, 'R-C06-10d')


def save_before_clobber_rule(P, rep, rid):
    """on-the-fly recovery in sync: the data just read for a block is saved (copy[]) before anything may overwrite its buffer
    (zero fill of a block that was empty before, or registration for raid_rec), because the buffer is restored from that copy
    before the new parity is computed.  A buffer restored from a copy that was never taken puts garbage into the parity of a
    stripe that is then recorded as synced."""
    f = P.fn('state_sync_process')
    rep.rule(rid, 'sync on-the-fly recovery: copy[] <- buffer[] dominates every clobber of the buffer (zero fill, registration for raid_rec); every restore reads the same copy', 3)
    mcp = [c for c in f.calls() if c.callee and (c.callee == 'memcpy' or c.callee.startswith('llvm.memcpy'))]
    mst = [c for c in f.calls() if c.callee and (c.callee == 'memset' or c.callee.startswith('llvm.memset'))]
    saves = [c for c in mcp if f.expr(c.ops[0]) == 'block_copy' and f.expr(c.ops[1]) == 'block_buffer']
    restores = [c for c in mcp if f.expr(c.ops[0]) == 'block_buffer' and f.expr(c.ops[1]) == 'block_copy']
    if not restores:
        raise AnalysisBroken('state_sync_process: restore of the data buffers after raid_rec not found')
    rec = list(f.calls('raid_rec'))
    if len(rec) != 1:
        raise AnalysisBroken('state_sync_process: raid_rec call not found')
    mapname = f.expr(rec[0].ops[1])
    h = f.loop_of(saves[0].block) if saves else None
    clob = []
    for c in mst:
        if f.expr(c.ops[0]) == 'block_buffer' and h is not None and c.block in f.loops[h]:
            clob.append((c, 'zero fill of the buffer'))
    for i in f.all_insts():
        if i.op == 'store' and f.expr(i.ops[1]).lstrip('&').startswith(mapname + '['):
            clob.append((i, 'registration in %s for raid_rec' % mapname))
    rep.check(len(saves) == 1 and h is not None, rid, 'the buffer of every failed block is saved once per block', saves[0].loc() if saves else f.file, '%d save sites' % len(saves), function='state_sync_process', construct='save site')
    for c, what in clob:
        ok = len(saves) == 1 and f.dominates(saves[0], c) and f.loop_of(c.block) == h
        rep.check(ok, rid, '%s at line %s happens after the save' % (what, c.line), c.loc(), 'dominated by the save in the same loop' if ok else 'the buffer can be overwritten (and later restored from the copy) without having been saved', function='state_sync_process', construct='clobber: %s' % what)
    if len(clob) < 2:
        raise AnalysisBroken('state_sync_process: clobber sites not recognised')


def autosave_drain_rule(P, rep, L, rid):
    """a content save inside the stripe loop must be preceded (after the last io_write_next) by a blocking wait for the writer
    workers: a call that can reach thread_join or a wait on the write_done condition.  Otherwise stripes already committed in
    memory are saved as synced while their parity writes are still queued."""
    f = L.f
    rep.rule(rid, 'a content save inside the sync loop is preceded by a wait for the queued parity writes (writer drain)', 1)
    wn = L.slot_calls('io_write_next')
    saves = [c for c in f.calls('state_write') if c.block in L.body]
    if not saves or len(wn) != 1:
        raise AnalysisBroken('state_sync_process: autosave / io_write_next not found')
    # functions that block until writers made progress: reach thread_join, or thread_cond_wait on write_done
    cg = P.callgraph()
    waiters = set()
    for g in P.defined():
        for c in g.calls({'thread_cond_wait'}):
            if 'write_done' in g.expr(c.ops[0]):
                waiters.add(g.name)
        if any(True for _ in g.calls('thread_join')):
            waiters.add(g.name)
    def reaches_waiter(name, seen=None):
        return bool(P.reachable([name]) & waiters)
    for sv in saves:
        between = f.reach([wn[0]], stop={sv.id})
        drains = []
        for c in f.calls():
            if c.id in between and f.dominates(c, sv) and c.block in L.body and c.id != wn[0].id:
                for t in P.call_targets(f, c):
                    if t in P.functions and not P.functions[t].decl and reaches_waiter(t):
                        # io_parity_write waits for ONE free slot of the next index, not for all queued writes of committed stripes
                        if 'io_parity_write' in f.expr(c.target or ['c', 0, 32]) if c.indirect else False:
                            continue
                        drains.append(c)
        rep.check(bool(drains), rid, 'state_sync_process: autosave waits for the queued parity writes', sv.loc(),
                  'drained by %s' % [d.loc() for d in drains] if drains else 'between io_write_next and the autosave state_write nothing waits for the writer workers: the saved state can run ahead of the parity on disk',
                  function='state_sync_process', construct='autosave without writer drain')
