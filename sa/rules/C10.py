"""C10 — saving and reloading the array state is lossless (codec agreement, E7)."""
from .. import grammar, effects
import os
from ..frontend import AnalysisBroken


def fmt(seq):
    return ' '.join(t[0] + (':' + t[1] if t[1] else '') for t in seq)


def link_kind_invariant(P):
    """the writer's switch over the link kind is exhaustive iff every producer of the kind bits stores one of the case constants"""
    bits = effects.Bits(P)
    def check(f, t):
        cases = 0
        for cv, _ in t.cases:
            cases |= cv
        ok = True
        n = 0
        for g in P.defined():
            for c in g.calls({'link_alloc', 'link_flag_let'}):
                arg = c.ops[2] if c.callee == 'link_alloc' else c.ops[1]
                v = bits.of(g, arg)
                n += 1
                if v is None or (v & ~cases) or v == 0:
                    ok = False
        return ok and n >= 3
    return check


def const_ops(f):
    """{opcode: set of constant right operands} over a function"""
    res = {}
    for i in f.all_insts():
        if i.op in ('and', 'or', 'lshr', 'shl', 'add') and len(i.ops) == 2:
            c = f.const_of(i.ops[1])
            if c is not None:
                res.setdefault(i.op, set()).add(c & 0xffffffffffffffff)
    return res


def codec_grammars(P):
    rg, rh, rf = grammar.reader_grammar(P, 'state_read_content')
    wg, wh, wf, pruned = grammar.writer_grammar(P, 'state_write_thread', set(rg), link_kind_invariant(P))
    return rg, rh, rf, wg, wh, wf, pruned


def run(ctx, rep):
    P = ctx.prog
    rep.explanation = ('The field grammar of every record is extracted from the writer (state_write_thread) and the reader (state_read_content) as finite sets of token sequences '
                       '(all CFG paths with loops taken 0/1 times, error sinks pruned, reader sub-tags labelled by the comparisons taken); every writer sequence must be accepted by the reader, '
                       'and integer fields must come from / go to the same struct member (resolved through the *_alloc constructors). Varint/LE32 primitive pairs are compared by their constants.')
    rep.assumptions = ['loops are abstracted to 0/1 iterations on both sides', 'a link is a hard link or a symlink (checked: every producer of the kind bits passes one of the two constants)']
    rep.rule('R-C10-1', 'every field sequence the writer can emit for a record is accepted by the reader (kind, order, conditionality, repetition)', 30)
    rep.rule('R-C10-1h', 'header strings and record tags of the writer are accepted by the reader', 3)
    rep.rule('R-C10-2', 'member pairing: a field written from member X is restored into member X', 12)
    rg, rh, rf, wg, wh, wf, pruned = codec_grammars(P)
    rep.analysed(rf, wf)
    for h in wh:
        rep.check(h in rh, 'R-C10-1h', 'header %s' % h[:12], wf.file, 'accepted by reader: %s' % (h in rh), function='state_write_thread', construct='header')
    rep.check(set(wg) <= set(rg), 'R-C10-1h', 'record tags', wf.file, 'writer tags %s; reader tags %s' % (''.join(sorted(wg)), ''.join(sorted(rg))), function='state_write_thread', construct='tags')
    if len(wg) < 15:
        raise AnalysisBroken('only %d writer records found' % len(wg))
    npairs = 0
    for tag in sorted(wg):
        for s in sorted(wg[tag], key=lambda x: (len(x), str(x))):
            acc = grammar.seq_accepts(rg.get(tag, ()), s)
            rep.check(acc is not None, 'R-C10-1', "record '%s': %s" % (tag, fmt(s)), wf.file,
                      'accepted' if acc else "no reader path accepts this sequence; reader alternatives for '%s': %s" % (tag, [fmt(r) for r in sorted(rg.get(tag, ()), key=len)][:6]),
                      function='state_write_thread', construct="record %s: %s" % (tag, fmt(s)))
            if acc:
                # member pairing against every reader sequence of the same shape
                for w, r in zip(s, acc):
                    if w[0] in ('b32', 'b64', 'raw', 'bs') and w[2] and r[2]:
                        wm, rm = w[2], r[2]
                        # compare with the owning struct when both sides know it, by member name otherwise
                        if '.' in wm and '.' in rm:
                            same = wm == rm
                        else:
                            same = wm.split('.')[-1] == rm.split('.')[-1]
                        npairs += 1
                        rep.check(same or (wm, rm) in ALIASES, 'R-C10-2', "record '%s' field %s" % (tag, w[0]), wf.file, 'written from %s, restored into %s' % (wm, rm), function='state_read_content', construct="record %s %s<-%s" % (tag, rm, wm))
    # block-state tags: writer switch(state) case K -> sputc(X) ; reader switch(tag) case X -> block_state_set(K)
    wmap = {}
    for b in range(len(wf.blocks)):
        t = wf.term(b)
        if t.op == 'switch':
            for cv, cb in t.cases:
                for i in wf.blocks[cb]:
                    if i.op == 'call' and i.callee == 'sputc' and wf.const_of(i.ops[0]) is not None:
                        wmap[chr(wf.const_of(i.ops[0]))] = cv
    if not {'b', 'g', 'p'} <= set(wmap):
        # the writer dispatches on the state with an if chain: read it through the case-entry abstraction (switch or ==/!= alike)
        from .C05 import state_case_entries
        from .C06 import blk_value
        for nm_, k_ in blk_value(P).items():
            for eb in state_case_entries(wf, k_):
                for i in wf.blocks[eb]:
                    if i.op == 'call' and i.callee == 'sputc' and wf.const_of(i.ops[0]) is not None:
                        wmap[chr(wf.const_of(i.ops[0]))] = k_
                        break
    rmap = {}
    for b in range(len(rf.blocks)):
        t = rf.term(b)
        if t.op == 'switch' and rf.expr(t.ops[0]) == 'c':
            for cv, cb in t.cases:
                for c in rf.calls('block_state_set'):
                    k = rf.const_of(c.ops[1])
                    if k is not None and rf.bdominates(cb, c.block) and cb != t.default and not any(cb2 != cb and rf.bdominates(cb2, c.block) and rf.bdominates(cb, cb2) for _, cb2 in t.cases):
                        rmap.setdefault(chr(cv), set()).add(k)
    rep.rule('R-C10-2c', 'block-state tags: writer maps state K to tag X, reader maps tag X back to state K', 3)
    for x, k in sorted(wmap.items()):
        if x in rmap:
            rep.check(rmap[x] == {k}, 'R-C10-2c', "tag '%s'" % x, wf.file, 'writer: state %d -> %s ; reader: %s -> state %s' % (k, x, x, sorted(rmap[x])), function='state_read_content', construct='state tag %s' % x)
    # stripe-info flags: getter -> wire bit (writer), wire bit -> info_make position (reader), position -> internal bit (info_make),
    # getter -> internal bit: the four maps must compose to the identity
    from ..guards import guards_of
    rep.rule('R-C10-2i', 'stripe-info flags (bad / rehash / just-synced) keep their meaning across save and load', 3)
    getters = {}
    for gname in ('info_get_bad', 'info_get_rehash', 'info_get_justsynced'):
        gfn = P.fn(gname)
        ks = [gfn.const_of(i.ops[1]) for i in gfn.all_insts() if i.op == 'and' and gfn.const_of(i.ops[1]) is not None]
        getters[gname] = ks[0] if len(ks) == 1 else None
    im = P.fn('info_make')
    pos_bit = {}
    for i in im.all_insts():
        if i.op == 'or' and im.const_of(i.ops[1]) is not None:
            for a, p_ in guards_of(im, i):
                for k, arg in enumerate(im.args):
                    if a == arg['name'] and p_:
                        pos_bit[k] = im.const_of(i.ops[1])
    wire_w = {}
    for i in wf.all_insts():
        if i.op == 'or' and wf.const_of(i.ops[1]) is not None and wf.expr(i.ops[0]) == 'flag':
            for a, p_ in guards_of(wf, i):
                for gname in getters:
                    if a.startswith(gname + '(') and p_:
                        wire_w[gname] = wf.const_of(i.ops[1])
    wire_r = {}
    for i in rf.all_insts():
        if i.op == 'store':
            dst = rf.expr(i.ops[1])
            v = rf.expr(i.ops[0]).replace(' ', '')
            m_ = __import__('re').match(r'^\(\(flag&(\d+)\)!=0\)$', v)
            if m_ and dst.startswith('&'):
                wire_r[dst[1:]] = int(m_.group(1))
    mk = [c for c in rf.calls('info_make')]
    reader_pos = {}
    if len(mk) == 1:
        for k, o in enumerate(mk[0].ops):
            e = rf.expr(o)
            if e in wire_r:
                reader_pos[wire_r[e]] = k
    for gname in sorted(getters):
        wb = wire_w.get(gname)
        pos = reader_pos.get(wb)
        ib = pos_bit.get(pos)
        ok = getters[gname] is not None and wb is not None and pos is not None and ib == getters[gname]
        rep.check(ok, 'R-C10-2i', '%s: internal bit %s -> wire bit %s -> info_make arg %s -> internal bit %s' % (gname, getters[gname], wb, pos, ib), wf.file, '', function='state_read_content', construct='info flag %s' % gname)
    for t in pruned:
        rep.notes.append('writer switch at %s treated as exhaustive (link kind invariant checked)' % t.loc())
    # integer codecs: decided semantically by the interpreted round trip R-C10-3r (no constant-shape rule)
    # which disks and blocks get saved is decided through searches in the extent trees (fs_is_empty, fs_par2block...)
    from .. import comparators
    comparators.tree_rules(P, rep, 'R-C10-5')
    rep.extra['writer_sequences'] = sum(len(v) for v in wg.values())
    rep.extra['reader_sequences'] = sum(len(v) for v in rg.values())
    rep.extra['member_pairs'] = npairs
    run_closure_rule(P, rep)
    nsec_decode_rule(P, rep)
    run_expansion_rule(P, rep)
    primitive_roundtrip_rule(P, rep)
    info_roundtrip_rule(P, rep)
    from .C07 import past_hash_cleared_rule
    past_hash_cleared_rule(P, rep, 'R-C10-7')
    empty_disk_rule(P, rep)
    empty_disk_search_rule(P, rep, 'R-C10-8s')
    info_oldest_rule(P, rep, 'R-C10-6o')
    split_count_capacity_rule(P, rep, 'R-C10-2b')
    from .carried import level_loop_index_rule
    level_loop_index_rule(P, rep, 'R-C10-9')


# written member -> restored member, when the two sides legitimately use different names
ALIASES = set()


# ---------------------------------------------------------------------------------------------------------------
# R-C10-4: run-length closure.  A value the writer emits once per run must be constant over the run, i.e. the
# loop that extends the run has to compare it between the first element and each further element.

SPUT = {'sputc', 'sputb32', 'sputb64', 'sputbs', 'swrite', 'sputble32'}


def run_closure_rule(P, rep, rid='R-C10-4'):
    f = P.fn('state_write_thread')
    rep.rule(rid, 'run-length closure in the writer: every value (or tag choice) emitted once per run derives from the first element only through getters that the run-extension loop compares between the first and each further element', 3)

    def alloca_of(o):
        i = f.inst_of(o)
        return i if i is not None and i.op == 'alloca' else None

    def stores_to(al, blocks):
        return [u for u in f.users.get(al.id, ()) if u.op == 'store' and u.block in blocks and f.strip(u.ops[1]) == ['i', al.id]]

    n = 0
    for h, body in sorted(f.loops.items()):
        st = [i for i in f.all_insts() if i.block in body and i.op == 'store']
        calls = [i for i in f.all_insts() if i.block in body and i.op == 'call' and i.callee and not i.callee.startswith('llvm.')]
        tg = {f.expr(s.ops[1]) for s in st}
        if len(tg) != 1 or any(c.callee in SPUT for c in calls) or not calls:
            continue
        end_al = alloca_of(st[0].ops[1])
        if end_al is None:
            continue
        inc = f.inst_of(st[0].ops[0])
        if not (inc is not None and inc.op == 'add' and f.const_of(inc.ops[1]) == 1):
            continue
        # enclosing loop
        outs = [hh for hh, bb in f.loops.items() if hh != h and body < bb]
        if not outs:
            continue
        oh = min(outs, key=lambda hh: len(f.loops[hh]))
        obody = f.loops[oh]
        inner = set()
        for hh, bb in f.loops.items():
            if hh != oh and bb < obody:
                inner |= bb
        runlevel = obody - inner
        # begin variable: `end = begin + 1` before the run loop
        begin_al = None
        for s in stores_to(end_al, runlevel):
            v = f.inst_of(s.ops[0])
            if v is not None and v.op == 'add' and f.const_of(v.ops[1]) == 1:
                l = f.inst_of(v.ops[0])
                if l is not None and l.op == 'load':
                    begin_al = alloca_of(l.ops[0])
        if begin_al is None or begin_al.id == end_al.id:
            continue
        n += 1

        def sig(o, depth=0):
            """canonical form with begin/end both written IDX and single-assignment locals expanded"""
            o = f.strip(o)
            if depth > 12:
                return '?'
            if o[0] != 'i':
                return f.expr(o)
            i = f.insts[o[1]]
            if i.op == 'load':
                al = alloca_of(i.ops[0])
                if al is not None:
                    if al.id in (begin_al.id, end_al.id):
                        return 'IDX'
                    ss = stores_to(al, runlevel)
                    if len(ss) == 1:
                        return sig(ss[0].ops[0], depth + 1)
                return f.expr(o)
            if i.op == 'call' and i.callee:
                return '%s(%s)' % (i.callee, ','.join(sig(a, depth + 1) for a in i.ops[:i.nargs if i.nargs is not None else len(i.ops)]))
            if i.op in ('add', 'sub', 'and', 'or', 'xor', 'mul', 'icmp', 'select', 'getelementptr', 'phi'):
                return '%s(%s)' % (i.op, ','.join(sig(a, depth + 1) for a in i.ops))
            return f.expr(o)

        def slice_calls(o, seen, blocks_for_stores):
            """calls in the backward slice of operand o (through locals assigned at run level)"""
            o = f.strip(o)
            res = []
            if o[0] != 'i' or o[1] in seen:
                return res
            seen.add(o[1])
            i = f.insts[o[1]]
            if i.op == 'load':
                al = alloca_of(i.ops[0])
                if al is not None and al.id not in (begin_al.id, end_al.id):
                    for s in stores_to(al, blocks_for_stores):
                        res += slice_calls(s.ops[0], seen, blocks_for_stores)
                elif al is None:
                    res += slice_calls(i.ops[0], seen, blocks_for_stores)
                return res
            if i.op == 'call':
                res.append(i)
            for a in i.ops:
                res += slice_calls(a, seen, blocks_for_stores)
            return res

        def depends_on(c, al):
            seen = set()
            def go(o):
                o = f.strip(o)
                if o[0] != 'i' or o[1] in seen:
                    return False
                seen.add(o[1])
                i = f.insts[o[1]]
                if i.op == 'load':
                    a2 = alloca_of(i.ops[0])
                    if a2 is not None:
                        if a2.id == al.id:
                            return True
                        if a2.id in (begin_al.id, end_al.id):
                            return False
                        return any(go(s.ops[0]) for s in stores_to(a2, runlevel))
                    return go(i.ops[0])
                return any(go(a) for a in i.ops)
            return any(go(a) for a in c.ops)

        # K: canonical forms of the values compared (eq/ne) between the first element and element `end` on every
        # iteration of the run loop, the unequal outcome leaving the loop
        latch = st[0].block
        def strip_offset(o):
            """v + (end - begin)  ->  v"""
            i = f.inst_of(o)
            if i is not None and i.op == 'add':
                j = f.inst_of(i.ops[1])
                if j is not None and j.op == 'sub' and sig(j.ops[0]) == 'IDX' and sig(j.ops[1]) == 'IDX':
                    return i.ops[0]
            return o
        def uses_var(o, al, seen=None):
            seen = set() if seen is None else seen
            o = f.strip(o)
            if o[0] != 'i' or o[1] in seen:
                return False
            seen.add(o[1])
            i = f.insts[o[1]]
            if i.op == 'load':
                a2 = alloca_of(i.ops[0])
                if a2 is not None:
                    if a2.id == al.id:
                        return True
                    if a2.id in (begin_al.id, end_al.id):
                        return False
                    return any(uses_var(s_.ops[0], al, seen) for s_ in stores_to(a2, runlevel))
                return uses_var(i.ops[0], al, seen)
            return any(uses_var(a_, al, seen) for a_ in i.ops)
        K = set()
        for ic in f.all_insts():
            if ic.block not in body or ic.op != 'icmp' or ic.pred not in ('eq', 'ne'):
                continue
            x, y = strip_offset(ic.ops[0]), strip_offset(ic.ops[1])
            if sig(x) != sig(y) or 'IDX' not in sig(x):
                continue
            if not ((uses_var(x, begin_al) and uses_var(y, end_al)) or (uses_var(y, begin_al) and uses_var(x, end_al))):
                continue
            # evaluated on every iteration, and the unequal outcome leaves the loop
            leaves = False
            # follow the boolean through negations: (value id, "true means equal")
            work = [(ic.id, ic.pred == 'eq')]
            seen_v = set()
            while work:
                vid, true_is_eq = work.pop()
                if vid in seen_v:
                    continue
                seen_v.add(vid)
                vblock = f.insts[vid].block
                for u in f.users.get(vid, ()):
                    if u.op == 'xor' and f.const_of(u.ops[1]) in (1, -1):
                        work.append((u.id, not true_is_eq))
                    elif u.op in ('zext', 'sext', 'trunc', 'freeze'):
                        work.append((u.id, true_is_eq))
                    elif u.op == 'icmp' and f.const_of(u.ops[1]) == 0 and u.pred in ('ne', 'eq'):
                        work.append((u.id, true_is_eq if u.pred == 'ne' else not true_is_eq))
                    elif u.op == 'br' and len(u.ops) == 3 and f.bdominates(vblock, latch):
                        uneq = u.ops[1][1] if true_is_eq else u.ops[2][1]
                        leaves = leaves or uneq not in body
                    elif u.op == 'phi' and f.bdominates(u.block, latch) and true_is_eq:
                        # short-circuit `a && x == y`: the other incoming values are the constant false
                        others = [o_ for o_ in u.ops if f.strip(o_) != ['i', vid]]
                        if all(f.const_of(o_) == 0 for o_ in others):
                            for u2 in f.users.get(u.id, ()):
                                if u2.op == 'br' and len(u2.ops) == 3 and u2.ops[1][1] not in body and u2.ops[2][1] in body:
                                    leaves = True
            if leaves:
                K.add(sig(x))
        # emission check
        viol = []

        def visit(o, passed, seen, why):
            o = f.strip(o)
            if o[0] != 'i' or (o[1], passed) in seen:
                return
            seen.add((o[1], passed))
            i = f.insts[o[1]]
            if sig(o) in K:
                return
            if i.op == 'call':
                for a in i.ops:
                    visit(a, i, seen, why)
                return
            if i.op == 'load':
                al = alloca_of(i.ops[0])
                if al is not None:
                    if al.id == begin_al.id:
                        if passed is not None:
                            viol.append('%s depends on %s of the first element, which the run-extension loop does not compare' % (why, f.expr(['i', passed.id])))
                        return
                    if al.id == end_al.id:
                        return
                    for s in stores_to(al, runlevel):
                        visit(s.ops[0], passed, seen, why)
                    return
                visit(i.ops[0], passed, seen, why)
                return
            for a in i.ops:
                visit(a, passed, seen, why)

        nem = 0
        for b in sorted(runlevel):
            for i in f.blocks[b]:
                if i.op == 'call' and i.callee in SPUT:
                    nem += 1
                    for a in i.ops[:i.nargs if i.nargs is not None else len(i.ops)]:
                        visit(a, None, set(), '%s(%s) at line %s' % (i.callee, f.expr(a), i.line))
            t = f.term(b)
            if t.op in ('br', 'switch') and len(t.ops) >= 1 and (t.op == 'switch' or len(t.ops) == 3) and b != oh:
                visit(t.ops[0], None, set(), 'the choice made at line %s (%s)' % (t.line, f.expr(t.ops[0])))
        keys = sorted(K)
        rep.check(not viol and bool(K) and nem >= 1, rid, 'run loop at line %s (index %s..%s)' % (f.blocks[h][0].line, begin_al.var, end_al.var), f.blocks[h][0].loc(),
                  'compared keys: %s; %d run-level emissions' % (keys, nem) if not viol else viol[0], function='state_write_thread', construct='run closure %s' % '/'.join(keys or ['?']))
    if n < 3:
        raise AnalysisBroken('state_write_thread: expected three run-length loops, recognised %d' % n)


def run_expansion_rule(P, rep, rid='R-C10-4r'):
    """reader side of a run: the decoded value is applied to every position of the run -- the store inside the per-position
    loop is executed on every iteration (it is not control dependent on any test made inside the loop)"""
    f = P.fn('state_read_content')
    rep.rule(rid, 'reader: inside each run loop the per-position store (fs_allocate) is unconditional for the iteration', 2)
    n = 0
    for callee in ('fs_allocate',):      # info_set: decided semantically by the round trip R-C10-6
        for c in f.calls(callee):
            h = f.loop_of(c.block)
            if h is None:
                continue
            body = f.loops[h]
            # loops that consume a run count: a local is decremented in the body
            dec = [i for i in f.all_insts() if i.block in body and i.op == 'store' and f.inst_of(i.ops[0]) is not None and f.inst_of(i.ops[0]).op == 'add' and f.const_of(f.inst_of(i.ops[0]).ops[1]) == -1]
            if not dec:
                continue
            cond = []
            for b in body:
                if b == h or b == c.block:
                    continue
                t = f.term(b)
                if t.op in ('br', 'switch') and ((t.op == 'br' and len(t.ops) == 3) or t.op == 'switch') and f.bdominates(b, c.block):
                    outs = [s_ for s_ in f.succ[b]]
                    # control dependent: some successor cannot reach the call within the iteration
                    reachers = [s_ for s_ in outs if c.id in f.reach([f.blocks[s_][0]], stop={f.blocks[h][0].id}, include_start=True)]
                    if len(reachers) != len(outs):
                        # branches whose other side cannot return (decoding errors abort) do not count
                        from .C09 import dead_blocks
                        dead = dead_blocks(f)
                        if all(s_ in dead for s_ in outs if s_ not in reachers):
                            continue
                        cond.append(f.expr(t.ops[0]))
            n += 1
            rep.check(not cond, rid, '%s at line %s runs for every position of the run' % (callee, c.line), c.loc(), 'unconditional' if not cond else 'executed only when %s' % cond, function='state_read_content', construct='%s unconditional' % callee)
    if n < 2:
        raise AnalysisBroken('state_read_content: run loops of the reader not recognised (%d stores)' % n)


def primitive_roundtrip_rule(P, rep, rid='R-C10-3r'):
    """integer codecs of the content file: the reader primitive applied to the bytes produced by the writer primitive gives the
    value back, for every boundary of the 7-bit groups (finite-domain interpretation of both functions; swrite is replaced by a
    byte sink and the stream buffer by the captured bytes)"""
    from .. import region as RG
    lay = P.distructs.get('stream')
    if not lay:
        raise AnalysisBroken('struct stream not found')
    off = {m['name']: m['off'] for m in lay['members']}
    rep.rule(rid, 'sget*(sput*(v)) == v and consumes exactly the bytes written, for every 7-bit group boundary of 32/64-bit values and for the LE32 codec', 60)
    def vals(bits):
        vs = {0, 1, (1 << bits) - 1, (1 << bits) - 2, 1 << (bits - 1)}
        for k in range(7, bits, 7):
            vs |= {(1 << k) - 1, 1 << k, (1 << k) + 1}
        return sorted(v for v in vs if 0 <= v < (1 << bits))
    for put, get, bits in (('sputb32', 'sgetb32', 32), ('sputb64', 'sgetb64', 64), ('sputble32', 'sgetble32', 32)):
        pf, gf_ = P.fn(put), P.fn(get)
        rep.analysed(pf, gf_)
        for v in vals(bits):
            out = []
            def ext(ins, args):
                if ins.callee == 'swrite':
                    p_, n_ = args[0], args[1]
                    for k in range(n_):
                        out.append(R.mem[(p_.reg, p_.off + k)] & 0xff)
                    return (0,)
                if ins.callee == 'sgetc_uncached':
                    return (0xffffffff,)
                if ins.callee == 'sread':
                    sp, dp, n_ = args
                    pos = R.mem[(sp.reg, off['pos'])]
                    for k in range(n_):
                        R.mem[(dp.reg, dp.off + k)] = R.mem[(pos.reg, pos.off + k)]
                    R.mem[(sp.reg, off['pos'])] = RG.P_(pos.reg, pos.off + n_)
                    return (0,)
                if ins.callee and ins.callee.startswith('crc32c'):
                    return (0,)
                return None
            try:
                R = RG.Region(P, extern=ext)
                sp = RG.P_(('obj', 'wstream'), 0)
                wb = R.array('wbuf', [0] * 32, 1)
                R.mem[(sp.reg, off['pos'])] = wb; R.mem[(sp.reg, off['end'])] = RG.P_(wb.reg, 32); R.mem[(sp.reg, off['crc_stream'])] = 0
                R.run(pf, 0, [v, sp])
                if not out:
                    # byte-at-a-time writers (sputc) leave the bytes in the stream buffer
                    endp = R.mem[(sp.reg, off['pos'])]
                    out.extend(R.mem[(wb.reg, k)] & 0xff for k in range(endp.off))
                data = list(out)
                R = RG.Region(P, extern=ext)
                rp = RG.P_(('obj', 'rstream'), 0)
                rb = R.array('rbuf', data + [0x55], 1)
                R.mem[(rp.reg, off['pos'])] = rb; R.mem[(rp.reg, off['end'])] = RG.P_(rb.reg, len(data))
                res = R.array('value', [0] * 8, 1) if False else RG.P_(('obj', 'value'), 0)
                rv = R.run(gf_, 0, [rp, res])
                got = R.mem.get((res.reg, 0))
                used = R.mem[(rp.reg, off['pos'])].off
            except (RG.Unsupported, RG.OutOfBounds) as e:
                raise AnalysisBroken('cannot interpret %s/%s: %s' % (put, get, e))
            # the documented byte format (independent model): 7-bit groups, least significant first, the last byte carries 0x80
            if put == 'sputble32':
                exp = [(v >> (8 * k)) & 0xff for k in range(4)]
            else:
                exp = []; x = v
                while True:
                    g7 = x & 0x7f; x >>= 7
                    if x:
                        exp.append(g7)
                    else:
                        exp.append(g7 | 0x80)
                        break
            ok = RG.signed(rv & 0xffffffff, 32) == 0 and got == v and used == len(data) and data == exp
            rep.check(ok, rid, '%s/%s value 0x%x' % (put, get, v), pf.file, '%d bytes' % len(data) if ok else 'written %s (format says %s), read back %s (status %s, consumed %d of %d bytes)' % (data, exp, got, rv, used, len(data)), function=get, construct='round trip %s' % put)


def info_roundtrip_rule(P, rep, rid='R-C10-6'):
    """the per-stripe info record ('i'): the region of the writer that emits it and the region of the reader that decodes it are
    interpreted back to back (the integers the writer hands to sputb32 are the integers the reader gets from sgetb32) over every
    info array of length <= 4 drawn from a palette covering no-info, every flag, equal neighbours (run-length), and times at /
    between / beyond the oldest and present time.  Expected: every position gets its info word back, times clipped to
    [oldest, now] as documented."""
    from .. import region as RG
    from ..guards import guards_of
    import itertools
    rep.rule(rid, 'info record round trip through the writer and reader regions: every position gets back its flags and its time (clipped to [oldest, now]) for all arrays of length <= 4 over a 5-value palette', 1000)
    wf = P.fn('state_write_thread'); rf = P.fn('state_read_content')
    # functions the model replaces by name: if one was renamed the model would silently run the real body on empty objects
    for nm in ('fs_info_is_required', 'info_get', 'info_set', 'sgetb32', 'sputb32'):
        if not P.has(nm):
            raise AnalysisBroken('anchor function %s not found in program' % nm)
    mk = (P.variants('info_make') or [None])[0]
    if mk is None:
        raise AnalysisBroken('info_make not found')
    # ---- anchors
    wa = [c for c in wf.calls('sputc') if wf.const_of(c.ops[0]) == ord('i')]
    if len(wa) != 1:
        raise AnalysisBroken('writer: sputc(\'i\') anchor not found')
    wa = wa[0]
    ra = []
    for c in rf.calls('sgetb32'):
        gs = guards_of(rf, c)
        if any(a.replace(' ', '') == '(c==%d)' % ord('i') and p for a, p in gs):
            ra.append(c)
    if not ra:
        raise AnalysisBroken('reader: branch of the \'i\' record not found')
    ra = min(ra, key=lambda c: (c.line, c.id))
    sl = P.distructs.get('snapraid_state')
    o_prev = [m['off'] for m in sl['members'] if m['name'] == 'prevhash'][0] if sl else None
    if o_prev is None:
        raise AnalysisBroken('state->prevhash not found')

    class Abort(Exception):
        pass

    def alloca_behind(f, o):
        i = f.inst_of(o)
        while i is not None and i.op in ('load', 'zext', 'sext', 'trunc', 'bitcast'):
            j = f.inst_of(i.ops[0])
            if i.op == 'load' and j is not None and j.op == 'alloca':
                return j
            i = j
        return None

    def run_writer(infos, oldest, now, roles):
        out = []
        def ext(ins, args):
            c = ins.callee
            if c == 'info_get':
                pos = args[1]
                return (infos[pos] if pos < len(infos) else 0,)
            if c == 'sputb32':
                out.append(args[0] & 0xffffffff); return (0,)
            if c == 'sputc':
                out.append(('c', args[0] & 0xff)); return (0,)
            if c == 'serror':
                return (0,)
            if c in ('log_fatal', 'log_tag'):
                return (0,)
            return None
        R = RG.Region(P, extern=ext)
        R.discover = []
        for aid, v in roles.items():
            pl = R.local_by_id(wf, aid); R.mem[(pl.reg, 0)] = v
        try:
            R.run(wf, wa.block, stop=lambda ins: ins.callee not in ('info_get', 'sputb32', 'sputc', 'serror', 'log_fatal', 'log_tag') and not (P.functions.get(ins.callee_full) is not None and not P.functions[ins.callee_full].decl and (ins.callee or '').startswith('info_')), start_idx=wa.idx)
        except RG.Stop:
            pass
        return out, R
    # ---- discover the writer's inputs by role
    sp = [c for c in wf.calls('sputb32') if c.id in wf.reach([wa])]
    first_put = min(sp, key=lambda c: (c.block != wa.block, c.line, c.id))
    a_old = alloca_behind(wf, first_put.ops[0])
    if a_old is None:
        raise AnalysisBroken('writer: the base time written after the tag is not a local')
    probe_infos = [RG.Region(P).run(mk, 0, [24, 0, 0, 0])] * 2
    found = {}
    for _ in range(3):
        roles_ = {a_old.id: 16}
        for aid, ty in found.items():
            roles_[aid] = 2 if ty == 'i32' else 20
        _, Rp = run_writer(probe_infos, 16, 40, roles_)
        for aid, o_, ty in Rp.discover:
            if aid != a_old.id and ty in ('i32', 'i64'):
                found[aid] = ty
    ins32 = sorted(aid for aid, ty in found.items() if ty == 'i32')
    ins64 = sorted(aid for aid, ty in found.items() if ty == 'i64')
    if len(ins32) != 1 or len(ins64) != 1:
        raise AnalysisBroken('writer: inputs of the info region not identified (32-bit %s, 64-bit %s)' % (ins32, ins64))
    a_bm, a_now = ins32[0], ins64[0]

    def run_reader(nums, n, required=None):
        q = list(nums)
        got = {}
        def ext(ins, args):
            c = ins.callee
            if c == 'sgetb32':
                if not q:
                    return (0xffffffff,)
                v = q.pop(0)
                R.mem[(args[1].reg, args[1].off)] = v
                return (0,)
            if c == 'info_set':
                got[args[1]] = args[2] & 0xffffffff; return (0,)
            if c == 'fs_info_is_required':
                # a position needs an info exactly when some disk has a block there: in the model, when the array has one
                return (1 if (required is None or (args[1] < len(required) and required[args[1]])) else 0,)
            if c in ('decoding_error', 'log_fatal'):
                return (0,)
            if c == 'os_abort':
                raise Abort()
            return None
        R = RG.Region(P, extern=ext)
        R.discover = []
        stp = RG.P_(('obj', 'state'), 0); R.zero_regions.add(stp.reg); R.mem[(stp.reg, o_prev)] = 1
        pth = RG.P_(('str', 'path'), 0); R.mem[(pth.reg, 0)] = 0
        fp = RG.P_(('obj', 'stream'), 0); R.zero_regions.add(fp.reg)
        for aid, v in reader_roles.items():
            pl = R.local_by_id(rf, aid); R.mem[(pl.reg, 0)] = v(n) if callable(v) else v
        try:
            R.run(rf, ra.block, [stp, pth, fp], stop=lambda ins: ins.callee not in ('sgetb32', 'info_set', 'fs_info_is_required', 'decoding_error', 'log_fatal', 'os_abort') and not ((ins.callee or '').startswith('info_')), start_idx=ra.idx)
        except RG.Stop:
            pass
        except Abort:
            return None, R
        return got, R
    reader_roles = {}
    _, Rq = run_reader([16, 2, 1, 8], 2)
    r32 = sorted({aid for aid, o_, ty in Rq.discover if ty == 'i32'})
    if len(r32) != 1:
        raise AnalysisBroken('reader: the block count local of the info branch was not identified (%s)' % r32)
    reader_roles = {r32[0]: (lambda n: n)}

    OLD = 16
    palette = [None, (16, 0, 0, 0), (24, 1, 0, 0), (24, 0, 1, 1), (40, 0, 0, 1)]
    words = {p: (0 if p is None else RG.Region(P).run(mk, 0, list(p))) for p in palette}
    bad = None
    nrun = 0
    for n in range(1, 5):
        for arr in itertools.product(palette, repeat=n):
            if all(a is None for a in arr):
                continue
            for now in (24, 40):
                nrun += 1
                infos = [words[a] for a in arr]
                out, _ = run_writer(infos, OLD, now, {a_old.id: OLD, a_bm: n, a_now: now})
                nums = [x for x in out if not isinstance(x, tuple)]
                tags = [x for x in out if isinstance(x, tuple)]
                if not tags or tags[0] != ('c', ord('i')):
                    raise AnalysisBroken('writer region did not start with the record tag')
                want = {}
                for pos, a in enumerate(arr):
                    if a is None:
                        want[pos] = 0
                    else:
                        t = max(min(a[0], now), OLD)
                        want[pos] = RG.Region(P).run(mk, 0, [t, a[1], a[2], a[3]]) & 0xffffffff
                # two models of "which positions need an info": every position that has one (synced stripes), and none
                # (stripes whose blocks are all pending still carry their info and must keep it)
                for required in ([a is not None for a in arr], [False] * n):
                    got, _ = run_reader(nums, n, required)
                    # a position never passed to info_set keeps the array default 0
                    if got is None or any((got.get(pos) or 0) != want[pos] for pos in range(n)):
                        if bad is None:
                            bad = 'stripes %s (time, bad, rehash, justsynced; oldest %d, now %d; info required at %s): written as %s, read back as %s, expected %s' % (
                                [a for a in arr], OLD, now, required, nums, 'a decoding error' if got is None else [got.get(p_) or 0 for p_ in range(n)], [want[p_] for p_ in range(n)])
                if bad is not None:
                    pass
                elif bad is None:
                    rep.ok(rid, '%s now %d' % (arr, now))
    if bad:
        rep.fail(rid, 'info record round trip', wf.file, bad, function='state_write_thread', construct='info round trip')
    rep.extra['info_roundtrips'] = nrun


def empty_disk_rule(P, rep, rid='R-C10-8'):
    """a disk is left out of the saved state only when it is empty.  The writer emits a record for every element of the disk's
    collections (files, links, empty directories); the emptiness predicate must therefore test each of those collections for being
    empty -- sibling agreement between the writer's loops and fs_is_empty.  A collection the predicate forgets is silently dropped."""
    import re as _re
    rep.rule(rid, 'fs_is_empty tests every disk collection (disk->*list) that the content writer iterates: a disk holding only links or only empty directories is saved', 3)
    w = P.fn('state_write_thread') if P.has('state_write_thread') else P.fn('state_write_content')
    e = P.fn('fs_is_empty')
    rep.analysed(w); rep.analysed(e)

    from ..grammar import qual_member

    def coll_of(f, o):
        q = qual_member(f, o)
        return q.split('.', 1)[1] if q and q.startswith('snapraid_disk.') and q.endswith('list') else None

    def colls(f):
        ms = {}
        for i in f.all_insts():
            if i.op in ('load', 'getelementptr'):
                k = coll_of(f, ['i', i.id])
                if k:
                    ms.setdefault(k, i)
        return ms
    wc = colls(w)
    # tested = the member whose emptiness decides a return 0 in fs_is_empty: argument of tommy_list_empty whose result is branched on
    tested = {}
    for c in e.calls('tommy_list_empty'):
        k = coll_of(e, c.ops[0])
        if k and any(u.op in ('icmp', 'br') for u in e.users.get(c.id, ())):
            tested[k] = c
    if not tested:
        # any other way of looking at the collections (head pointer, count)
        tested = colls(e)
    if len(wc) < 3:
        raise AnalysisBroken('content writer: disk collections not recognised (%s)' % sorted(wc))
    for k in sorted(wc):
        rep.check(k in tested, rid, 'fs_is_empty looks at disk->%s' % k, (tested[k] if k in tested else wc[k]).loc(),
                  'tested before a disk is declared empty' if k in tested else 'the writer saves the elements of disk->%s but fs_is_empty ignores that collection: a disk that holds only such elements loses its mapping and all of them at the next save' % k,
                  function='fs_is_empty', construct='disk->%s' % k)


def empty_disk_search_rule(P, rep, rid):
    """second half of fs_is_empty: with no files, links or directories left a disk is still not empty while an extent (of deleted
    blocks) begins below blockmax -- those blocks must be saved, the next sync still has to remove them from the parity.  The search
    comparator is interpreted over blockmax 0..5 x extents [pos, pos+count): it must answer "found" (0) exactly when pos < blockmax
    and otherwise steer the search to smaller positions (negative)."""
    from .. import comparators as CM
    f = P.fn('fs_is_empty')
    rep.analysed(f)
    rep.rule(rid, 'fs_is_empty: the extent search reports an extent iff it begins below blockmax (blockmax 0..5 x position 0..5 x count 1..3), else searches towards smaller positions', 1)
    cs = list(f.calls('tommy_tree_search_compare'))
    if len(cs) != 1 or f.strip(cs[0].ops[1])[0] != 'f':
        raise AnalysisBroken('fs_is_empty: extent search not recognised')
    cf = f.strip(cs[0].ops[1])[1]
    g = P.fn(cf)
    rep.analysed(g)
    argstruct = None
    for i in g.all_insts():
        if i.op == 'alloca' and i.vty and 'struct' in i.vty and 'snapraid_extent' not in i.vty:
            argstruct = i.vty.replace('const ', '').replace('struct ', '').rstrip('*').strip()
    al = CM.field_offsets(P, argstruct) if argstruct else {}
    ol = CM.field_offsets(P, 'snapraid_extent')
    if len(al) != 1 or not ol:
        raise AnalysisBroken('fs_is_empty: argument struct of %s not recognised (%s)' % (cf, argstruct))
    key = list(al)[0]
    bad = None; n = 0
    for bm in range(0, 6):
        for pos in range(0, 6):
            for cnt in (1, 2, 3):
                try:
                    r, _ = CM.run_cmp(P, cf, {key: bm}, {'parity_pos': pos, 'count': cnt, 'file_pos': 0, 'file': 0}, al, ol)
                except (CM.KernelViolation, CM.Unsupported) as e:
                    raise AnalysisBroken('cannot interpret %s: %s' % (cf, e))
                n += 1
                ok = (r == 0) if pos < bm else (r < 0)
                if not ok and bad is None:
                    bad = 'blockmax %d, extent [%d,%d): comparator returns %d, expected %s -- a disk whose only content is a deleted extent reaching the end of the used range is declared empty, its DELETED blocks are dropped by the next save and the pending parity update is forgotten' % (bm, pos, pos + cnt, r, '0 (found)' if pos < bm else 'negative')
    rep.check(bad is None, rid, '%s: found iff the extent begins below blockmax' % cf, g.file, '%d evaluations' % n if bad is None else bad, function=cf, construct='empty search predicate')


def info_oldest_rule(P, rep, rid):
    """the writer stores every per-stripe time as an offset from the oldest time of the array, and clips a time below that base to
    the base.  The base is computed in state_write_content by a minimum search over the info words; interpreted (E10) over arrays of
    info words that include a word WITHOUT a time (a stripe marked bad before it was ever synced has flags and time 0): the base must
    not be above any real (non-zero) time of a required position -- otherwise every older stripe is saved, and reloaded, with a newer
    sync / scrub time than it had in memory (the age history that scrub plans and status reports is reset)."""
    from .. import region as RG
    import itertools
    f = P.fn('state_write_content')
    from .C05 import locate_in_helpers
    # the search loop may have been split out into a static helper: interpret it where it lives
    f = locate_in_helpers(P, f, lambda g_: any(True for _ in g_.calls('info_get')) and any(True for _ in g_.calls('fs_position_is_required'))) or f
    rep.analysed(f)
    rep.rule(rid, 'state_write_content: the base time of the info record is <= every non-zero time of the required positions (arrays of length <= 4 over times 0 / 16 / 24 / 40 with and without the bad flag)', 1)
    mk = (P.variants('info_make') or [None])[0]
    if mk is None:
        raise AnalysisBroken('info_make not found')
    gi = [c for c in f.calls('info_get')]
    if not gi:
        raise AnalysisBroken('state_write_content: info_get not found')
    h = f.loop_of(gi[0].block)
    if h is None:
        raise AnalysisBroken('state_write_content: the minimum search loop was not found')
    pre = [b for b in f.pred[h] if b != h and b not in f.loops[h]]
    if len(pre) != 1:
        raise AnalysisBroken('state_write_content: no single preheader')
    # the local that receives the minimum: the i64 local stored in the loop with a value derived from info_get_time / the info word
    cand = set()
    for i in f.all_insts():
        if i.op == 'store' and i.block in f.loops[h]:
            a = f.inst_of(i.ops[1])
            if a is not None and a.op == 'alloca' and a.id not in f.arg_allocas() and any(x[0] == 'call' and x[1].startswith('info_get') for x in f.value_sources(i.ops[0])):
                cand.add(a.id)
    stores_in_pre = {f.strip(i.ops[1])[1] for i in f.blocks[pre[0]] if i.op == 'store' and f.const_of(i.ops[0]) == 0 and f.inst_of(i.ops[1]) is not None and f.inst_of(i.ops[1]).op == 'alloca'}
    mins = [a for a in cand if a in stores_in_pre]
    if len(mins) != 1:
        raise AnalysisBroken('state_write_content: the base time local was not identified (%s)' % sorted(cand))
    a_min = mins[0]

    class Done(Exception):
        pass
    palette = [None, (0, 1), (16, 0), (24, 0), (24, 1), (40, 0)]
    words = {p: (0 if p is None else (RG.Region(P).run(mk, 0, [p[0], p[1], 0, 0]) & 0xffffffff)) for p in palette}
    bad = None; n = 0
    for ln in range(1, 5):
        for arr in itertools.product(palette, repeat=ln):
            if all(a is None for a in arr):
                continue
            infos = [words[a] for a in arr]
            def ext(ins, args):
                c = ins.callee
                if c == 'time':
                    return (1000,)
                if c == 'fs_position_is_required':
                    return (1 if args[1] < ln and arr[args[1]] is not None else 0,)
                if c == 'info_get':
                    return (infos[args[1]] if args[1] < ln else 0,)
                if c in ('info_set', 'fs_position_clear_deleted'):
                    return (0,)
                if P.functions.get(ins.callee_full) is not None and not P.functions[ins.callee_full].decl and (c or '').startswith('info_'):
                    return None
                raise Done()
            R = RG.Region(P, extern=ext)
            R.discover = []
            sp = RG.P_(('obj', 'state'), 0); R.zero_regions.add(sp.reg)
            try:
                R.set_local(f, 'state', sp)
                R.set_local(f, 'blockmax', ln)
            except Exception as e:
                raise AnalysisBroken('state_write_content: locals not found: %s' % e)
            try:
                k0 = [i.idx for i in f.blocks[pre[0]] if i.op == 'store' and f.strip(i.ops[1]) == ['i', a_min]][0]
                R.run(f, pre[0], [], start_idx=k0)
            except Done:
                pass
            except RG.Unsupported as e:
                raise AnalysisBroken('cannot interpret the base time search: %s' % e)
            n += 1
            got = R.mem.get((R.local_by_id(f, a_min).reg, 0), 0)
            real = [a[0] for a in arr if a is not None and a[0] != 0]
            if real and got > min(real) and bad is None:
                bad = 'stripes %s (time, bad): base time %d although a stripe has time %d: every stripe older than the base is saved with the base time -- its sync / scrub age is lost at the next save' % ([a for a in arr], got, min(real))
    rep.check(bad is None, rid, 'state_write_content: base time = oldest real time', f.blocks[h][0].loc(), '%d info arrays' % n if bad is None else bad, function='state_write_content', construct='oldest time search')


def split_count_capacity_rule(P, rep, rid):
    """the number of split files of a parity level is limited by the array that holds them (split_map[SPLIT_MAX]): the configuration
    accepts up to that many and the writer saves them, so the reader must accept exactly the counts 0..capacity.  The accepted
    maximum is read off the range check of the decoded count in the 'Q' record (comparison evaluated, not matched) and compared with
    the array length taken from the debug types: a stricter check makes a content file the tool wrote itself unreadable."""
    rc = P.fn('state_read_content')
    rep.analysed(rc)
    rep.rule(rid, "state_read_content: the decoded split count of the 'Q' record is accepted up to the capacity of split_map[] (not more, not less)", 1)
    dp = P.distructs.get('snapraid_parity'); ds = P.distructs.get('snapraid_split')
    if not dp or not ds:
        raise AnalysisBroken('layout of snapraid_parity not found')
    sm = [m for m in dp['members'] if m['name'] == 'split_map'][0]
    cap = (sm['bits'] // 8) // ds['size']
    from .C09 import dead_blocks
    dead = dead_blocks(rc)
    found = None
    for b in range(len(rc.blocks)):
        t = rc.term(b)
        if t.op != 'br' or len(t.ops) != 3:
            continue
        ci = rc.inst_of(t.ops[0])
        if ci is None or ci.op != 'icmp' or rc.const_of(ci.ops[1]) is None:
            continue
        if rc.xexpr(ci.ops[0]) != 'v_split_mac':
            continue
        k = rc.const_of(ci.ops[1])
        # values for which the branch goes to the side that cannot return (the rejection)
        rej_true = t.ops[2][1] in dead
        rej_false = t.ops[1][1] in dead
        if rej_true == rej_false:
            continue
        from .C17 import _icmp
        acc = [v for v in range(0, 2 * cap + 4) if _icmp(ci.pred, v, k) != rej_true]
        found = (t, max(acc) if acc else -1, min(acc) if acc else -1)
    if found is None:
        raise AnalysisBroken("state_read_content: range check of the decoded split count not found")
    t, hi, lo = found
    rep.check(hi == cap and lo == 0, rid, 'decoded split count accepted for 0..%d' % cap, t.loc(),
              'accepts %d..%d, split_map[] holds %d' % (lo, hi, cap) if hi == cap and lo == 0 else 'the reader accepts %d..%d but split_map[] holds %d entries and the configuration / writer use all of them: a content file written for %d split files passes its CRC and is then rejected by every command' % (lo, hi, cap, cap),
              function='state_read_content', construct='split count bound')


def nsec_decode_rule(P, rep, rid='R-C10-10'):
    """the sub-second part of a time-stamp is saved as value + 1 with 0 for "unknown" (STAT_NSEC_INVALID): in the reader, the
    variable that reaches the constructor is set to -1 exactly when the decoded field is 0 and decremented exactly otherwise --
    no other test of the field may decide between the two stores (999 999 999 is saved as 1 000 000 000 and must come back)."""
    from ..guards import guards_of
    rep.rule(rid, 'state_read_content: the decoded sub-second field becomes STAT_NSEC_INVALID under the single test "field == 0" and field - 1 under its negation; no other condition on the field selects between them', 2)
    c = P.fn('state_read_content')
    rep.analysed(c)
    # the variable is found by role: the local whose value is handed to file_alloc as the sub-second time (argument 5)
    roles = []
    for fa_ in c.calls({'file_alloc'}):
        o = c.strip(fa_.ops[4])
        while o[0] == 'i' and c.insts[o[1]].op in ('zext', 'sext', 'trunc'):
            o = c.strip(c.insts[o[1]].ops[0])
        if o[0] == 'i' and c.insts[o[1]].op == 'load':
            a = c.strip(c.insts[o[1]].ops[0])
            if a[0] == 'i' and c.insts[a[1]].op == 'alloca' and a not in roles:
                roles.append(a)
    if not roles:
        raise AnalysisBroken('state_read_content: the local handed to file_alloc as sub-second time-stamp not found')
    inv = []; dec = []
    for bi in range(len(c.blocks)):
        for x in c.blocks[bi]:
            if x.op != 'store':
                continue
            dst = c.expr(x.ops[1]); src = c.expr(x.ops[0]).replace(' ', '')
            if c.strip(x.ops[1]) not in roles or not dst.startswith('&'):
                continue
            var = dst[1:]
            g = [(t.replace(' ', ''), p) for t, p in guards_of(c, x) if var in t]
            if src == '-1':
                inv.append((x, var, g))
            elif src in ('(%s+-1)' % var, '(%s-1)' % var, '(-1+%s)' % var):
                dec.append((x, var, g))
    if not inv or not dec:
        raise AnalysisBroken('state_read_content: decode of the sub-second time-stamp not found (%d invalid stores, %d decrements)' % (len(inv), len(dec)))
    zero_false = lambda var: {(var, False), ('%s!=0' % var, False), ('%s==0' % var, True)}
    zero_true = lambda var: {(var, True), ('%s!=0' % var, True), ('%s==0' % var, False)}
    for x, var, g in inv:
        ok = len(g) == 1 and g[0] in zero_false(var)
        rep.check(ok, rid, 'state_read_content: %s = STAT_NSEC_INVALID exactly when the saved field is 0' % var, x.loc(),
                  'conditions on the field: %s' % g + ('' if ok else ' -- a saved value other than 0 is decoded as "unknown" (or 0 is not): the time-stamp read back differs from the one saved'),
                  function='state_read_content', construct='invalid marker of %s' % var)
    for x, var, g in dec:
        ok = len(g) == 1 and g[0] in zero_true(var)
        rep.check(ok, rid, 'state_read_content: %s = field - 1 for every non-zero saved field' % var, x.loc(),
                  'conditions on the field: %s' % g + ('' if ok else ' -- some non-zero saved values are not decoded as value - 1'),
                  function='state_read_content', construct='decrement of %s' % var)
