"""C15 — scrub checks what its plan says and keeps honest books (bookkeeping clauses only)."""
from ..stripe import StripeLoop
from ..frontend import AnalysisBroken
from .. import effects
from .C09 import dead_blocks
from . import C04


def run(ctx, rep):
    P = ctx.prog
    rep.explanation = ('Decided: plan selection structure of block_is_enabled (unused never, bad always, full all, new = justsynced, bad plan = nothing else, auto = time limit + tie count); '
                       'marking/refresh typestate (shared with C04); scrub has no data or parity write effect; option validation. Percentages, ages and eventual coverage are arithmetic over run-time values: not decided.')
    rep.rule('R-C15-1', 'block_is_enabled: unused positions never selected; bad always selected before any plan test; plan constants map to the documented returns', 5)
    rep.rule('R-C15-2', 'marking typestate (R-C04-4) and unsynced rule (R-C04-3u)', 4)
    rep.rule('R-C15-3', 'scrub reaches no DATA / PARITY effect; parity opened read-only', 2)
    rep.rule('R-C15-4', 'plan/olderthan validation; times sorted before limits are derived', 2)
    # the scrub copy of block_is_enabled: the one that calls info_get_bad
    cands = [f for f in P.variants('block_is_enabled') if (f.file or '').endswith('scrub.c')]
    if len(cands) != 1:
        raise AnalysisBroken('scrub block_is_enabled not found')
    f = cands[0]
    rep.analysed(f)
    rets = {}   # stores into retval: (value expr, inst)
    st = [i for i in f.all_insts() if i.op == 'store' and f.expr(i.ops[1]) == '&retval']
    ig = list(f.calls('info_get'))
    ib = list(f.calls('info_get_bad'))
    # unused: first branch after info_get tests info == 0 and returns 0
    first = None
    for b in range(len(f.blocks)):
        t = f.term(b)
        if t.op == 'br' and len(t.ops) == 3 and f.expr(t.ops[0]) == '(info==0)':
            first = t
    ok = first is not None and ig and f.dominates(ig[0], first)
    if ok:
        zb = first.ops[2][1]
        zs = [s for s in st if s.block == zb]
        ok = len(zs) == 1 and f.const_of(zs[0].ops[0]) == 0 and all(f.dominates(first, s) for s in st)
    rep.check(ok, 'R-C15-1', 'unused positions (info == 0) return 0 before anything else', f.file, '', function='block_is_enabled', construct='unused')
    # bad: branch on info_get_bad returns 1 and dominates the plan switch
    sw = [f.term(b) for b in range(len(f.blocks)) if f.term(b).op == 'switch']
    okb = len(ib) == 1 and len(sw) == 1
    if okb:
        brs = C04.cond_branches_on_call(f, ib[0])
        okb = len(brs) == 1
        if okb:
            br, ci = brs[0]
            tb = br.ops[2][1] if ci.pred == 'ne' else br.ops[1][1]
            os_ = [s for s in st if s.block == tb]
            okb = len(os_) == 1 and f.const_of(os_[0].ops[0]) == 1 and f.dominates(br, sw[0])
    rep.check(okb, 'R-C15-1', 'bad stripes return 1 before the plan is consulted', f.file, '', function='block_is_enabled', construct='bad first')
    # plan mapping: constants recovered from state_scrub's if-chain (SCRUB_* are macros)
    s = P.fn('state_scrub')
    rep.analysed(s)
    # case -> returned expression
    cases = {}
    if sw:
        for cv, cb in sw[0].cases:
            vals = [f.expr(x.ops[0]) for x in st if x.block == cb]
            cases[cv] = vals[0] if vals else None
    # identify plan constants by their unique behaviours
    full = [k for k, v in cases.items() if v == '1']
    badp = [k for k, v in cases.items() if v == '0']
    newp = [k for k, v in cases.items() if v and 'info_get_justsynced' in v]
    rep.check(len(full) == 1 and len(badp) == 1 and len(newp) == 1, 'R-C15-1', 'plan switch: one plan returns 1 (full), one returns 0 (bad), one returns info_get_justsynced (new)', f.file, str(cases), function='block_is_enabled', construct='plan switch')
    # the plan constants are the ones main passes for -p full / bad / new
    # auto part: blocktime > timelimit -> 0 ; tie count
    conds = [f.expr(f.term(b).ops[0]) for b in range(len(f.blocks)) if f.term(b).op == 'br' and len(f.term(b).ops) == 3]
    rep.check(any('blocktime>plan->timelimit' in c.replace(' ', '') for c in conds) and any('plan->countlast>=plan->lastlimit' in c.replace(' ', '') for c in conds) and any('blocktime==plan->timelimit' in c.replace(' ', '') for c in conds),
              'R-C15-1', 'auto plan: rejects blocks newer than the time limit and counts ties against lastlimit', f.file, str([c for c in conds if 'plan->' in c]), function='block_is_enabled', construct='auto limits')
    tl = None
    for b in range(len(f.blocks)):
        t = f.term(b)
        if t.op == 'br' and len(t.ops) == 3 and 'blocktime>plan->timelimit' in f.expr(t.ops[0]).replace(' ', ''):
            zs = [x for x in st if x.block == t.ops[2][1]]
            tl = bool(zs) and f.const_of(zs[0].ops[0]) == 0
    rep.check(bool(tl), 'R-C15-1', 'auto plan: too-new block returns 0', f.file, '', function='block_is_enabled', construct='auto too new')

    # R-C15-2 shared with C04
    L = StripeLoop(P, 'state_scrub_process')
    g = L.f
    rep.analysed(g)
    fa = L.fa
    bad = list(g.calls('info_set_bad')); ref = list(g.calls('info_make'))
    rep.check(bool(bad) and all(all(t['silent_error_on_this_block'] == 1 or t['io_error_on_this_block'] == 1 for t in fa.at(b)) for b in bad), 'R-C15-2', 'bad mark only on silent or io error', bad[0].loc() if bad else g.file, '', function='state_scrub_process', construct='bad mark')
    rep.check(bool(ref) and all(all(t['silent_error_on_this_block'] == 0 and t['io_error_on_this_block'] == 0 and t['error_on_this_block'] == 0 for t in fa.at(r)) for r in ref), 'R-C15-2', 'refresh/clear only for stripes verified correct', ref[0].loc() if ref else g.file, '', function='state_scrub_process', construct='refresh')
    sil = L.flag_stores('silent_error_on_this_block', 1)
    oku = True
    for x in sil:
        for t in fa.at(x):
            if t.get('file_is_unsynced') not in (0,) and t.get('block_is_unsynced') not in (0,):
                oku = False
    rep.check(oku and len(sil) == 2, 'R-C15-2', 'differences of unsynced files/stripes are never recorded as silent errors', g.file, '', function='state_scrub_process', construct='unsynced not silent')
    # unsynced flags are set whenever a block has invalid parity or a different time-stamp
    us = L.flag_stores('file_is_unsynced', 1)
    conds = set()
    for x in us:
        b = x.block
        for p in g.pred[b]:
            t = g.term(p)
            if t.op == 'br' and len(t.ops) == 3:
                conds.add(g.expr(t.ops[0]))
    rep.check(any('block_has_invalid_parity' in c for c in conds) and any('is_timestamp_different' in c for c in conds), 'R-C15-2', 'file_is_unsynced set for invalid parity and for changed time-stamp', g.file, str(sorted(conds)), function='state_scrub_process', construct='unsynced sources')

    # a block with invalid parity but no file (DELETED) still makes the stripe unsynced: the invalid-parity test precedes the no-file skip
    rep.rule('R-C15-2d', 'in every stripe engine the invalid-parity test of a block precedes the skip of blocks without a file', 2)
    for fn2 in ('state_scrub_process', 'state_sync_process'):
        h = P.fn(fn2)
        ip = [c for c in h.calls('block_has_invalid_parity')]
        hf = [c for c in h.calls('block_has_file')]
        okd = bool(ip) and bool(hf) and any(h.dominates(a, hf[0]) for a in ip)
        rep.check(okd, 'R-C15-2d', '%s: block_has_invalid_parity is tested before the `no file` skip' % fn2, hf[0].loc() if hf else h.file, '', function=fn2, construct='invalid parity before skip')
    # R-C15-3 effects
    eff, seen, fns = effects.command_effects(P, 'state_scrub')
    bad_eff = set(eff) & {'DATA', 'PARITY', 'PARITY_CREATE', 'MTIME', 'MKDIR', 'POOL'}
    rep.check(not bad_eff, 'R-C15-3', 'state_scrub reaches no data/parity write effect', s.file, 'effects: %s' % sorted(eff), function='state_scrub', construct='effects')
    rep.check(any(True for _ in s.calls('parity_open')) and not any(True for _ in s.calls('parity_create')), 'R-C15-3', 'scrub opens parity with parity_open (read-only)', s.file, '', function='state_scrub', construct='parity_open')

    # R-C15-4
    ds = dead_blocks(s)
    first_exit = None
    for b in range(len(s.blocks)):
        t = s.term(b)
        if t.op == 'br' and len(t.ops) == 3 and 'olderthan' in s.expr(t.ops[0]) and (t.ops[2][1] in ds):
            first_exit = t
    rep.check(first_exit is not None, 'R-C15-4', 'plans bad/new/full reject -o', s.file, s.expr(first_exit.ops[0]) if first_exit else '', function='state_scrub', construct='olderthan validation')
    tls = [i for i in s.all_insts() if i.op == 'store' and s.expr(i.ops[1]).endswith('ps.timelimit') and s.const_of(i.ops[0]) is None]
    qs = list(s.calls('qsort'))
    rep.check(len(qs) == 1 and all(s.dominates(qs[0], t) for t in tls), 'R-C15-4', 'times sorted before limits are derived', s.file, '', function='state_scrub', construct='sort first')
