"""C15 — scrub checks what its plan says and keeps honest books (bookkeeping clauses only)."""
from ..stripe import StripeLoop
from ..frontend import AnalysisBroken
from .. import effects
from .C09 import dead_blocks
from . import C04
from .. import region
import itertools


def run(ctx, rep):
    P = ctx.prog
    rep.explanation = ('Decided: plan selection structure of block_is_enabled (unused never, bad always, full all, new = justsynced, bad plan = nothing else, auto = time limit + tie count); '
                       'marking/refresh typestate (shared with C04); scrub has no data or parity write effect; option validation. Percentages, ages and eventual coverage are arithmetic over run-time values: not decided.')
    rep.rule('R-C15-1', 'block_is_enabled over its finite domain (plan named on the command line x every info word class): unused never; bad always; -p full all; -p bad nothing else; -p new exactly the just-synced', 37)
    rep.rule('R-C15-2', 'marking typestate (R-C04-4) and unsynced rule (R-C04-3u)', 4)
    rep.rule('R-C15-3', 'scrub reaches no DATA / PARITY effect; parity opened read-only', 2)
    rep.rule('R-C15-4', 'plan/olderthan validation; times sorted before limits are derived', 2)
    # the scrub copy of block_is_enabled: the one that calls info_get_bad
    cands = [f for f in P.variants('block_is_enabled') if (f.file or '').endswith('scrub.c')]
    if len(cands) != 1:
        raise AnalysisBroken('scrub block_is_enabled not found')
    f = cands[0]
    rep.analysed(f)
    s = P.fn('state_scrub')
    rep.analysed(s)
    # plan constants as the command line names them (main: strcmp(optarg, "bad"|"new"|"full") -> plan = K)
    m_ = P.fn('main')
    pv = {}
    for c_ in m_.calls('strcmp'):
        nm = m_.expr(c_.ops[1]).strip('"')
        if nm not in ('bad', 'new', 'full'):
            continue
        for u in m_.users.get(c_.id, ()):
            if u.op == 'icmp':
                for br in m_.users.get(u.id, ()):
                    if br.op == 'br' and len(br.ops) == 3:
                        tb = br.ops[2][1] if u.pred == 'eq' else br.ops[1][1]
                        for i_ in m_.blocks[tb]:
                            if i_.op == 'store' and m_.const_of(i_.ops[0]) is not None and m_.expr(i_.ops[1]).lstrip('&') == 'plan':
                                pv[nm] = m_.const_of(i_.ops[0])
    if set(pv) != {'bad', 'new', 'full'}:
        raise AnalysisBroken('main: plan names bad/new/full not resolved to constants (%s)' % pv)
    full, badp, newp = [pv['full']], [pv['bad']], [pv['new']]
    lay_ = P.distructs.get('snapraid_plan')
    po = {m['name']: m['off'] for m in lay_['members']}
    mk_ = (P.variants('info_make') or [None])[0]
    if mk_ is None:
        raise AnalysisBroken('info_make not found')
    def enabled(planv, info, timelimit=0, lastlimit=0):
        R = region.Region(P, extern=lambda ins, args: ((info,) if ins.callee == 'info_get' else None))
        pp = region.P_(('obj', 'plan'), 0)
        R.mem[(pp.reg, po['plan'])] = planv & 0xffffffff
        R.mem[(pp.reg, po['state'])] = region.P_(('obj', 'state'), 0)
        R.mem[(pp.reg, po['timelimit'])] = timelimit; R.mem[(pp.reg, po['lastlimit'])] = lastlimit; R.mem[(pp.reg, po['countlast'])] = 0
        return R.run(f, 0, [pp, 3])
    infos = {}
    for b_ in (0, 1):
        for r_ in (0, 1):
            for j_ in (0, 1):
                infos[(b_, r_, j_)] = region.Region(P).run(mk_, 0, [1600, b_, r_, j_])
    for pname, planv in sorted(list(pv.items()) + [('auto', -1), ('50%', 50)]):
        got0 = enabled(planv, 0, timelimit=1 << 40, lastlimit=9)
        rep.check(not got0, 'R-C15-1', 'plan %s: an unused position (no info) is never selected' % pname, f.file, 'returns %s' % got0, function='block_is_enabled', construct='unused %s' % pname)
        for (b_, r_, j_), w in sorted(infos.items()):
            if pname in ('auto', '50%') and not b_:
                continue        # the time-limit part of the numeric plans is decided by R-C15-5
            got = 1 if enabled(planv, w) else 0
            want = 1 if b_ else {'full': 1, 'bad': 0, 'new': j_}.get(pname, 1)
            rep.check(got == want, 'R-C15-1', 'plan %s, stripe bad=%d rehash=%d justsynced=%d' % (pname, b_, r_, j_), f.file, 'selected: %d, the plan says %d' % (got, want), function='block_is_enabled', construct='plan table %s' % pname)
    # the time-limit / tie-count part of the auto plan is decided semantically by R-C15-5 (no expression-shape rule)

    # R-C15-2 shared with C04
    L = StripeLoop(P, 'state_scrub_process')
    g = L.f
    rep.analysed(g)
    fa = L.fa
    bad = list(g.calls('info_set_bad')); ref = list(g.calls('info_make'))
    bad = [b for b in bad if not C04.mark_justified_by_increment(L, g, b)] or bad
    rep.check(bool(bad) and all(all(t['silent_error_on_this_block'] == 1 or t['io_error_on_this_block'] == 1 for t in fa.at(b)) for b in bad), 'R-C15-2', 'bad mark only on silent or io error', bad[0].loc() if bad else g.file, '', function='state_scrub_process', construct='bad mark')
    rep.check(bool(ref) and all(all(t['silent_error_on_this_block'] == 0 and t['io_error_on_this_block'] == 0 and t['error_on_this_block'] == 0 for t in fa.at(r)) for r in ref), 'R-C15-2', 'refresh/clear only for stripes verified correct', ref[0].loc() if ref else g.file, '', function='state_scrub_process', construct='refresh')
    sil = L.flag_stores('silent_error_on_this_block', 1)
    oku = True
    for x in sil:
        for t in fa.at(x):
            if t.get('file_is_unsynced') not in (0,) and t.get('block_is_unsynced') not in (0,):
                oku = False
    rep.check(oku and len(sil) == 2, 'R-C15-2', 'differences of unsynced files/stripes are never recorded as silent errors', g.file, '', function='state_scrub_process', construct='unsynced not silent')
    # unsynced flags are set whenever a block has invalid parity or a different time-stamp
    us = L.flag_stores('file_is_unsynced', 1)
    conds = set()
    for x in us:
        b = x.block
        for p in g.pred[b]:
            t = g.term(p)
            if t.op == 'br' and len(t.ops) == 3:
                conds.add(g.expr(t.ops[0]))
    rep.check(any('block_has_invalid_parity' in c for c in conds) and any('is_timestamp_different' in c for c in conds), 'R-C15-2', 'file_is_unsynced set for invalid parity and for changed time-stamp', g.file, str(sorted(conds)), function='state_scrub_process', construct='unsynced sources')

    # a block with invalid parity but no file (DELETED) still makes the stripe unsynced: the invalid-parity test precedes the no-file skip
    rep.rule('R-C15-2d', 'in every stripe engine the invalid-parity test of a block precedes the skip of blocks without a file', 2)
    for fn2 in ('state_scrub_process', 'state_sync_process'):
        h = P.fn(fn2)
        ip = [c for c in h.calls('block_has_invalid_parity')]
        hf = [c for c in h.calls('block_has_file')]
        okd = bool(ip) and bool(hf) and any(h.dominates(a, hf[0]) for a in ip)
        rep.check(okd, 'R-C15-2d', '%s: block_has_invalid_parity is tested before the `no file` skip' % fn2, hf[0].loc() if hf else h.file, '', function=fn2, construct='invalid parity before skip')
    # R-C15-3 effects
    eff, seen, fns = effects.command_effects(P, 'state_scrub')
    bad_eff = set(eff) & {'DATA', 'PARITY', 'PARITY_CREATE', 'MTIME', 'MKDIR', 'POOL'}
    rep.check(not bad_eff, 'R-C15-3', 'state_scrub reaches no data/parity write effect', s.file, 'effects: %s' % sorted(eff), function='state_scrub', construct='effects')
    rep.check(any(True for _ in s.calls('parity_open')) and not any(True for _ in s.calls('parity_create')), 'R-C15-3', 'scrub opens parity with parity_open (read-only)', s.file, '', function='state_scrub', construct='parity_open')

    # R-C15-4
    ds = dead_blocks(s)
    first_exit = None
    for b in range(len(s.blocks)):
        t = s.term(b)
        if t.op == 'br' and len(t.ops) == 3 and 'olderthan' in s.expr(t.ops[0]):
            # whatever the spelling (>= 0, !(x < 0), De Morgan with the branches swapped): the edge taken by a given number of days
            # cannot return, the edge taken by "not given" (-1) can
            ci = s.inst_of(t.ops[0])
            k = s.const_of(ci.ops[1]) if ci is not None and ci.op == 'icmp' else None
            if k is None:
                continue
            from .C17 import _icmp
            e_given = t.ops[2][1] if _icmp(ci.pred, 5, k) else t.ops[1][1]
            e_unset = t.ops[2][1] if _icmp(ci.pred, -1, k) else t.ops[1][1]
            if e_given in ds and e_unset not in ds:
                first_exit = t
    rep.check(first_exit is not None, 'R-C15-4', 'plans bad/new/full reject -o', s.file, s.expr(first_exit.ops[0]) if first_exit else '', function='state_scrub', construct='olderthan validation')
    tls = [i for i in s.all_insts() if i.op == 'store' and s.expr(i.ops[1]).endswith('ps.timelimit') and s.const_of(i.ops[0]) is None]
    qs = list(s.calls('qsort'))
    rep.check(len(qs) == 1 and all(s.dominates(qs[0], t) for t in tls), 'R-C15-4', 'times sorted before limits are derived', s.file, '', function='state_scrub', construct='sort first')

    dirty_bit_rule(P, rep, 'R-C15-8', 'state_scrub_process', {'info_set'})
    counted_errors_block_refresh(P, rep, L, 'R-C15-2e')
    roles = quota_rule(P, rep, s, f, 5 if ctx.tier == 'quick' else 7)
    quota_members_rule(P, rep, s, roles)
    plan_argument_rule(P, rep)
    info_word_rule(P, rep, 'R-C15-6')
    plan_limits_rule(P, rep, s, {'full': full[0], 'bad': badp[0], 'new': newp[0]} if (len(full) == 1 and len(badp) == 1 and len(newp) == 1) else None, 'R-C15-7', roles)


def quota_rule(P, rep, s, be, nmax=5, rid='R-C15-5'):
    """R-C15-5: the limits state_scrub derives from the sorted times, fed to block_is_enabled, select exactly the
    quota: the `countlimit` oldest stripes not newer than the age limit, ties cut by count.  The derivation touches
    the times only through comparisons, so a three-value ordered domain covers every ordering for a given length;
    lengths 1..5 (1..7 in the thorough tier), every quota 0..n+1 and every position of the age limit are enumerated (finite-domain
    interpretation of the IR region between the sort and the end of the derivation; nothing is executed)."""
    rep.rule(rid, 'quota derivation + block_is_enabled select exactly min(quota, count) oldest stripes not newer than the age limit (all orderings of <=5 times over a 3-value domain, every quota, every age limit)', 1000)
    qs = list(s.calls('qsort'))
    if len(qs) != 1:
        raise AnalysisBroken('state_scrub: qsort anchor not found')

    def _stop_outside(ins):
        # the region ends at the first call that is neither a log line nor a static helper of scrub.c (the derivation of the limits
        # may live in one)
        if ins.callee == 'log_tag':
            return False
        g_ = P.functions.get(ins.callee_full) if ins.callee_full else None
        return not (g_ is not None and not g_.decl and g_.internal)
    lay = P.distructs.get('snapraid_plan')
    if not lay:
        raise AnalysisBroken('struct snapraid_plan not found')
    off = {m['name']: m['off'] for m in lay['members']}
    for k in ('plan', 'timelimit', 'lastlimit', 'countlast'):
        if k not in off:
            raise AnalysisBroken('struct snapraid_plan has no member %s' % k)
    mk = P.fn('info_make')
    times = (16, 32, 48)        # multiples of 8: the low bits of an info word are flags
    bad = None
    n_runs = 0
    # the locals of the region are identified by role, not by name: the array and its length are the arguments of qsort, the plan
    # is the local of type struct snapraid_plan; the remaining inputs (read before written) are the quota (32 bit) and the age limit (64 bit)
    def alloca_behind(o):
        i = s.inst_of(o)
        while i is not None and i.op in ('load', 'zext', 'sext', 'bitcast', 'trunc'):
            j = s.inst_of(i.ops[0])
            if i.op == 'load' and j is not None and j.op == 'alloca':
                return j
            i = j
        return None
    a_map, a_cnt = alloca_behind(qs[0].ops[0]), alloca_behind(qs[0].ops[1])
    a_ps = [i for i in s.all_insts() if i.op == 'alloca' and (i.vty or '').replace('struct ', '').strip() == 'snapraid_plan']
    if a_map is None or a_cnt is None or len(a_ps) != 1:
        raise AnalysisBroken('state_scrub: time map / count / plan locals not identified from the qsort call and the plan type')
    found = {}     # alloca id -> type, discovered over a few probes (an input may only be read once another one is non-zero)
    for _ in range(3):
        probe = region.Region(P, extern=lambda ins, args: (0,) if ins.callee == 'log_tag' else None)
        probe.discover = []
        pm = probe.local_by_id(s, a_map.id); probe.mem[(pm.reg, 0)] = probe.array('timemap', [16, 16], 8)
        pc = probe.local_by_id(s, a_cnt.id); probe.mem[(pc.reg, 0)] = 2
        pps = probe.local_by_id(s, a_ps[0].id)
        probe.mem[(pps.reg, off['plan'])] = (1 << 32) - 1; probe.mem[(pps.reg, off['countlast'])] = 0
        for aid_, ty_ in found.items():
            pl_ = probe.local_by_id(s, aid_); probe.mem[(pl_.reg, 0)] = 2
        try:
            probe.run(s, qs[0].block, stop=_stop_outside, start_idx=qs[0].idx + 1)
        except region.Stop:
            pass
        for aid, o_, ty in probe.discover:
            if aid not in (a_map.id, a_cnt.id, a_ps[0].id):
                found[aid] = ty
    ins_ = list(found.items())
    q32 = [aid for aid, ty in ins_ if ty == 'i32']; q64 = [aid for aid, ty in ins_ if ty == 'i64']
    if len(set(q32)) != 1 or len(set(q64)) != 1:
        raise AnalysisBroken('state_scrub: inputs of the limit derivation not identified (32-bit: %s, 64-bit: %s)' % (sorted(set(q32)), sorted(set(q64))))
    a_quota, a_recent = q32[0], q64[0]
    for n in range(1, nmax + 1):
        for T in itertools.combinations_with_replacement(times, n):
            infos = None
            for c in range(0, n + 2):
                for r in (8, 16, 24, 32, 40, 48):
                    cur = [0]
                    R = region.Region(P, extern=lambda ins, args: (0,) if ins.callee == 'log_tag' else ((cur[0],) if ins.callee == 'info_get' else None))
                    for aid_, v_ in ((a_quota, c), (a_cnt.id, n), (a_recent, r)):
                        pl_ = R.local_by_id(s, aid_); R.mem[(pl_.reg, 0)] = v_
                    pl_ = R.local_by_id(s, a_map.id); R.mem[(pl_.reg, 0)] = R.array('timemap', list(T), 8)
                    ps = R.local_by_id(s, a_ps[0].id)
                    R.mem[(ps.reg, off['plan'])] = (1 << 32) - 1      # SCRUB_AUTO
                    R.mem[(ps.reg, off['countlast'])] = 0
                    if 'state' in off:
                        R.mem[(ps.reg, off['state'])] = region.P_(('state',), 0)
                    try:
                        R.run(s, qs[0].block, stop=_stop_outside, start_idx=qs[0].idx + 1)
                        raise AnalysisBroken('state_scrub: the limit derivation region returned')
                    except region.Stop:
                        pass
                    except region.OutOfBounds as e:
                        bad = bad or ('times %s quota %d age limit %d: %s' % (list(T), c, r, e))
                        continue
                    tl = R.mem.get((ps.reg, off['timelimit'])); ll = R.mem.get((ps.reg, off['lastlimit']))
                    if tl is None or ll is None:
                        raise AnalysisBroken('state_scrub: the region after the sort does not derive timelimit/lastlimit')
                    n_runs += 1
                    want = min(c, n)
                    while want > 0 and T[want - 1] > r:
                        want -= 1
                    if infos is None:
                        infos = {t: region.Region(P).run(mk, 0, [t, 0, 0, 0]) for t in times}
                    for order in (list(T), list(reversed(T))):
                        R.mem[(ps.reg, off['countlast'])] = 0
                        sel = []
                        for pos, t in enumerate(order):
                            cur[0] = infos[t]
                            v = R.run(be, 0, [ps, pos], frame=R.nframe + 1)
                            R.nframe += 1
                            if v:
                                sel.append(t)
                        if sorted(sel) != list(T[:want]) and bad is None:
                            bad = 'times %s, quota %d, age limit %d (derived time limit %s, tie quota %s): %d stripes selected %s, the plan allows exactly the %d oldest %s' % (
                                list(order), c, r, tl, ll, len(sel), sorted(sel), want, list(T[:want]))
                    rep.ok(rid, 'times %s quota %d age %d' % (list(T), c, r)) if bad is None else None
    if bad:
        rep.fail(rid, 'state_scrub quota derivation', s.file, bad, function='state_scrub', construct='quota derivation')
    rep.extra['quota_configurations'] = n_runs
    return {'quota': a_quota, 'recent': a_recent, 'plan': a_ps[0].id, 'map': a_map.id, 'count': a_cnt.id}


def plan_argument_rule(P, rep, rid='R-C15-4p'):
    """the numeric argument of -p is a share of the array (0..100), of -o a number of days (0..1000).  Both end in an `int` that also
    carries the named plans as negative constants (bad -2, new -3, full -4) and `not given` as -1: a number that is converted to int
    BEFORE its range is tested lets `-p -4` (or 4294967292) run the full plan and 4294967346 run 50%.  The option code between the
    strtoul() and the next getopt call is interpreted with adversarial results of strtoul: accepted iff within the range, and then the
    variable handed to state_scrub holds that value."""
    rep.rule(rid, 'main: the number given to -p / -o is accepted only within 0..100 / 0..1000 as parsed (before any narrowing), and reaches state_scrub unchanged', 2)
    m = P.fn('main')
    rep.analysed(m)
    sc = list(m.calls('state_scrub'))
    if len(sc) != 1:
        raise AnalysisBroken('main: the call of state_scrub was not found')

    def alloca_behind(o):
        i = m.inst_of(o)
        while i is not None and i.op in ('load', 'zext', 'sext', 'bitcast', 'trunc'):
            j = m.inst_of(i.ops[0])
            if i.op == 'load' and j is not None and j.op == 'alloca':
                return j
            i = j
        return None
    targets = {'percentage (-p)': (alloca_behind(sc[0].ops[1]), 100), 'days (-o)': (alloca_behind(sc[0].ops[2]), 1000)}
    parses = list(m.calls('strtoul'))
    done = 0
    for what, (al, top) in targets.items():
        if al is None:
            raise AnalysisBroken('main: the variable handed to state_scrub for the %s was not identified' % what)
        sites = []
        for c in parses:
            # the parse whose (possibly staged) result is stored into the variable before the next option is read
            r_ = m.reach([c], stop={g.id for g in m.calls('getopt_long')})
            if any(u.op == 'store' and m.strip(u.ops[1]) == ['i', al.id] and u.id in r_ for u in m.users.get(al.id, ())):
                sites.append(c)
        if len(sites) != 1:
            raise AnalysisBroken('main: the strtoul() that parses the %s was not identified (%d candidates)' % (what, len(sites)))
        c = sites[0]
        bad = None
        vals = [0, 1, top, top + 1, (1 << 31) - 1, 1 << 31, (1 << 32) - 4, (1 << 32) - 2, (1 << 32) - 1, (1 << 32) + 50, (1 << 64) - 4, (1 << 64) - 1]
        for v in vals:
            def ext(ins, args, v=v):
                if ins.callee == 'strtoul':
                    R.mem[(args[1].reg, args[1].off)] = R.array('end', [0], 1)
                    return (v,)
                if ins.callee in ('log_fatal', 'log_error'):
                    return (0,)
                if ins.callee == 'exit':
                    raise _Refused()
                return None
            R = region.Region(P, extern=ext)
            R.zero_regions.add(('glob', 'optarg')); R.zero_regions.add(('glob', 'exit_failure'))
            R.discover = []         # argc / argv are read to prepare the next getopt call: any value
            refused = False
            try:
                R.run(m, c.block, stop=lambda ins: ins.callee == 'getopt_long', start_idx=c.idx)
                raise AnalysisBroken('main: the option region returned')
            except region.Stop:
                pass
            except _Refused:
                refused = True
            pl = R.local_by_id(m, al.id)
            got = R.mem.get((pl.reg, 0))
            inrange = v <= top
            if refused == inrange or (inrange and got != v):
                bad = bad or ('strtoul() = %d: %s' % (v, ('refused although within 0..%d' % top) if refused else ('accepted, the variable handed to state_scrub becomes %s' % (got - (1 << 32) if isinstance(got, int) and got >= (1 << 31) else got))))
        rep.check(bad is None, rid, 'main: the %s is range-checked as parsed' % what, c.loc(),
                  '%d adversarial parse results: accepted iff <= %d' % (len(vals), top) if bad is None else bad + ' -- negative values of that variable name the other plans (bad -2, new -3, full -4) or "not given": the scrub verifies another set of stripes than the share / age asked for',
                  function='main', construct='%s range' % what.split()[0])
        done += 1


class _Refused(Exception):
    pass


def quota_members_rule(P, rep, s, roles, rid='R-C15-5b'):
    """`repeated default scrubs eventually cover every stripe`: a stripe marked bad is selected by every plan whatever its time, and
    keeps its old time as long as nobody repairs it.  If it also takes a place in the sorted time list from which the quota is cut, it
    takes the SAME place at every run: with as many lasting bad stripes as the quota (1/12 of the array) the time limit never moves
    past them and the healthy stripes are never verified again.  The loop that fills the time list is interpreted (finite domain:
    every array of up to 4 positions over {unused, healthy old, healthy new, bad old, bad new}): the list handed to the sort holds
    exactly the times of the used stripes that are not bad, and an array whose used stripes are all bad is not refused as empty."""
    rep.rule(rid, 'state_scrub: the time list from which the quota is cut holds exactly the used stripes that are not bad (bad ones are scrubbed on top of the quota and cannot occupy it for ever); an all-bad array is not taken for an empty one', 700)
    qs = list(s.calls('qsort'))
    if not roles or len(qs) != 1:
        # the roles come from the quota rule; without them identify the list and its length from the qsort call alone
        if len(qs) != 1:
            raise AnalysisBroken('state_scrub: qsort anchor not found')
        def _behind(o):
            i = s.inst_of(o)
            while i is not None and i.op in ('load', 'zext', 'sext', 'bitcast', 'trunc'):
                j = s.inst_of(i.ops[0])
                if i.op == 'load' and j is not None and j.op == 'alloca':
                    return j
                i = j
            return None
        am, ac = _behind(qs[0].ops[0]), _behind(qs[0].ops[1])
        if am is None or ac is None:
            raise AnalysisBroken('state_scrub: time list / count locals not identified from the qsort call')
        roles = {'map': am.id, 'count': ac.id}
    a_map = s.insts[roles['map']]
    # the allocation of the list: the call whose result is stored into the list variable
    st0 = None
    for u in s.users.get(a_map.id, ()):
        if u.op == 'store' and s.strip(u.ops[1]) == ['i', a_map.id]:
            v = s.inst_of(u.ops[0])
            while v is not None and v.op == 'bitcast':
                v = s.inst_of(v.ops[0])
            if v is not None and v.op == 'call' and s.dominates(u, qs[0]):
                st0 = u
    if st0 is None:
        raise AnalysisBroken('state_scrub: the allocation of the time list was not found')
    mk = P.fn('info_make')
    words = {'unused': 0}
    for nm, t, b in (('old', 16, 0), ('new', 32, 0), ('badold', 16, 1), ('badnew', 32, 1)):
        words[nm] = region.Region(P).run(mk, 0, [t, b, 0, 0])
    tm = {'old': 16, 'new': 32}

    def ext(R, infos):
        def f(ins, args):
            if ins.callee == 'log_tag':
                return (0,)
            if ins.callee == 'info_get':
                return (infos[args[1]],)
            if ins.callee in ('log_fatal', 'exit', 'log_error'):
                raise _Refused()
            return None
        return f
    # inputs of the region by role: the only 32-bit local read before written is the number of positions
    probe = region.Region(P, extern=None)
    probe.extern = ext(probe, [words['old'], words['old']])
    probe.discover = []
    pm = probe.local_by_id(s, a_map.id); probe.mem[(pm.reg, 0)] = probe.array('timemap', [0, 0], 8)
    try:
        probe.run(s, st0.block, stop=lambda ins: ins.callee == 'qsort', start_idx=st0.idx + 1)
    except (region.Stop, _Refused):
        pass
    ins32 = sorted({aid for aid, o_, ty in probe.discover if ty == 'i32' and aid != a_map.id})
    ptrs = sorted({aid for aid, o_, ty in probe.discover if ty not in ('i32', 'i64') and aid != a_map.id})
    if len(ins32) != 1:
        raise AnalysisBroken('state_scrub: the bound of the loop that fills the time list was not identified (%s)' % ins32)
    bad = None
    n_runs = 0
    for n in range(1, 5):
        for kinds in itertools.product(('unused', 'old', 'new', 'badold', 'badnew'), repeat=n):
            if all(k == 'unused' for k in kinds):
                continue
            infos = [words[k] for k in kinds]
            R = region.Region(P, extern=None)
            R.extern = ext(R, infos)
            R.discover = []
            pl = R.local_by_id(s, a_map.id); R.mem[(pl.reg, 0)] = R.array('timemap', [0] * n, 8)
            pb = R.local_by_id(s, ins32[0]); R.mem[(pb.reg, 0)] = n
            want = [tm[k] for k in kinds if k in tm]
            n_runs += 1
            try:
                R.run(s, st0.block, stop=lambda ins: ins.callee == 'qsort', start_idx=st0.idx + 1)
                raise AnalysisBroken('state_scrub: the region that fills the time list returned')
            except region.Stop:
                pass
            except _Refused:
                if bad is None:
                    bad = 'stripes %s: the command stops with a fatal message before the plan is made (an array whose used stripes are all marked bad is taken for an empty one: the bad stripes are never scrubbed again)' % (list(kinds),)
                continue
            except region.OutOfBounds as e:
                bad = bad or 'stripes %s: %s' % (list(kinds), e)
                continue
            pc = R.local_by_id(s, roles['count'])
            cnt = R.mem.get((pc.reg, 0))
            got = [R.mem.get((('array', 'timemap'), k_ * 8)) for k_ in range(cnt or 0)] if isinstance(cnt, int) and cnt <= n else None
            if (got is None or sorted(got) != sorted(want)) and bad is None:
                bad = 'stripes %s: the list handed to the sort has %s entries %s; the quota must be cut from the %d used stripes that are not bad %s -- a bad stripe keeps its time while it is not repaired, so it fills the same place of the quota at every run and the healthy stripes behind it are never reached' % (list(kinds), cnt, got, len(want), want)
    rep.extra['quota_member_configurations'] = n_runs
    if bad:
        rep.fail(rid, 'state_scrub: members of the time list', st0.loc(), bad, function='state_scrub', construct='bad stripes in the quota')
    else:
        for _ in range(n_runs):
            rep.ok(rid, 'array configuration')


def info_word_rule(P, rep, rid):
    """the stripe info word: accessors invert info_make for every flag combination, a bad mark changes nothing else, and a
    used stripe never encodes as 0 (0 means `no info`)"""
    rep.rule(rid, 'info word: info_get_* invert info_make for all flag combinations and times; info_set_bad only adds the bad flag; info of a checked stripe is never 0', 32)
    fn = {n: (P.variants(n) or [None])[0] for n in ('info_make', 'info_get_time', 'info_get_bad', 'info_get_rehash', 'info_get_justsynced', 'info_set_bad')}
    if not all(fn.values()):
        raise AnalysisBroken('info accessors not found: %s' % [k for k, v in fn.items() if not v])
    run = lambda name, args: region.Region(P).run(fn[name], 0, args)
    for t in (8, 16, 1 << 31, (1 << 32) - 8):      # snapraid_info is a 32-bit word: times beyond 2^32 are out of its domain
        for b in (0, 1):
            for r in (0, 1):
                for j in (0, 1):
                    w = run('info_make', [t, b, r, j])
                    got = (run('info_get_time', [w]), run('info_get_bad', [w]), run('info_get_rehash', [w]), run('info_get_justsynced', [w]))
                    ok = got == (t, b, r, j) and w != 0
                    wb = run('info_set_bad', [w])
                    gotb = (run('info_get_time', [wb]), run('info_get_bad', [wb]), run('info_get_rehash', [wb]), run('info_get_justsynced', [wb]))
                    okb = gotb == (t, 1, r, j)
                    rep.check(ok and okb, rid, 'time %d bad %d rehash %d justsynced %d' % (t, b, r, j), fn['info_make'].file,
                              'decoded %s; after info_set_bad %s' % (got, gotb), function='info_make', construct='info word round trip')


def plan_limits_rule(P, rep, s, consts, rid, roles):
    """from the command line plan to the internal limits: state_scrub's prologue (up to the allocation of the time map) is
    integer-only; it is interpreted with time() = NOW and parity_allocated_size() = BM for every kind of plan"""
    rep.rule(rid, 'state_scrub prologue: percentage p gives a quota within [floor, ceil] of p% of the array (default 1/12), -o d gives the age limit now - d days (default 10), full/new/bad keep their plan constant', 60)
    if consts is None:
        raise AnalysisBroken('plan constants not identified')
    NOW = 2000000000
    DAY = 24 * 3600
    lay = P.distructs.get('snapraid_plan')
    poff = {m['name']: m['off'] for m in lay['members']}
    def run(BM, plan, older):
        def ext(ins, args):
            if ins.callee == 'time':
                return (NOW,)
            if ins.callee == 'parity_allocated_size':
                return (BM,)
            if ins.callee in ('msg_progress', 'log_tag', 'log_fatal'):
                return (0,)
            return None
        R = region.Region(P, extern=ext)
        stp = region.P_(('obj', 'state'), 0)
        R.zero_regions.add(stp.reg)
        R.zero_regions.add(('glob', 'exit_failure'))
        try:
            R.run(s, 0, [stp, plan & 0xffffffff, older & 0xffffffff], stop=lambda ins: ins.callee not in ('time', 'parity_allocated_size', 'msg_progress', 'log_tag', 'log_fatal', 'md'))
        except region.Stop as e:
            return R, e.ins.callee
        return R, None
    for BM in (1, 7, 100, 1201):
        for older in (-1, 0, 1, 10, 365):
            for plan in (-1, 0, 1, 8, 33, 50, 99, 100):
                R, stopped = run(BM, plan, older)
                if stopped == 'exit':
                    rep.fail(rid, 'plan %d older %d' % (plan, older), s.file, 'a numeric plan with -o %d is refused' % older, function='state_scrub', construct='plan limits')
                    continue
                cl = R.mem.get((R.local_by_id(s, roles['quota']).reg, 0)); rl = R.mem.get((R.local_by_id(s, roles['recent']).reg, 0))
                ps = R.local_by_id(s, roles['plan']); pp = R.mem.get((ps.reg, poff['plan']))
                num, den = (plan, 100) if plan >= 0 else (1, 12)
                lo, hi = BM * num // den, -(-BM * num // den)
                want_rl = NOW - (older if older >= 0 else 10) * DAY
                ok = cl is not None and lo <= cl <= hi and region.signed(rl, 64) == want_rl and pp is not None and pp not in [c & 0xffffffff for c in consts.values()]
                rep.check(ok, rid, 'array %d stripes, plan %d%%, -o %d' % (BM, plan, older), s.file, 'quota %s (allowed %d..%d), age limit now-%s s, internal plan %s' % (cl, lo, hi, NOW - region.signed(rl, 64) if rl is not None else '?', pp), function='state_scrub', construct='plan limits')
    for name, c in sorted(consts.items()):
        R, stopped = run(100, c, -1)
        ps = R.local_by_id(s, roles['plan']); pp = R.mem.get((ps.reg, poff['plan']))
        rep.check(stopped != 'exit' and pp is not None and region.signed(pp, 32) == c, rid, 'plan %s keeps its constant' % name, s.file, 'internal plan %s for -p %s (%d)' % (pp, name, c), function='state_scrub', construct='plan constant %s' % name)
        R2, stopped2 = run(100, c, 5)
        rep.check(stopped2 == 'exit', rid, 'plan %s with -o is refused' % name, s.file, 'stopped at %s' % stopped2, function='state_scrub', construct='plan %s with -o' % name)


def dirty_bit_rule(P, rep, rid, fname, modifiers):
    """every change of persistent in-memory state inside a stripe loop (a new info word, a new block state) is followed, before the
    next stripe and before the function returns, by state->need_write = 1 -- otherwise the command ends without saving it"""
    f = P.fn(fname)
    rep.rule(rid, '%s: every %s is followed by need_write = 1 before the next stripe / the end of the function' % (fname, '/'.join(sorted(modifiers))), 1)
    nw = [i for i in f.all_insts() if i.op == 'store' and f.expr(i.ops[1]).endswith('->need_write') and f.const_of(i.ops[0]) == 1]
    mods = [c for c in f.calls(modifiers)]
    if not mods:
        raise AnalysisBroken('%s: no call of %s' % (fname, sorted(modifiers)))
    for c in mods:
        h = f.loop_of(c.block)
        outer = [hh for hh, bb in f.loops.items() if c.block in bb]
        hdr = max(outer, key=lambda hh: len(f.loops[hh])) if outer else None
        esc = f.reach([c], stop={x.id for x in nw})
        bad = []
        if hdr is not None and f.blocks[hdr][0].id in esc:
            bad.append('the next stripe')
        if any(r.id in esc for r in f.returns()):
            bad.append('the end of the function')
        rep.check(not bad, rid, '%s at line %s marks the state as modified' % (c.callee, c.line), c.loc(), 'need_write = 1 on every path' if not bad else 'reaches %s without state->need_write = 1: the change is lost when nothing else requests a save' % ' and '.join(bad), function=fname, construct='%s dirty bit' % c.callee)


def counted_errors_block_refresh(P, rep, L, rid):
    """a stripe on which scrub counted any error must not be booked as verified: every increment of an error counter inside the
    stripe loop is followed, before the end of the iteration, by the per-stripe flag that keeps the refresh away (or by bail)"""
    f = L.f
    rep.rule(rid, 'scrub: every counted error of a stripe sets the per-stripe flag that blocks the time refresh (same pairing as R-C08-2, scrub engine)', 6)
    header_first = L.block_first(L.header)
    ends = list(f.calls('state_progress_end'))
    if not ends:
        raise AnalysisBroken('state_scrub_process: state_progress_end not found')
    for counter, flag in (('error', 'error_on_this_block'), ('io_error', 'io_error_on_this_block'), ('silent_error', 'silent_error_on_this_block')):
        stops = L.flag_stores(flag, 1) + [L.block_first(b) for b in L.bail]
        for inc in L.increments(counter):
            if inc.block not in L.body:
                continue
            esc = L.escapes_without(inc, stops, [header_first] + ends)
            rep.check(not esc, rid, 'state_scrub_process: ++%s at line %s' % (counter, inc.line), inc.loc(),
                      'followed by %s = 1 or bail' % flag if not esc else 'the error is counted but %s stays 0: the stripe is refreshed (time updated, marks cleared) although it was not verified' % flag,
                      function='state_scrub_process', construct='++%s without %s (scrub)' % (counter, flag))
