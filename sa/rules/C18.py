"""C18 — include/exclude and selection filters follow the documented rules (admission guards only)."""
import re
from ..frontend import AnalysisBroken
from ..ir import base
from ..guards import guards_of
from . import C04


def run(ctx, rep):
    P = ctx.prog
    rep.explanation = ('Matching semantics (first match, default direction, globbing) is NOT decided. Decided: every admission site of the scanner is control-dependent on the matching filter call returning 0 and on the '
                       'hidden-file and own-file tests; the names the tool creates for itself (.tmp, .lock) are among the names filter_content rejects; filter_apply passes FNM_PATHNAME exactly for rooted patterns, '
                       'skips their leading slash and matches directories only with directory rules, filter_recurse applies the rule to every ancestor; fix writes nothing for excluded files.')
    rep.rule('R-C18-1', 'scan admission sites (file, symlink, directory recursion, special files) are guarded by filter_path / filter_subdir == 0; entries are queued only after the hidden and own-file tests', 6)
    rep.rule('R-C18-1s', 'search of array disks applies the same hidden / own-file / path filters', 3)
    rep.rule('R-C18-2', 'own files: the suffixes used when creating content temporaries and the lock file are rejected by filter_content', 3)
    rep.rule('R-C18-3', 'filter_apply: FNM_PATHNAME iff rooted pattern (leading slash skipped); directory rules only match directories; filter_recurse walks every ancestor', 4)
    rep.rule('R-C18-4', 'selection: fix never writes an excluded file; state_filter marks files, links and dirs', 3)
    f = P.fn('scan_sub')
    rep.analysed(f)
    hid = list(f.calls('filter_hidden')); own = list(f.calls('filter_content'))
    if len(hid) != 1 or len(own) != 1:
        raise AnalysisBroken('scan_sub: hidden/own-file tests not found')
    admissions = [('scan_file', 'filter_path'), ('scan_link', 'filter_path'), ('scan_sub', 'filter_subdir'), ('scan_emptydir', 'filter_subdir')]
    # two phases: directory entries are first collected into a list (after the hidden / own-file tests), then the list is processed
    ins = [c for c in f.calls('tommy_list_insert_tail')]
    okins = len(ins) == 1
    if okins:
        gi = guards_of(f, ins[0])
        okins = any(a.startswith('filter_hidden(') and not p for a, p in gi) and any(a.startswith('filter_content(') and not p for a, p in gi)
    rep.check(okins, 'R-C18-1', 'scan_sub: an entry is queued for processing only if not hidden and not one of the tool\'s own files', ins[0].loc() if ins else f.file, '', function='scan_sub', construct='queue guard')
    lists = {f.expr(c.ops[0]) for c in ins}
    for adm, flt in admissions:
        cs = list(f.calls(adm))
        if not cs:
            rep.fail('R-C18-1', '%s admission' % adm, f.file, 'no call of %s in scan_sub' % adm, function='scan_sub', construct='%s admission' % adm)
            continue
        for c in cs:
            gs = guards_of(f, c)
            okf = any(a.startswith(flt + '(') and not p for a, p in gs)
            # processed entries come from the queued list only (loop over its nodes)
            okh = oko = okins and any(a == 'node' and p for a, p in gs)
            rep.check(okf and okh and oko, 'R-C18-1', 'scan_sub: %s guarded by %s()==0, not hidden, not an own file' % (adm, flt), c.loc(), 'filter %s hidden %s own %s' % (okf, okh, oko), function='scan_sub', construct='%s admission' % adm)
    # special files are reported only when not excluded
    fp = [c for c in f.calls('filter_path')]
    rep.check(len(fp) >= 3, 'R-C18-1', 'scan_sub: special files consult filter_path before being reported', f.file, '%d filter_path sites' % len(fp), function='scan_sub', construct='special files')
    s = P.fn('search_dir')
    rep.analysed(s)
    for name in ('filter_hidden', 'filter_content', 'filter_path'):
        cs = list(s.calls(name))
        rep.check(bool(cs), 'R-C18-1s', 'search_dir applies %s' % name, s.file, '', function='search_dir', construct=name)
    # own files
    fc = P.fn('filter_content')
    rep.analysed(fc)
    sufs = set()
    for c in fc.calls('pathprint'):
        m = re.search(r'%s(\.\w+)"', fc.expr(c.ops[2]))
        if m:
            sufs.add(m.group(1))
    made = set()
    for fn in ('state_write_content', 'state_verify_content', 'state_rename_content'):
        g = P.fn(fn)
        for c in g.calls('pathprint'):
            m = re.search(r'%s(\.\w+)"', g.expr(c.ops[2]))
            if m:
                made.add(m.group(1))
    sc = P.fn('state_config')
    lock = set()
    for c in sc.calls('pathcat'):
        if 'lockfile' in sc.expr(c.ops[0]):
            lock.add(sc.expr(c.ops[2]).strip('"'))
    rep.check(bool(made) and made <= sufs, 'R-C18-2', 'content temporaries %s are excluded by filter_content %s' % (sorted(made), sorted(sufs)), fc.file, '', function='filter_content', construct='tmp suffix')
    rep.check(bool(lock) and lock <= sufs, 'R-C18-2', 'lock file suffix %s is excluded by filter_content' % sorted(lock), fc.file, '', function='filter_content', construct='lock suffix')
    cmpn = list(fc.calls('pathcmp'))
    rep.check(len(cmpn) == 1 + len(sufs) and all(any(True for _ in [0]) for _ in cmpn), 'R-C18-2', 'filter_content compares the path itself and each derived name, all rejecting', fc.file, '%d comparisons' % len(cmpn), function='filter_content', construct='own names')
    # filter_apply
    a = P.fn('filter_apply')
    rep.analysed(a)
    fm = list(a.calls('fnmatch'))
    ok = len(fm) == 2
    det = ''
    if ok:
        FNM_PATHNAME = 1
        with_path = [c for c in fm if (a.const_of(c.ops[2]) or 0) & FNM_PATHNAME]
        without = [c for c in fm if not ((a.const_of(c.ops[2]) or 0) & FNM_PATHNAME)]
        ok = len(with_path) == 1 and len(without) == 1
        if ok:
            gp = dict(guards_of(a, with_path[0])); gn = dict(guards_of(a, without[0]))
            ok = gp.get('filter->is_path') is True and gn.get('filter->is_path') is False
            ok = ok and '+1' in a.expr(with_path[0].ops[0]).replace(' ', '') or ok and '[1]' in a.expr(with_path[0].ops[0])
            ok = ok and a.expr(with_path[0].ops[1]) == 'path' and a.expr(without[0].ops[1]) == 'name'
            det = 'rooted: fnmatch(%s, path, PATHNAME) ; name: fnmatch(%s, name, 0)' % (a.expr(with_path[0].ops[0]), a.expr(without[0].ops[0]))
    rep.check(ok, 'R-C18-3', 'filter_apply: FNM_PATHNAME iff filter->is_path, leading slash skipped', a.file, det, function='filter_apply', construct='pathname flag')
    zero = [i for i in a.all_insts() if i.op == 'store' and a.expr(i.ops[1]) == '&retval' and a.const_of(i.ops[0]) == 0]
    okd = False
    cs_ = set()
    for z in zero:
        gs = guards_of(a, z)
        cs_ |= {(x, p) for x, p in gs if 'is_dir' in x}
    okd = ('filter->is_dir', True) in cs_ and ('is_dir', False) in cs_ and ('filter->is_dir', False) in cs_ and ('is_dir', True) in cs_
    rep.check(okd, 'R-C18-3', 'filter_apply: directory rules match only directories and file rules only files', a.file, str(sorted(cs_)), function='filter_apply', construct='kind match')
    r = P.fn('filter_recurse')
    rep.analysed(r)
    ap = list(r.calls('filter_apply'))
    inloop = [c for c in ap if r.loop_of(c.block) is not None]
    after = [c for c in ap if r.loop_of(c.block) is None]
    rep.check(len(inloop) == 1 and len(after) == 1 and r.const_of(inloop[0].ops[4]) == 1 and r.expr(after[0].ops[4]) == 'is_dir', 'R-C18-3', 'filter_recurse: every ancestor component as a directory, then the leaf', r.file, '', function='filter_recurse', construct='ancestors')
    dirsel = [b for b in range(len(r.blocks)) if r.term(b).op == 'br' and len(r.term(b).ops) == 3 and '47' in r.expr(r.term(b).ops[0])]
    rep.check(bool(dirsel), 'R-C18-3', 'filter_recurse splits the path at every slash', r.file, '', function='filter_recurse', construct='split')
    # selection
    c = P.fn('state_check_process')
    hw = list(c.calls('handle_write')); hcr = list(c.calls('handle_create'))
    okw = bool(hw) and all(any('file_flag_has(failed[j].file' in x and not p for x, p in guards_of(c, w_, expand=True)) for w_ in hw)
    okc = bool(hcr) and all(any('file_flag_has(file' in x and not p for x, p in guards_of(c, w_)) for w_ in hcr)
    rep.check(okw and okc, 'R-C18-4', 'fix: handle_create / handle_write only for files not excluded by the selection', c.file, '', function='state_check_process', construct='excluded not written')
    sf = P.fn('state_filter')
    rep.analysed(sf)
    sets = {x.callee for x in sf.calls({'file_flag_set', 'link_flag_set', 'dir_flag_set'})}
    rep.check(sets == {'file_flag_set', 'link_flag_set', 'dir_flag_set'}, 'R-C18-4', 'state_filter marks files, links and directories', sf.file, str(sorted(sets)), function='state_filter', construct='marks')
    fl = {x.callee for x in sf.calls() if x.callee and x.callee.startswith('filter_')}
    rep.check({'filter_path', 'filter_existence', 'filter_correctness'} <= fl or len(fl) >= 3, 'R-C18-4', 'state_filter combines the selection criteria (%s)' % sorted(fl), sf.file, '', function='state_filter', construct='criteria')

    # the selection of check/fix (state_filter) decides about leaves: it must never use the "include by default" variant that
    # exists for descending into directories, and the directory flag of the rule evaluation has to match the entity kind
    rep.rule('R-C18-5', 'state_filter: every path test of the selection excludes by default when only include rules are given (is_def_include = 0), with is_dir = 0 for files and links and is_dir = 1 for directories', 3)
    wrappers = {}
    for w in P.defined():
        cs = list(w.calls('filter_element'))
        if len(cs) == 1 and base(w.name) != 'filter_element' and len(list(w.calls())) == 1:
            a_dir, a_def = w.const_of(cs[0].ops[4]), w.const_of(cs[0].ops[5])
            if a_dir is not None and a_def is not None:
                wrappers[base(w.name)] = (a_dir, a_def)
    if len(wrappers) < 3:
        raise AnalysisBroken('filter wrappers over filter_element not found (%s)' % sorted(wrappers))
    kinds = {'file_flag_set': 0, 'link_flag_set': 0, 'dir_flag_set': 1}
    seen_k = set()
    for mark in sf.calls(set(kinds)):
        # the path tests feeding this mark: wrapper calls in the predecessors' conditions of the marking block (short-circuit chain)
        tests = []
        stack = list(sf.pred[mark.block]); vis = set()
        while stack:
            b = stack.pop()
            if b in vis:
                continue
            vis.add(b)
            t = sf.term(b)
            if t.op == 'br' and len(t.ops) == 3:
                cc = [c for c in sf.blocks[b] if c.op == 'call' and c.callee in wrappers]
                if cc:
                    tests += cc
                    stack += [p_ for p_ in sf.pred[b] if sf.term(p_).op == 'br' and len(sf.term(p_).ops) == 3 and any(c.op == 'call' and c.callee and c.callee.startswith('filter_') for c in sf.blocks[p_])]
        want_dir = kinds[mark.callee]
        bad_ = ['%s (is_dir=%d, include-by-default=%d)' % (c.callee, *wrappers[c.callee]) for c in tests if wrappers[c.callee] != (want_dir, 0)]
        seen_k.add(mark.callee)
        rep.check(bool(tests) and not bad_, 'R-C18-5', 'state_filter: path tests guarding %s' % mark.callee, mark.loc(), 'tests: %s' % [c.callee for c in tests] if not bad_ else 'wrong filter variant: %s' % bad_, function='state_filter', construct='variant for %s' % mark.callee)
