"""C18 — include/exclude and selection filters follow the documented rules (admission guards only)."""
import re
from ..frontend import AnalysisBroken
from ..ir import base
from ..guards import guards_of
from . import C04


def filter_decision_fn(P):
    """the decision function behind the public filter_path / filter_subdir / filter_emptydir wrappers (filter_element today): found
    as their single common defined callee, so a rename of the static function does not lose the anchor"""
    common = None
    for wn in ('filter_path', 'filter_subdir', 'filter_emptydir'):
        if not P.has(wn):
            raise AnalysisBroken('public filter wrapper %s not found' % wn)
        w = P.fn(wn)
        cal = {c.callee for c in w.calls() if c.callee_full in P.functions and not P.functions[c.callee_full].decl}
        common = cal if common is None else (common & cal)
    if not common or len(common) != 1:
        raise AnalysisBroken('the decision function shared by filter_path / filter_subdir / filter_emptydir was not identified (%s)' % sorted(common or ()))
    return list(common)[0]


def run(ctx, rep):
    P = ctx.prog
    rep.explanation = ('Matching semantics (first match, default direction, globbing) is NOT decided. Decided: every admission site of the scanner is control-dependent on the matching filter call returning 0 and on the '
                       'hidden-file and own-file tests; the names the tool creates for itself (.tmp, .lock) are among the names filter_content rejects; filter_apply passes FNM_PATHNAME exactly for rooted patterns, '
                       'skips their leading slash and matches directories only with directory rules, filter_recurse applies the rule to every ancestor; fix writes nothing for excluded files.')
    rep.rule('R-C18-1', 'scan admission sites (file, symlink, directory recursion, special files) are guarded by filter_path / filter_subdir == 0; entries are queued only after the hidden and own-file tests', 6)
    rep.rule('R-C18-1s', 'search of array disks applies the same hidden / own-file / path filters', 3)
    rep.rule('R-C18-2', 'own files: the suffixes used when creating content temporaries and the lock file are rejected by filter_content', 3)
    rep.rule('R-C18-4', 'selection: fix never writes an excluded file; state_filter marks files, links and dirs', 3)
    f = P.fn('scan_sub')
    rep.analysed(f)
    hid = list(f.calls('filter_hidden')); own = list(f.calls('filter_content'))
    if len(hid) != 1 or len(own) != 1:
        raise AnalysisBroken('scan_sub: hidden/own-file tests not found')
    admissions = [('scan_file', 'filter_path'), ('scan_link', 'filter_path'), ('scan_sub', 'filter_subdir'), ('scan_emptydir', 'filter_subdir')]
    # two phases: directory entries are first collected into a list (after the hidden / own-file tests), then the list is processed
    ins = [c for c in f.calls('tommy_list_insert_tail')]
    okins = len(ins) == 1
    if okins:
        gi = guards_of(f, ins[0])
        okins = any(a.startswith('filter_hidden(') and not p for a, p in gi) and any(a.startswith('filter_content(') and not p for a, p in gi)
    rep.check(okins, 'R-C18-1', 'scan_sub: an entry is queued for processing only if not hidden and not one of the tool\'s own files', ins[0].loc() if ins else f.file, '', function='scan_sub', construct='queue guard')
    lists = {f.expr(c.ops[0]) for c in ins}
    for adm, flt in admissions:
        cs = list(f.calls(adm))
        if not cs:
            rep.fail('R-C18-1', '%s admission' % adm, f.file, 'no call of %s in scan_sub' % adm, function='scan_sub', construct='%s admission' % adm)
            continue
        for c in cs:
            gs = guards_of(f, c)
            okf = any(a.startswith(flt + '(') and not p for a, p in gs)
            # processed entries come from the queued list only (loop over its nodes)
            okh = oko = okins and any(a == 'node' and p for a, p in gs)
            rep.check(okf and okh and oko, 'R-C18-1', 'scan_sub: %s guarded by %s()==0, not hidden, not an own file' % (adm, flt), c.loc(), 'filter %s hidden %s own %s' % (okf, okh, oko), function='scan_sub', construct='%s admission' % adm)
    # a directory that is stored as an object of the array (an "empty directory") is a leaf like a file: the descent query
    # (filter_subdir) includes by default so that the rules can be applied to what is inside, and says nothing about the
    # directory itself when only include rules are given
    rep.rule('R-C18-1e', 'scan_sub: a directory is stored as empty directory only if the leaf query (filter_emptydir: default taken from the last rule) selects it, not merely because the scanner descended into it', 1)
    for c in f.calls('scan_emptydir'):
        gs = guards_of(f, c)
        okl = any(a.startswith('filter_emptydir(') and not p for a, p in gs)
        rep.check(okl, 'R-C18-1e', 'scan_sub: scan_emptydir guarded by filter_emptydir()==0', c.loc(),
                  'leaf query consulted' if okl else 'the only rule test before the directory is stored is the descent query filter_subdir(), which includes every directory no rule matches: with a rule list that ends in an include (`include /keep/` alone) unrelated directories whose files were all filtered out enter the array as empty directories; check complains when they go and fix re-creates them',
                  function='scan_sub', construct='scan_emptydir leaf query')
    # special files are reported only when not excluded
    fp = [c for c in f.calls('filter_path')]
    rep.check(len(fp) >= 3, 'R-C18-1', 'scan_sub: special files consult filter_path before being reported', f.file, '%d filter_path sites' % len(fp), function='scan_sub', construct='special files')
    s = P.fn('search_dir')
    rep.analysed(s)
    for name in ('filter_hidden', 'filter_content', 'filter_path'):
        cs = list(s.calls(name))
        rep.check(bool(cs), 'R-C18-1s', 'search_dir applies %s' % name, s.file, '', function='search_dir', construct=name)
    # own files
    fc = P.fn('filter_content')
    rep.analysed(fc)
    sufs = set()
    for c in fc.calls('pathprint'):
        m = re.search(r'%s(\.\w+)"', fc.expr(c.ops[2]))
        if m:
            sufs.add(m.group(1))
    made = set()
    for fn in ('state_write_content', 'state_verify_content', 'state_rename_content'):
        g = P.fn(fn)
        for c in g.calls('pathprint'):
            m = re.search(r'%s(\.\w+)"', g.expr(c.ops[2]))
            if m:
                made.add(m.group(1))
    sc = P.fn('state_config')
    lock = set()
    for c in sc.calls('pathcat'):
        if 'lockfile' in sc.expr(c.ops[0]):
            lock.add(sc.expr(c.ops[2]).strip('"'))
    rep.check(bool(made) and made <= sufs, 'R-C18-2', 'content temporaries %s are excluded by filter_content %s' % (sorted(made), sorted(sufs)), fc.file, '', function='filter_content', construct='tmp suffix')
    rep.check(bool(lock) and lock <= sufs, 'R-C18-2', 'lock file suffix %s is excluded by filter_content' % sorted(lock), fc.file, '', function='filter_content', construct='lock suffix')
    cmpn = list(fc.calls('pathcmp'))
    rep.check(len(cmpn) == 1 + len(sufs) and all(any(True for _ in [0]) for _ in cmpn), 'R-C18-2', 'filter_content compares the path itself and each derived name, all rejecting', fc.file, '%d comparisons' % len(cmpn), function='filter_content', construct='own names')
    # filter_apply / filter_recurse / filter_element: decided semantically by R-C18-6 (interpretation against the documented rules);
    # the former expression-shape rule R-C18-3 was removed
    # selection
    c = P.fn('state_check_process')
    hw = list(c.calls('handle_write')); hcr = list(c.calls('handle_create'))
    okw = bool(hw) and all(any('file_flag_has(failed[j].file' in x and not p for x, p in guards_of(c, w_, expand=True)) for w_ in hw)
    okc = bool(hcr) and all(any('file_flag_has(file' in x and not p for x, p in guards_of(c, w_)) for w_ in hcr)
    rep.check(okw and okc, 'R-C18-4', 'fix: handle_create / handle_write only for files not excluded by the selection', c.file, '', function='state_check_process', construct='excluded not written')
    sf = P.fn('state_filter')
    rep.analysed(sf)
    sets = {x.callee for x in sf.calls({'file_flag_set', 'link_flag_set', 'dir_flag_set'})}
    rep.check(sets == {'file_flag_set', 'link_flag_set', 'dir_flag_set'}, 'R-C18-4', 'state_filter marks files, links and directories', sf.file, str(sorted(sets)), function='state_filter', construct='marks')
    fl = {x.callee for x in sf.calls() if x.callee and x.callee.startswith('filter_')}
    rep.check({'filter_path', 'filter_existence', 'filter_correctness'} <= fl or len(fl) >= 3, 'R-C18-4', 'state_filter combines the selection criteria (%s)' % sorted(fl), sf.file, '', function='state_filter', construct='criteria')

    # the selection of check/fix (state_filter) decides about leaves: it must never use the "include by default" variant that
    # exists for descending into directories, and the directory flag of the rule evaluation has to match the entity kind
    rep.rule('R-C18-5', 'state_filter: every path test of the selection excludes by default when only include rules are given (is_def_include = 0), with is_dir = 0 for files and links and is_dir = 1 for directories', 3)
    wrappers = {}
    fe_name = filter_decision_fn(P)
    for w in P.defined():
        cs = list(w.calls(fe_name))
        if len(cs) == 1 and base(w.name) != fe_name and len(list(w.calls())) == 1:
            a_dir, a_def = w.const_of(cs[0].ops[4]), w.const_of(cs[0].ops[5])
            if a_dir is not None and a_def is not None:
                wrappers[base(w.name)] = (a_dir, a_def)
    if len(wrappers) < 3:
        raise AnalysisBroken('filter wrappers over %s not found (%s)' % (fe_name, sorted(wrappers)))
    kinds = {'file_flag_set': 0, 'link_flag_set': 0, 'dir_flag_set': 1}
    seen_k = set()
    for mark in sf.calls(set(kinds)):
        # the path tests feeding this mark: wrapper calls in the predecessors' conditions of the marking block (short-circuit chain)
        tests = []
        stack = list(sf.pred[mark.block]); vis = set()
        while stack:
            b = stack.pop()
            if b in vis:
                continue
            vis.add(b)
            t = sf.term(b)
            if t.op == 'br' and len(t.ops) == 3:
                cc = [c for c in sf.blocks[b] if c.op == 'call' and c.callee in wrappers]
                if cc:
                    tests += cc
                    stack += [p_ for p_ in sf.pred[b] if sf.term(p_).op == 'br' and len(sf.term(p_).ops) == 3 and any(c.op == 'call' and c.callee and c.callee.startswith('filter_') for c in sf.blocks[p_])]
        want_dir = kinds[mark.callee]
        bad_ = ['%s (is_dir=%d, include-by-default=%d)' % (c.callee, *wrappers[c.callee]) for c in tests if wrappers[c.callee] != (want_dir, 0)]
        seen_k.add(mark.callee)
        rep.check(bool(tests) and not bad_, 'R-C18-5', 'state_filter: path tests guarding %s' % mark.callee, mark.loc(), 'tests: %s' % [c.callee for c in tests] if not bad_ else 'wrong filter variant: %s' % bad_, function='state_filter', construct='variant for %s' % mark.callee)
    filter_semantics_rule(P, rep)
    nofollow_probe_rule(P, rep, 'R-C18-7', ('filter_existence',), 'the -m / -e existence filters')
    filter_parity_rule(P, rep, 'R-C18-8')
    filter_subject_rule(P, rep, 'R-C18-9')
    selection_effects_rule(P, rep, 'R-C18-10')


def filter_semantics_rule(P, rep, rid='R-C18-6'):
    """the decision function of the include/exclude rules (filter_alloc_file -> filter_element -> filter_recurse -> filter_apply) is
    string/integer-only code around fnmatch(): it is interpreted from the IR with fnmatch replaced by a model of POSIX fnmatch
    (`*`, `?`; the flag operand of each call decides FNM_PATHNAME, FNM_PERIOD, FNM_LEADING_DIR, FNM_CASEFOLD) and compared, over an exhaustive small domain of rule lists and paths, with the documented rules:
    the first rule that matches decides; a pattern without slash matches file names at any depth, `name/` directory names at any
    depth, a leading slash anchors the pattern at the disk root (wildcards do not cross `/`); whatever lies in an excluded or
    included directory follows it; when no rule matches the verdict is the opposite of the last rule (directories being descended
    into are kept)."""
    import itertools, re as _re2
    from .. import region as RG
    rep.rule(rid, 'include/exclude decision function equals the documented rules over an exhaustive small domain of rule lists (1-2 rules, 9 pattern shapes, both directions) and paths (files and directories, 3 levels, names with a leading period and of the other case; every fnmatch flag of the call sites modelled)', 3000)
    fa = P.fn('filter_alloc_file'); fe = P.fn(filter_decision_fn(P))
    rep.analysed(fa, fe, P.fn('filter_recurse'), P.fn('filter_apply'))
    lay = P.distructs.get('snapraid_filter'); nl = P.distructs.get('tommy_node_struct')
    if not lay or not nl:
        raise AnalysisBroken('layout of snapraid_filter / tommy_node_struct not found')
    fo = {m['name']: m['off'] for m in lay['members']}; no = {m['name']: m['off'] for m in nl['members']}

    # glibc <fnmatch.h>: FNM_PATHNAME 1, FNM_NOESCAPE 2, FNM_PERIOD 4, FNM_LEADING_DIR 8, FNM_CASEFOLD 16 (read from the call's flag
    # operand, so a flag added to or dropped from either call changes the model's answer, not only FNM_PATHNAME)
    def fn_translate(pat, flags):
        flags = int(flags)
        pathname = bool(flags & 1); period = bool(flags & 4)
        out = ''
        for k, ch in enumerate(pat):
            lead = period and (k == 0 or (pathname and pat[k - 1] == '/'))
            if ch == '*':
                out += ('(?![.])' if lead else '') + ('[^/]*' if pathname else '.*')
            elif ch == '?':
                out += ('(?![.])' if lead else '') + ('[^/]' if pathname else '.')
            else:
                out += _re2.escape(ch)
        if flags & 8:
            out += '(?:/.*)?'
        return _re2.compile('^' + out + '$', _re2.S | (_re2.I if flags & 16 else 0))

    class M:
        pass

    def machine():
        m = M()
        m.n = 0
        def cstr(R, p):
            s = ''
            k = 0
            while True:
                v = R.mem.get((p.reg, p.off + k))
                if v is None:
                    raise RG.Unsupported('unterminated string at %r' % (p,))
                v &= 0xff
                if v == 0:
                    return s
                s += chr(v); k += 1
        def put(R, p, s):
            for k, ch in enumerate(s):
                R.mem[(p.reg, p.off + k)] = ord(ch)
            R.mem[(p.reg, p.off + len(s))] = 0
        def ext(ins, args):
            c = ins.callee
            if c == 'malloc_nofail':
                m.n += 1
                reg = ('heap', m.n)
                m.R.zero_regions.add(reg)
                return (RG.P_(reg, 0),)
            if c in ('pathcpy', 'pathimport'):
                put(m.R, args[0], cstr(m.R, args[2]))
                return (0,)
            if c == 'free':
                return (0,)
            if c == 'fnmatch':
                pat, s_, fl = cstr(m.R, args[0]), cstr(m.R, args[1]), args[2]
                return (0 if fn_translate(pat, fl).match(s_) else 1,)
            return None
        m.R = RG.Region(P, extern=ext)
        m.cstr = cstr; m.put = put
        return m

    # ---- the documented rules (independent model)
    def spec_rule(pat, path, is_dir):
        is_dirpat = pat.endswith('/')
        core = pat[:-1] if is_dirpat else pat
        rooted = core.startswith('/')
        comps = path.split('/')
        items = [('/'.join(comps[:k + 1]), comps[k], True) for k in range(len(comps) - 1)] + [(path, comps[-1], is_dir)]
        for full, name, d in items:
            if d != is_dirpat:
                continue
            if (fn_translate(core[1:], 1).match(full) if rooted else fn_translate(core, 0).match(name)):
                return True
        return False

    def spec(rules, path, is_dir, def_include):
        last = None
        for direction, pat in rules:
            if spec_rule(pat, path, is_dir):
                return 0 if direction > 0 else -1
            last = direction
        if def_include:
            return 0
        return -1 if (last is not None and last > 0) else 0

    pats = ['*.txt', 'a', 'd/', '/d/', '/d/a', '/a', '/d/*', '/*/a', 'e*/']
    rules1 = [(dr, p) for dr in (1, -1) for p in pats]
    lists = [[r] for r in rules1] + [[r1, r2] for r1 in rules1 for r2 in rules1 if r1 != r2]
    # names with a leading period and of the other case: a wildcard matches a leading period (hidden files are a separate
    # option, nohidden), and on this platform matching is case sensitive
    queries = [(p, 0, 0) for p in ('a', 'b.txt', 'd/a', 'd/b.txt', 'e/d/a', 'd/e/a', 'ex/a', 'd', '.b.txt', 'd/.b', 'A', 'D/a')] + \
              [(p, 1, di) for p in ('d', 'e/d', 'ex') for di in (0, 1)]
    bad = None
    nrun = 0
    prune_bad = []
    nprune = 0
    files_q = [q[0] for q in queries if q[1] == 0]
    for rl in lists:
        m = machine()
        R = m.R
        # build the filter objects with the program's own constructor
        nodes = []
        for k, (direction, pat) in enumerate(rl):
            sp = RG.P_(('str', 'pat%d' % k), 0)
            m.put(R, sp, pat)
            try:
                fp = R.run(fa, 0, [direction & 0xffffffff, sp], frame=100 + k)
            except RG.Unsupported as e:
                raise AnalysisBroken('cannot interpret filter_alloc_file: %s' % e)
            if not isinstance(fp, RG.P_):
                raise AnalysisBroken('filter_alloc_file rejects the documented pattern %r' % pat)
            nodes.append(fp)
        lst = RG.P_(('obj', 'list'), 0)
        for k, fp in enumerate(nodes):
            nd = RG.P_(fp.reg, fp.off + fo['node'])
            R.mem[(nd.reg, nd.off + no['data'])] = fp
            R.mem[(nd.reg, nd.off + no['next'])] = RG.P_(nodes[k + 1].reg, nodes[k + 1].off + fo['node']) if k + 1 < len(nodes) else 0
            R.mem[(nd.reg, nd.off + no['prev'])] = 0
        R.mem[(lst.reg, 0)] = RG.P_(nodes[0].reg, nodes[0].off + fo['node'])
        dsk = RG.P_(('str', 'disk'), 0); m.put(R, dsk, 'd1')
        for qi, (path, is_dir, def_inc) in enumerate(queries):
            sp = RG.P_(('str', 'q%d' % qi), 0); m.put(R, sp, path)
            try:
                got = R.run(fe, 0, [lst, 0, dsk, sp, is_dir, def_inc], frame=1000 + qi)
            except RG.Unsupported as e:
                raise AnalysisBroken('cannot interpret filter_element: %s' % e)
            got = RG.signed(got & 0xffffffff, 32)
            want = spec(rl, path, bool(is_dir), bool(def_inc))
            nrun += 1
            if (got == 0) != (want == 0):
                if bad is None:
                    bad = 'rules %s, %s %r%s: the code %s it, the documented rules %s it' % (
                        ['%s %s' % ('include' if d > 0 else 'exclude', p) for d, p in rl], 'directory' if is_dir else 'file', path,
                        ' (descent)' if def_inc else '', 'includes' if got == 0 else 'excludes', 'include' if want == 0 else 'exclude')
            elif bad is None:
                rep.ok(rid, '%s | %s' % (rl, path))
        for di, D in enumerate(('d', 'e', 'e/d', 'd/e', 'ex')):
            sp = RG.P_(('str', 'pd%d' % di), 0); m.put(R, sp, D)
            got = RG.signed(R.run(fe, 0, [lst, 0, dsk, sp, 1, 1], frame=2000 + di) & 0xffffffff, 32)
            if got == 0:
                continue
            nprune += 1
            inc = [f_ for f_ in files_q if f_.startswith(D + '/') and spec(rl, f_, False, False) == 0]
            if inc:
                prune_bad.append('rules %s: directory %r is not descended into, but the first rule matching the file %r is an include: the file never reaches the rules and stays out of the array' % (
                    ['%s %s' % ('include' if d > 0 else 'exclude', p_) for d, p_ in rl], D, inc[0]))
    if bad:
        rep.fail(rid, 'filter decision function', fe.file, bad, function='filter_element', construct='filter semantics')
    rep.extra['filter_evaluations'] = nrun
    # ---- pruning: scan does not descend into a directory for which the descent query (is_dir = 1, default include) answers
    # "excluded"; the files below are then never shown to the rules.  First-match semantics survives that only if every file below
    # such a directory is excluded by the documented rules as well.
    rep.rule(rid + 'p', 'a directory that the descent query prunes contains only files that the documented first-match rules exclude (same domain of rule lists; files up to two levels below)', 100)
    if prune_bad:
        rep.fail(rid + 'p', 'directory pruning vs first match', fe.file, prune_bad[0] + ' (%d rule lists of the domain disagree)' % len(prune_bad), function='filter_element', construct='directory pruned before an earlier include is tried')
    else:
        for _ in range(nprune):
            rep.ok(rid + 'p', 'pruned directory')


FOLLOWING_PROBES = {'stat', 'stat64', 'access', 'open', 'fopen', 'open_noatime', 'realpath'}
NOFOLLOW_PROBES = {'lstat', 'lstat64', 'readlink'}


def nofollow_probe_rule(P, rep, rid, fnames, why, forbidden=None):
    """the named functions decide whether a directory entry exists / what it is; they must look at the entry itself (lstat), not at
    what a symbolic link points to: with stat() a recorded link whose target is gone is "missing", and a link is its target"""
    rep.rule(rid, 'entries are examined without following symbolic links (%s): the probe is lstat, no stat/access/open on the path' % why, len(fnames))
    for fn in fnames:
        f = P.fn(fn)
        rep.analysed(f)
        fol = [c for c in f.calls(forbidden or FOLLOWING_PROBES)]
        nof = [c for c in f.calls(NOFOLLOW_PROBES)]
        if not fol and not nof:
            raise AnalysisBroken('%s: no file-system probe recognised' % fn)
        rep.check(not fol, rid, '%s probes the entry with lstat' % fn, (fol or nof)[0].loc(),
                  '%s' % [c.callee for c in nof] if not fol else '%s(%s) follows symbolic links: a link whose target does not exist is reported as a missing entry, a link to a file as that file' % (fol[0].callee, f.expr(fol[0].ops[0])[:40]),
                  function=fn, construct='existence probe')


def filter_parity_rule(P, rep, rid):
    """state_filter also decides which parity files check / fix may write: with a disk filter (-d) a parity is excluded unless its
    name matches; without one, every parity is excluded as soon as the selection is by file (-f) or by missing entries (-m), because
    fixing a few files must not rewrite parity blocks that have nothing to do with them.  The function is interpreted (E10) on an
    array without data disks (filter_path modelled) for every combination of: file filter list empty / not, disk filter list empty /
    not, -m, and the answer of the disk filter for each parity name."""
    from .. import region as RG
    import itertools
    f = P.fn('state_filter')
    for nm in ('filter_path', 'lev_config_name'):
        if not P.has(nm):
            raise AnalysisBroken('anchor function %s not found in program' % nm)
    rep.analysed(f)
    rep.rule(rid, 'state_filter over file list x disk list x -m x disk-filter answers: parity excluded iff (disk filter present ? name rejected : (-m or file filter present))', 1)
    ds = P.distructs.get('snapraid_state'); dp = P.distructs.get('snapraid_parity'); dn = P.distructs.get('tommy_node_struct')
    if not (ds and dp and dn):
        raise AnalysisBroken('layouts not found')
    def off(d, name):
        return [m for m in d['members'] if m['name'] == name][0]['off']
    O_LEVEL, O_PAR, O_DISKLIST = off(ds, 'level'), off(ds, 'parity'), off(ds, 'disklist')
    P_EXC = off(dp, 'is_excluded_by_filter'); P_SIZE = dp['size']
    N_NEXT, N_DATA = off(dn, 'next'), off(dn, 'data')
    # parameter roles by position: (state, filterlist_file, filterlist_disk, filter_missing, filter_error)
    names = [a.get('name') for a in f.args]
    try:
        i_file, i_disk, i_miss, i_err = names.index('filterlist_file'), names.index('filterlist_disk'), names.index('filter_missing'), names.index('filter_error')
    except ValueError:
        # renamed parameters: fall back to the declared order (state, file list, disk list, missing, error), checked by type
        tys = [a.get('ty') or '' for a in f.args]
        if len(f.args) != 5 or not (tys[1].endswith('*') and tys[2].endswith('*') and not tys[3].endswith('*') and not tys[4].endswith('*')):
            raise AnalysisBroken('state_filter: parameters not recognised (%s)' % names)
        i_file, i_disk, i_miss, i_err = 1, 2, 3, 4
    bad = None; n = 0
    LEV = 2
    for has_file, has_disk, miss in itertools.product((0, 1), repeat=3):
        for ans in itertools.product((0, 1), repeat=LEV):
            seen = {'k': 0}
            def ext(ins, args):
                c = ins.callee
                if c in ('msg_progress', 'msg_verbose', 'log_tag', 'msg_info'):
                    return (0,)
                if c == 'lev_config_name':
                    return (RG.P_(('str', 'lev%d' % (args[0] & 0xff)), 0),)
                if c == 'filter_path':
                    nm = args[2]
                    if isinstance(nm, RG.P_) and nm.reg[0] == 'str' and nm.reg[1].startswith('lev'):
                        return (ans[int(nm.reg[1][3:])],)
                    return (0,)
                return None
            R = RG.Region(P, extern=ext)
            R.discover = []
            sp = RG.P_(('obj', 'state'), 0); R.zero_regions.add(sp.reg)
            R.mem[(sp.reg, O_LEVEL)] = LEV
            R.mem[(sp.reg, O_DISKLIST)] = 0
            def mklist(tag, nonempty):
                cell = R.array('list_' + tag, [0], 8)
                if nonempty:
                    nd = RG.P_(('obj', 'node_' + tag), 0); R.zero_regions.add(nd.reg)
                    fl = RG.P_(('obj', 'filter_' + tag), 0); R.zero_regions.add(fl.reg)
                    R.mem[(nd.reg, N_NEXT)] = 0; R.mem[(nd.reg, N_DATA)] = fl
                    R.mem[(cell.reg, 0)] = nd
                return cell
            args = [0] * len(f.args)
            args[0] = sp; args[i_file] = mklist('file', has_file); args[i_disk] = mklist('disk', has_disk); args[i_miss] = miss; args[i_err] = 0
            try:
                R.run(f, 0, args)
            except RG.Unsupported as e:
                raise AnalysisBroken('cannot interpret state_filter: %s' % e)
            n += 1
            got = [R.mem.get((sp.reg, O_PAR + l * P_SIZE + P_EXC), 0) for l in range(LEV)]
            if not (has_file or has_disk or miss):
                want = [0] * LEV
            elif has_disk:
                want = [1 if ans[l] else 0 for l in range(LEV)]
            else:
                want = [1 if (miss or has_file) else 0] * LEV
            if [1 if g else 0 for g in got] != want and bad is None:
                bad = 'file filter %s, disk filter %s, -m %s, disk filter rejects the parity names %s: parities excluded %s, expected %s%s' % (
                    'present' if has_file else 'empty', 'present' if has_disk else 'empty', bool(miss), list(ans), got, want,
                    ' -- with -f alone the parity stays selected and fix rewrites parity blocks outside the selection' if (has_file and not has_disk and want[0] == 1) else '')
    rep.check(bad is None, rid, 'state_filter: which parity files stay selected', f.file, '%d evaluations' % n if bad is None else bad, function='state_filter', construct='parity exclusion')


def filter_subject_rule(P, rep, rid):
    """state_filter judges every recorded entity (file, link, empty directory) by its own path inside the disk -- the `sub` member of
    its record -- in each of the filters it applies (-d, -f, -m, errors).  A filter call that looks at another member (the target of
    a link instead of the link's name) selects by something the user did not name."""
    from ..grammar import qual_member
    f = P.fn('state_filter')
    rep.analysed(f)
    rep.rule(rid, 'state_filter: in the loops over files, links and directories every filter_path / filter_emptydir / filter_existence call is given the `sub` member of the entity', 8)
    n = 0
    for c in f.calls({'filter_path', 'filter_emptydir', 'filter_existence', 'filter_subdir'}):
        if f.loop_of(c.block) is None:
            continue
        # the path argument is the last pointer argument
        arg = c.ops[-1] if c.callee != 'filter_existence' else c.ops[2]
        q = qual_member(f, arg)
        if q is None and f.const_of(arg) == 0:
            continue          # the parity names are filtered with a null sub
        if q is None:
            continue
        st_, mem = q.split('.', 1)
        if st_ not in ('snapraid_file', 'snapraid_link', 'snapraid_dir'):
            continue
        n += 1
        rep.check(mem == 'sub', rid, '%s(%s) at line %s' % (c.callee, q, c.line), c.loc(),
                  'judged by its own path' if mem == 'sub' else 'the %s is selected by its `%s` member, not by its path: check / fix -f act on links whose target matches the pattern and skip the ones whose name does' % (st_.replace('snapraid_', ''), mem),
                  function='state_filter', construct='filter on %s' % q)
    if n < 8:
        raise AnalysisBroken('state_filter: filter calls on entity paths not recognised (%d)' % n)


SELECTION_WRITE_EFFECTS = {'open', 'open64', 'symlink', 'link', 'hardlink', 'mkdir', 'mkancestor', 'remove', 'unlink', 'rmdir', 'rename', 'truncate', 'ftruncate',
                           'lmtime', 'fmtime', 'handle_create', 'handle_write', 'windows_symlink', 'windows_link'}



def _flag_guards(f, target):
    """guards_of(expand=True) plus one step of value flow: a dominating branch on a plain local whose only reaching store is a
    (possibly negated) <entity>_flag_has(...) test counts as a guard on that test (`int selected = !flag_has(x, F); if (!selected) continue;`)"""
    res = list(guards_of(f, target, expand=True))
    tb = target.block
    from ..guards import _reaches

    def peel(o, pol):
        o = f.strip(o)
        for _ in range(8):
            if o[0] != 'i':
                break
            i = f.insts[o[1]]
            if i.op == 'icmp' and f.const_of(i.ops[1]) == 0 and i.pred in ('ne', 'eq'):
                pol = (not pol) if i.pred == 'eq' else pol
                o = f.strip(i.ops[0]); continue
            if i.op == 'xor' and f.const_of(i.ops[1]) in (1, -1):
                pol = not pol
                o = f.strip(i.ops[0]); continue
            if i.op in ('zext', 'sext', 'trunc'):
                o = f.strip(i.ops[0]); continue
            break
        return o, pol
    for b in range(len(f.blocks)):
        t = f.term(b)
        if t.op != 'br' or len(t.ops) != 3 or not f.bdominates(b, tb) or b == tb:
            continue
        outs = [val for val, s_ in ((True, t.ops[2][1]), (False, t.ops[1][1])) if _reaches(f, s_, tb, avoid=b)]
        if len(outs) != 1:
            continue
        o, pol = peel(t.ops[0], outs[0])
        if o[0] != 'i' or f.insts[o[1]].op != 'load':
            continue
        a = f.strip(f.insts[o[1]].ops[0])
        if a[0] != 'i' or f.insts[a[1]].op != 'alloca':
            continue
        st = f.reaching_stores(a[1], f.insts[o[1]])
        if len(st) != 1 or st[0] is None:
            continue
        # the local must have no other store at all (it is a named copy of the test, not a variable reused later)
        if sum(1 for blk in f.blocks for i in blk if i.op == 'store' and f.strip(i.ops[1]) == ['i', a[1]]) != 1:
            continue
        v, pol = peel(st[0].ops[0], pol)
        if v[0] == 'i' and f.insts[v[1]].op == 'call' and (f.insts[v[1]].callee or '').endswith('_flag_has'):
            res.append((f.xexpr(v), pol))
    return res


def selection_effects_rule(P, rep, rid):
    """fix writes nothing for an entity the selection left out: in state_check_process every call that changes a data disk
    (create / open for writing / write / time-stamp / link / directory / removal) is control-dependent on the FILE_IS_EXCLUDED
    flag of *its* entity being clear.  The flag value is taken from what state_filter stores.  One exception, by its own guard:
    the removal of files this very run created and did not finish (a flag that state_check_process stores only under the
    exclusion test, i.e. only on selected files: FILE_IS_CREATED)."""
    rep.rule(rid, 'state_check_process: every call that modifies a data disk is control-dependent on <entity>_flag_has(<entity>, FILE_IS_EXCLUDED) == 0 (flag value read from state_filter); the removal of files created by this run is recognised by its FILE_IS_CREATED guard', 11)
    c = P.fn('state_check_process'); sf = P.fn('state_filter')
    rep.analysed(c, sf)
    excl = set()
    for x in sf.calls({'file_flag_set', 'link_flag_set', 'dir_flag_set'}):
        v = sf.const_of(x.ops[1])
        if v is not None:
            excl.add(int(v))
    if len(excl) != 1:
        raise AnalysisBroken('state_filter does not store one constant exclusion flag (%s)' % sorted(excl))
    excl = excl.pop()
    # flags that state_check_process itself stores only on entities of the selection (FILE_IS_CREATED after a successful
    # handle_create): a later test of such a flag being set implies the entity was selected
    import re as _re
    created = set()
    for x in c.calls({'file_flag_set'}):
        v = c.const_of(x.ops[1])
        if v is None or int(v) == excl:
            continue
        gs = [(_re.match(r'(\w+)_flag_has\((.*),(\d+)\)$', t.replace(' ', '')), p) for t, p in _flag_guards(c, x)]
        if any(m_ and int(m_.group(3)) == excl and not p for m_, p in gs):
            created.add(int(v))
        else:
            created.discard(int(v)); created.add(-int(v))
    created = {v for v in created if v > 0 and -v not in created}
    sites = [x for x in c.calls() if x.callee in SELECTION_WRITE_EFFECTS]
    if len(sites) < 8:
        raise AnalysisBroken('state_check_process: only %d write-effect call sites found' % len(sites))
    for x in sites:
        g = _flag_guards(c, x)
        fl = [(_re.match(r'(\w+)_flag_has\((.*),(\d+)\)$', t.replace(' ', '')), p) for t, p in g]
        fl = [(m_.group(1), m_.group(2), int(m_.group(3)), p) for m_, p in fl if m_]
        sel = [f for f in fl if f[2] == excl and not f[3]]
        own = [f for f in fl if f[2] in created and f[3]]
        ok = bool(sel) or (x.callee in ('remove', 'unlink') and bool(own))
        rep.check(ok, rid, 'state_check_process: %s at line %s only for an entity the selection did not exclude' % (x.callee, x.loc().split(':')[-1]), x.loc(),
                  ('guarded by %s' % (sel or own)) if ok else 'no guard on the exclusion flag (%d) of the entity: flag tests on the way: %s -- a fix restricted by -f / -d / -m / -e modifies an entity outside the selection' % (excl, [(f[0], f[1], f[2], f[3]) for f in fl]),
                  function='state_check_process', construct='%s outside the selection' % x.callee)
