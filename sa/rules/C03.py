"""C03 — any erasure pattern within the parity count is exactly recoverable.
R-C03-1: every square minor of the generator matrices is non-zero (structure theorem + exhaustive small orders)
R-C03-2: raid_rec / raid_data, interpreted abstractly over the real kernels (E2), store the true
         contents into every failed block and touch nothing else, for enumerated (nd, np, failure set)."""
import itertools, multiprocessing, os, random
import numpy as np
from .. import gf, kernels
from ..kernels import Machine, Ptr, SIZE, run_function, KernelViolation, Unsupported
from ..frontend import AnalysisBroken

_G = {}


# ------------------------------------------------------------------ R-C03-1 minors
def cauchy_structure(A, rep):
    """infer x_i, y_j, f_j with A[j][i] = f_j/(x_i+y_j) for rows 1..5 from the table itself and check
    the side conditions of the extended Cauchy determinant identity"""
    n = 251
    x = [gf.INV[A[1][i]] for i in range(n)]          # gauge y_1 = 0, f_1 = 1
    ys = {1: 0}; fs = {1: 1}
    ok = all(A[1][i] != 0 for i in range(n))
    for j in range(2, 6):
        # a0 (x0+y) = f ; a1 (x1+y) = f  =>  y = (a0 x0 + a1 x1)/(a0+a1)
        a0, a1 = A[j][0], A[j][1]
        if a0 == a1 or a0 == 0 or a1 == 0:
            return False, 'row %d: cannot solve for the Cauchy parameters' % j
        y = gf.MUL[gf.MUL[a0][x[0]] ^ gf.MUL[a1][x[1]]][gf.INV[a0 ^ a1]]
        f = gf.MUL[a0][x[0] ^ y]
        ys[j] = y; fs[j] = f
        for i in range(n):
            if x[i] ^ y == 0 or A[j][i] != gf.MUL[f][gf.INV[x[i] ^ y]]:
                return False, 'row %d column %d does not fit f/(x_i+y_j)' % (j, i)
    if not ok:
        return False, 'zero in row 1'
    if len(set(x)) != n:
        return False, 'x_i not pairwise distinct'
    yl = [ys[j] for j in range(1, 6)]
    if len(set(yl)) != 5:
        return False, 'y_j not pairwise distinct'
    if set(x) & set(yl):
        return False, 'some x_i equals some y_j'
    if any(fs[j] == 0 for j in fs):
        return False, 'zero row factor'
    if any(A[0][i] != 1 for i in range(n)):
        return False, 'row 0 is not all ones'
    return True, 'x_i distinct (251), y_j distinct %s, x_i != y_j, f_j %s non-zero, row 0 = 1' % (yl, [fs[j] for j in range(1, 6)])


MULNP = np.array(gf.MUL, dtype=np.uint8)


def minors_order2(A, rows):
    """exhaustive: all 2x2 minors over the given rows; returns number of singular ones and count"""
    M = np.array([r[:251] for r in A], dtype=np.uint8)
    bad = 0; cnt = 0
    for r0, r1 in itertools.combinations(range(rows), 2):
        a = M[r0][:, None]; b = M[r0][None, :]
        c = M[r1][:, None]; d = M[r1][None, :]
        # det [[a_i, a_k],[c_i, c_k]] = a_i c_k + a_k c_i
        det = MULNP[a, d] ^ MULNP[b, c]
        iu = np.triu_indices(251, 1)
        bad += int((det[iu] == 0).sum()); cnt += len(iu[0])
    return bad, cnt


def minors_order3(A, rows):
    M = np.array([r[:251] for r in A], dtype=np.uint8)
    bad = 0; cnt = 0
    n = 251
    for rs in itertools.combinations(range(rows), 3):
        R = M[list(rs)]
        for i in range(n - 2):
            # columns i < k < l
            k, l = np.triu_indices(n - i - 1, 1)
            k = k + i + 1; l = l + i + 1
            a = R[:, i]
            m00 = MULNP[R[1, k], R[2, l]] ^ MULNP[R[1, l], R[2, k]]
            m01 = MULNP[R[1, i], R[2, l]] ^ MULNP[R[1, l], R[2, i]]
            m02 = MULNP[R[1, i], R[2, k]] ^ MULNP[R[1, k], R[2, i]]
            det = MULNP[R[0, i], m00] ^ MULNP[R[0, k], m01] ^ MULNP[R[0, l], m02]
            bad += int((det == 0).sum()); cnt += len(k)
    return bad, cnt


def check_minors(ctx, rep):
    P = ctx.raid
    rep.rule('R-C03-1', 'every square minor of the generator matrices is non-zero (extended-Cauchy side conditions from the table itself; exhaustive small orders; sampled large orders)', 5)
    ca = P.global_bytes('raid_gfcauchy'); va = P.global_bytes('raid_gfvandermonde')
    A = [[ca[j * 256 + i] for i in range(251)] for j in range(6)]
    V = [[va[j * 256 + i] for i in range(251)] for j in range(3)]
    ok, det = cauchy_structure(A, rep)
    rep.check(ok, 'R-C03-1', 'raid_gfcauchy extended-Cauchy structure', 'raid/tables.c', det, function='raid_gfcauchy', construct='structure')
    b1 = sum(1 for r in A for x in r if x == 0)
    rep.check(b1 == 0, 'R-C03-1', 'raid_gfcauchy order-1 minors', 'raid/tables.c', '1506 entries, %d zero' % b1, function='raid_gfcauchy', construct='order 1')
    bad, cnt = minors_order2(A, 6)
    rep.check(bad == 0, 'R-C03-1', 'raid_gfcauchy order-2 minors (exhaustive)', 'raid/tables.c', '%d minors, %d singular' % (cnt, bad), function='raid_gfcauchy', construct='order 2')
    total = 1506 + cnt
    # power matrix: no theorem — exhaustive orders 1..3
    b1 = sum(1 for r in V for x in r if x == 0)
    bad2, c2 = minors_order2(V, 3)
    bad3, c3 = minors_order3(V, 3)
    total += 753 + c2 + c3
    rep.check(b1 == 0 and bad2 == 0 and bad3 == 0, 'R-C03-1', 'raid_gfvandermonde all minors of order 1..3 (exhaustive)', 'raid/tables.c',
              '%d + %d + %d minors, singular: %d/%d/%d' % (753, c2, c3, b1, bad2, bad3), function='raid_gfvandermonde', construct='all minors')
    if ctx.tier == 'thorough':
        bad3, c3 = minors_order3(A, 6)
        total += c3
        rep.check(bad3 == 0, 'R-C03-1', 'raid_gfcauchy order-3 minors (exhaustive)', 'raid/tables.c', '%d minors, %d singular' % (c3, bad3), function='raid_gfcauchy', construct='order 3')
    # sampled minors of order 3..6 (cross-check of the theorem, seeded)
    rnd = random.Random(ctx.seed)
    ns = 20000 if ctx.tier == 'quick' else 300000
    bad = 0
    for _ in range(ns):
        k = rnd.randint(3, 6)
        rows = rnd.sample(range(6), k); cols = rnd.sample(range(251), k)
        if gf.det([[A[r][c] for c in cols] for r in rows]) == 0:
            bad += 1
    total += ns
    rep.check(bad == 0, 'R-C03-1', 'raid_gfcauchy sampled minors of order 3..6', 'raid/tables.c', '%d random minors (seed %d), %d singular' % (ns, ctx.seed, bad), function='raid_gfcauchy', construct='sampled')
    rep.extra['minors_evaluated'] = total


# ------------------------------------------------------------------ R-C03-2 decoders
FAMILIES = {
    # rec family -> generator kernels bound to the slots during the abstract run (all proven equal by C02)
    'int8': {'rec': ['raid_rec1_int8', 'raid_rec2_int8', 'raid_recX_int8'],
             'gen': ['raid_gen1_int64', 'raid_gen2_int64', None, 'raid_gen4_int8', 'raid_gen5_int8', 'raid_gen6_int8'], 'gen3': 'raid_gen3_int8', 'genz': 'raid_genz_int64'},
    'ssse3': {'rec': ['raid_rec1_ssse3', 'raid_rec2_ssse3', 'raid_recX_ssse3'],
              'gen': ['raid_gen1_sse2', 'raid_gen2_sse2', None, 'raid_gen4_ssse3', 'raid_gen5_ssse3', 'raid_gen6_ssse3'], 'gen3': 'raid_gen3_ssse3', 'genz': 'raid_genz_sse2ext'},
    'avx2': {'rec': ['raid_rec1_avx2', 'raid_rec2_avx2', 'raid_recX_avx2'],
             'gen': ['raid_gen1_avx2', 'raid_gen2_avx2', None, 'raid_gen4_avx2ext', 'raid_gen5_avx2ext', 'raid_gen6_avx2ext'], 'gen3': 'raid_gen3_avx2ext', 'genz': 'raid_genz_avx2ext'},
}


def families_from_slots(P):
    """check that the hand-written family table only names kernels that the slots can hold"""
    slots = P.slots()
    recs = set()
    for k in range(6):
        recs |= slots.get('g:raid_rec_ptr+%d' % (8 * k), set()) | (slots.get('g:raid_rec_ptr', set()) if k == 0 else set())
    named = set()
    for fam in FAMILIES.values():
        named |= set(fam['rec'])
    return recs, named


def bindings_for(fam, matrix):
    f = FAMILIES[fam]
    b = {('raid_gfgen', 0): Ptr(('glob', 'raid_gfcauchy' if matrix == 'cauchy' else 'raid_gfvandermonde'), 0),
         ('raid_zero_block', 0): Ptr(('zero',), 0)}
    for k in range(6):
        g = f['gen'][k] if k != 2 else (f['gen3'] if matrix == 'cauchy' else f['genz'])
        b[('raid_gen_ptr', 8 * k)] = ('fn', g)
        b[('raid_rec_ptr', 8 * k)] = ('fn', f['rec'][min(k, 2)])
    return b


def run_rec(P, entry, fam, matrix, nd, np_, failed, ip=None):
    """abstractly run raid_rec (entry='rec') or raid_data (entry='data') and check the post-condition"""
    A = gf.cauchy() if matrix == 'cauchy' else gf.power()
    nbuf = nd + np_
    m = Machine(P, 64, nbuf, range(nd), bindings=bindings_for(fam, matrix))
    fset = set(failed)
    # initial contents: failed blocks hold garbage variables (bank nbuf+k), surviving parities hold A*D
    class Init(dict):
        def __missing__(self, key):
            buf, c = key
            if buf in fset:
                v = [m.var(nbuf + buf, c, b) for b in range(8)]
            elif buf >= nd:
                v = kernels.expected_parity_forms(m, A, nd, buf - nd, c)
            else:
                raise KeyError(key)
            self[key] = v
            return v

        def __contains__(self, key):
            return key[0] in fset or key[0] >= nd
    m.buf_init = Init()
    vec = Ptr(('vec',), 0)
    if entry == 'rec':
        m.iarrs['ir'] = list(failed)
        run_function(m, 'raid_rec', [len(failed), Ptr(('iarr', 'ir'), 0), nd, np_, SIZE, vec])
    else:
        m.iarrs['id'] = list(failed); m.iarrs['ip'] = list(ip)
        run_function(m, 'raid_data', [len(failed), Ptr(('iarr', 'id'), 0), Ptr(('iarr', 'ip'), 0), nd, SIZE, vec])
    # post-condition
    for buf, cs in m.buf_written.items():
        if buf not in fset:
            # a surviving block may be re-written only with exactly its own value (raid_rec regenerates
            # the parities below the highest failed one)
            for c in cs:
                init = [m.var(buf, c, b) for b in range(8)] if buf < nd else kernels.expected_parity_forms(m, A, nd, buf - nd, c)
                if m.bufw[(buf, c)] != init:
                    return False, 'surviving block v[%d] is modified' % buf, m
    for buf in failed:
        if m.buf_written.get(buf, set()) != set(range(64)):
            return False, 'failed block v[%d] is not completely rewritten' % buf, m
        for c in range(64):
            got = m.bufw[(buf, c)]
            want = [m.var(buf, c, b) for b in range(8)] if buf < nd else kernels.expected_parity_forms(m, A, nd, buf - nd, c)
            if got != want:
                return False, 'block v[%d] byte %d is not restored to its true value%s' % (buf, c, ' (TOP)' if any(x is None for x in got) else ''), m
    # pointer vector restored
    for (reg, off), (v, n) in m.mem.items():
        if reg == ('vec',):
            k = off // 8
            if not (isinstance(v, Ptr) and v.reg == ('buf', k) and v.off == 0):
                return False, 'pointer vector entry v[%d] is left pointing to %r' % (k, v), m
    if m.ntstore_pending:
        return False, 'non-temporal stores not fenced before return', m
    # stores into surviving parity blocks (with their own value: checked above).  The property asks that no parity block is touched
    # that recovery was not asked to rebuild: reported separately (R-C03-2w), the value-level post-condition holds
    rew = sorted(buf for buf in m.buf_written if buf not in fset and buf >= nd)
    return True, ('REWRITES:' + ','.join(str(b - nd) for b in rew)) if rew else '', m


def _task(t):
    entry, fam, matrix, nd, np_, failed, ip = t
    try:
        ok, det, m = run_rec(_G['P'], entry, fam, matrix, nd, np_, failed, ip)
        return (t, 'ok' if ok else 'fail', det, m.steps)
    except KernelViolation as e:
        return (t, 'fail', str(e), 0)
    except Unsupported as e:
        return (t, 'unsupported', str(e), 0)


def rec_configs(tier, seed):
    rnd = random.Random(seed)
    cfgs = []
    # raid_rec: every failure set of size 1..np over nd+np blocks
    def all_rec(nd, np_, matrix):
        out = []
        for r in range(1, np_ + 1):
            for ir in itertools.combinations(range(nd + np_), r):
                out.append(('rec', matrix, nd, np_, ir, None))
        return out

    def all_data(nd, np_, matrix):
        out = []
        for r in range(1, min(nd, np_) + 1):
            for id_ in itertools.combinations(range(nd), r):
                for ip in itertools.combinations(range(np_), r):
                    out.append(('data', matrix, nd, np_, id_, ip))
        return out
    full = []
    small_nd = [1, 2, 3] if tier == 'quick' else [1, 2, 3, 4, 5, 6]
    for nd in small_nd:
        for np_ in range(1, 7):
            full += all_rec(nd, np_, 'cauchy')
            full += all_data(nd, np_, 'cauchy')
        for np_ in range(1, 4):
            full += all_rec(nd, np_, 'power')
            full += all_data(nd, np_, 'power')
    # large nd: sampled failure sets including the extreme indices
    sampled = []
    big = [7, 16, 251] if tier == 'quick' else [7, 8, 16, 32, 64, 128, 250, 251]
    per = 6 if tier == 'quick' else 40
    for nd in big:
        for matrix, npmax in (('cauchy', 6), ('power', 3)):
            for _ in range(per):
                np_ = rnd.randint(1, npmax)
                r = rnd.randint(1, np_)
                ir = sorted(rnd.sample(range(nd + np_), r))
                if rnd.random() < 0.3:
                    ir = sorted(set(ir[:-1] + [nd - 1])) if r > 1 else [nd - 1]
                sampled.append(('rec', matrix, nd, np_, tuple(ir), None))
                rd = rnd.randint(1, min(nd, np_))
                id_ = sorted(rnd.sample(range(nd), rd))
                ip = sorted(rnd.sample(range(np_), rd))
                sampled.append(('data', matrix, nd, np_, tuple(id_), tuple(ip)))
    return full, sampled


def check_rec(ctx, rep):
    P = ctx.raid
    _G['P'] = P
    rep.rule('R-C03-2', 'raid_rec/raid_data over the real kernels restore every failed block to its true value and write nothing else (per family, matrix, nd, np, failure set; all data, all sizes k*64)', 300)
    rep.rule('R-C03-2f', 'every decoder any slot can hold belongs to a verified family', 9)
    recs, named = families_from_slots(P)
    # slot arity: raid_rec dispatches through raid_rec_ptr[nr - 1]; slot 0 must hold a one-failure kernel, slot 1 a two-failure
    # kernel, slots 2..5 the general kernel of the same family (the families are interpreted with exactly this assignment)
    rep.rule('R-C03-2s', 'raid_init installs in decoder slot k only kernels written for k+1 failures (rec1 / rec2 / recX of a verified family)', 6)
    slots_ = P.slots()
    for k in range(6):
        inst = slots_.get('g:raid_rec_ptr+%d' % (8 * k), set()) | (slots_.get('g:raid_rec_ptr', set()) if k == 0 else set())
        want = {fam['rec'][min(k, 2)] for fam in FAMILIES.values()}
        bad_ = sorted(inst - want)
        rep.check(bool(inst) and not bad_, 'R-C03-2s', 'raid_rec_ptr[%d] (recovery of %d failed blocks)' % (k, k + 1), 'raid/module.c',
                  'installable: %s' % sorted(inst) if not bad_ else 'slot %d can hold %s, a kernel written for another number of failed blocks: raid_rec with %d failures runs it' % (k, bad_, k + 1),
                  function='raid_init', construct='decoder slot %d' % k)
    for r in sorted(recs):
        rep.check(r in named, 'R-C03-2f', r, P.functions[r].file if r in P.functions else '?', 'decoder installed by raid_init is covered by a family' if r in named else 'decoder is installable but not covered by any verified family', function=r, construct='family')
        rep.analysed(r)
    for fam in FAMILIES.values():
        for k in fam['rec'] + [g for g in fam['gen'] if g] + [fam['gen3'], fam['genz']]:
            if not P.has(k):
                raise AnalysisBroken('family kernel %s not in program' % k)
    full, sampled = rec_configs(ctx.tier, ctx.seed)
    tasks = []
    fams = list(FAMILIES)
    for n, (entry, matrix, nd, np_, failed, ip) in enumerate(full):
        # small configurations: every family in thorough, rotating family in quick (each family sees every 3rd)
        for k, fam in enumerate(fams):
            if ctx.tier == 'thorough' or (n % 3) == k:
                tasks.append((entry, fam, matrix, nd, np_, failed, ip))
    for n, (entry, matrix, nd, np_, failed, ip) in enumerate(sampled):
        fam = fams[n % 3]
        if nd > 64 and fam == 'int8' and ctx.tier == 'quick':
            fam = 'avx2'
        tasks.append((entry, fam, matrix, nd, np_, failed, ip))
    tasks.sort(key=lambda t: -(t[3] * t[4] * (20 if t[1] == 'int8' else 1)))
    with multiprocessing.get_context('fork').Pool(min(16, os.cpu_count() or 1)) as pool:
        results = pool.map(_task, tasks, chunksize=4)
    steps = 0
    fails = {}
    rewrites = {}
    for t, st, det, ns in results:
        steps += ns
        entry, fam, matrix, nd, np_, failed, ip = t
        inst = 'raid_%s[%s,%s] nd=%d np=%d failed=%s%s' % (entry, fam, matrix, nd, np_, list(failed), ' ip=%s' % list(ip) if ip else '')
        if st == 'unsupported':
            raise AnalysisBroken('E2 cannot interpret %s: %s' % (inst, det))
        if st == 'ok':
            rep.ok('R-C03-2', inst, '')
            if det.startswith('REWRITES:'):
                rewrites.setdefault(entry, []).append((inst, det[9:]))
        else:
            fails.setdefault((fam, matrix, len([x for x in failed if x < nd])), []).append((inst, det))
    for (fam, matrix, nrd), lst in sorted(fails.items()):
        fn = FAMILIES[fam]['rec'][min(max(nrd, 1) - 1, 2)]
        rep.fail('R-C03-2', lst[0][0], P.functions[fn].file + ':' + str(P.functions[fn].line), lst[0][1] + ' (%d failing configurations in this group)' % len(lst), function=fn, construct='decoder')
    rep.rule('R-C03-2w', 'raid_rec / raid_data store only into the blocks they were asked to rebuild (a surviving parity block is not even re-written with its own value)', 2)
    for entry in ('rec', 'data'):
        lst = rewrites.get(entry, [])
        fn = 'raid_' + entry
        rep.check(not lst, 'R-C03-2w', '%s leaves the surviving parity blocks alone' % fn, P.functions[fn].file + ':' + str(P.functions[fn].line),
                  'no store into a surviving parity in any configuration' if not lst else '%s: the parity blocks %s are not in the failure list and are stored to (%d configurations): raid_rec ends with raid_gen(nd, highest failed parity + 1), which recomputes every parity below the highest lost one -- the same bytes when that parity was consistent, but a parity that the caller left out of the decoding because it does not trust it, or keeps read-only, is overwritten' % (lst[0][0], lst[0][1], len(lst)),
                  function=fn, construct='surviving parity rewritten')
    rep.extra['decoder_runs'] = len(tasks)
    rep.extra['abstract_steps'] = steps


CCHUNK = 1   # raid_validate walks the block byte by byte: one byte is a complete iteration


def run_consistency(P, matrix, nd, np_, true_bad, listed):
    """abstractly run raid_check(listed) on a stripe whose blocks in `true_bad` carry an arbitrary error (fresh variables E) on top of
    their true content.  Returns the recorded syndrome forms (list of 8-bit form lists) and the machine."""
    A = gf.cauchy() if matrix == 'cauchy' else gf.power()
    nbuf = nd + np_
    m = Machine(P, CCHUNK, nbuf, range(nd), bindings=bindings_for('int8', matrix))
    m.collect = []
    bad = set(true_bad)
    class Init(dict):
        def __missing__(self, key):
            buf, c = key
            true = [m.var(buf, c, b) for b in range(8)] if buf < nd else kernels.expected_parity_forms(m, A, nd, buf - nd, c)
            v = [t ^ m.var(nbuf + buf, c, b) for b, t in enumerate(true)] if buf in bad else true
            self[key] = v
            return v
        def __contains__(self, key):
            return key[0] in bad or key[0] >= nd
    m.buf_init = Init()
    m.iarrs['ir'] = list(listed)
    r = run_function(m, 'raid_check', [len(listed), Ptr(('iarr', 'ir'), 0), nd, np_, SIZE, Ptr(('vec',), 0)])
    return r, m


def check_consistency(ctx, rep):
    """R-C03-4: the consistency test (raid_check/raid_validate) accepts the true failure set (all syndromes identically zero) and,
    when one further corrupted block X is unlisted, some syndrome byte is an invertible function of X's error byte alone"""
    P = ctx.raid
    rep.rule('R-C03-4', 'raid_check: listing exactly the corrupted blocks gives identically-zero syndromes; leaving one corrupted block unlisted makes a syndrome byte an invertible function of its error', 40)
    rnd = random.Random(ctx.seed + 7)
    cfgs = []
    for nd in ([2, 3, 4] if ctx.tier == 'quick' else [2, 3, 4, 5, 8, 33]):
        for np_ in range(2, 7):
            for matrix in (('cauchy', 'power') if np_ <= 3 else ('cauchy',)):
                for nr in range(0, np_ - 1 + 1):
                    if nr >= np_:
                        continue
                    sets = list(itertools.combinations(range(nd + np_), nr))
                    rnd.shuffle(sets)
                    for T in sets[: (4 if ctx.tier == 'quick' else 12)]:
                        cfgs.append((matrix, nd, np_, T))
    _G['P'] = P
    tasks = [(matrix, nd, np_, T, rnd.randrange(1 << 30)) for matrix, nd, np_, T in cfgs]
    with multiprocessing.get_context('fork').Pool(min(16, os.cpu_count() or 1)) as pool:
        results = pool.map(_ctask, tasks, chunksize=4)
    for res in results:
        for kind, inst, ok, det in res:
            if kind == 'unsupported':
                raise AnalysisBroken('E2 cannot interpret %s: %s' % (inst, det))
            rep.check(ok, 'R-C03-4', inst, 'raid/check.c', det, function='raid_check', construct=kind)
    rep.extra['consistency_runs'] = len(cfgs)


def _rank8(rows):
    rows2 = rows[:]
    rk = 0
    for bit in range(8):
        piv = None
        for i_ in range(rk, 8):
            if rows2[i_] >> bit & 1:
                piv = i_
                break
        if piv is None:
            continue
        rows2[rk], rows2[piv] = rows2[piv], rows2[rk]
        for i_ in range(8):
            if i_ != rk and rows2[i_] >> bit & 1:
                rows2[i_] ^= rows2[rk]
        rk += 1
    return rk


def _ctask(t):
    matrix, nd, np_, T, sd = t
    P = _G['P']
    rnd = random.Random(sd)
    out = []
    inst = 'raid_check[%s] nd=%d np=%d corrupted=%s' % (matrix, nd, np_, list(T))
    try:
        r, m = run_consistency(P, matrix, nd, np_, T, T)
    except KernelViolation as e:
        return [('accept true set', inst + ': accepted', False, str(e))]
    except Unsupported as e:
        return [('unsupported', inst, False, str(e))]
    # an identically-zero syndrome is a concrete 0 and takes the `== 0` side by itself; anything recorded here is a syndrome that still
    # depends on data or error bits, i.e. the true set would be rejected for some contents
    ok = not m.collect and r == 0
    out.append(('accept true set', inst + ': accepted', ok, 'all syndromes identically zero, returns %s' % r if ok else '%d syndrome bytes still depend on the contents (first at %s)' % (len(m.collect), m.collect[0][1] if m.collect else '?')))
    if not ok or len(T) + 1 > np_:
        return out
    others = [x for x in range(nd + np_) if x not in T]
    X = rnd.choice(others)
    TX = tuple(sorted(T + (X,)))
    try:
        r, m = run_consistency(P, matrix, nd, np_, TX, T)
    except KernelViolation as e:
        return out + [('reject hidden corruption', inst + ' unlisted=%d' % X, False, str(e))]
    except Unsupported as e:
        return [('unsupported', inst, False, str(e))]
    nbuf = nd + np_
    good = set()
    for f, _ in m.collect:
        if any(x is None for x in f):
            continue
        for c in range(CCHUNK):
            evars = [m.var(nbuf + X, c, b) for b in range(8)]
            mask = 0
            for v in evars:
                mask |= v
            if all((x & ~mask) == 0 for x in f) and any(x for x in f):
                rows = []
                for x in f:
                    row = 0
                    for b, v in enumerate(evars):
                        if x & v:
                            row |= 1 << b
                    rows.append(row)
                if _rank8(rows) == 8:
                    good.add(c)
    okx = good == set(range(CCHUNK))
    out.append(('reject hidden corruption', inst + ': hidden corruption of block %d is always detected' % X, okx,
                'some syndrome byte is an invertible function of the error byte alone' if okx else 'no syndrome byte isolates the error of block %d' % X))
    return out


def check_scan(ctx, rep):
    """raid_scan: the search over candidate failure sets is integer-only code around raid_check.  It is interpreted with raid_check
    replaced by its verified meaning (R-C03-4: accepted iff every corrupted block is listed) for every geometry nd 1..3, np 1..4 and
    every true failure set: with fewer than np corrupted blocks it returns exactly that set, otherwise it reports no solution"""
    from .. import region as RG
    P = ctx.prog
    rep.rule('R-C03-5', 'raid_scan returns exactly the corrupted set (size < np) for every geometry nd<=3, np<=4 and every true failure set; -1 when np or more blocks are corrupted', 100)
    f = P.fn('raid_scan')
    rep.analysed(f)
    import itertools
    for nd in (1, 2, 3):
        for np_ in (1, 2, 3, 4):
            n = nd + np_
            for k in range(0, np_ + 1):
                for bad in itertools.combinations(range(n), k):
                    def ext(ins, args, bad=bad):
                        if ins.callee == 'raid_check':
                            r_, irp = args[0], args[1]
                            listed = set()
                            for j in range(RG.signed(r_ & 0xffffffff, 32)):
                                listed.add(RG.signed(R.mem[(irp.reg, irp.off + 4 * j)] & 0xffffffff, 32))
                            return (0 if set(bad) <= listed else 0xffffffff,)
                        if ins.callee in ('__assert_fail',):
                            raise RG.Unsupported('assertion failed inside raid_scan')
                        return None
                    R = RG.Region(P, extern=ext)
                    ir = R.array('ir', [0x7fffffff] * 8, 4)
                    try:
                        rv = R.run(f, 0, [ir, nd, np_, 64, RG.P_(('obj', 'v'), 0)])
                    except RG.Unsupported as e:
                        raise AnalysisBroken('cannot interpret raid_scan: %s' % e)
                    rv = RG.signed(rv & 0xffffffff, 32)
                    if k < np_:
                        got = [RG.signed(R.mem[(ir.reg, 4 * j)] & 0xffffffff, 32) for j in range(max(rv, 0))]
                        ok = rv == k and got == list(bad)
                        det = 'returns %d with %s' % (rv, got)
                    else:
                        ok = rv == -1
                        det = 'returns %d' % rv
                    rep.check(ok, 'R-C03-5', 'nd=%d np=%d corrupted=%s' % (nd, np_, list(bad)), f.file, det if ok else det + ' (expected %s)' % ('%d with %s' % (k, list(bad)) if k < np_ else '-1'), function='raid_scan', construct='scan result')


def run(ctx, rep):
    rep.level = 'other'   # proof-grade engines, but one clause of the property is a known finding (F46): not a proof of the property as stated
    rep.trusted_base = ['extended Cauchy determinant identity (Roth, Introduction to Coding Theory) for minors of order > 3 (quick) / > 3 (thorough: order 3 also exhaustive)',
                        'clang-14 lowering to LLVM IR', 'E2 semantics table (sa/kernels.py)', 'field model sa/gf.py', 'numpy']
    rep.assumptions = ['size % 64 == 0 and sorted, in-range failure indices (asserted by raid_rec/raid_data; the abstract run reports a reached assertion)',
                       'block pointers do not alias', 'decoder runs enumerate nd <= 3 (quick) / <= 6 (thorough) exhaustively and sample larger nd']
    rep.explanation = ('Minor non-singularity: the Cauchy parameters x_i, y_j, f_j are inferred from raid_gfcauchy itself and the side conditions of the extended Cauchy determinant identity are '
                       'checked, cross-checked by exhaustive determinants of small order and sampled large order; the power matrix is enumerated completely. Decoders: raid_rec and raid_data are '
                       'abstractly interpreted through raid_delta_gen, raid_invert, the generator kernels and each decoder family with the failure set concrete and data, garbage and size symbolic; '
                       'the failed blocks must end up holding exactly the true-data forms and nothing else may be written.')
    check_minors(ctx, rep)
    check_rec(ctx, rep)
    check_consistency(ctx, rep)
    check_scan(ctx, rep)
