"""C14 — safety interlocks refuse destructive syncs and change nothing."""
import re
from ..guards import guards_of, option_atoms
from ..frontend import AnalysisBroken
from ..ir import base
from .. import effects
from .C09 import dead_blocks
from . import C04


def exit_calls(f):
    return [c for c in f.calls('exit')]


def fmt(gs):
    return ' && '.join(('' if p else '!') + a for a, p in gs)


def parity_size_prefix_rule(P, rep, rid):
    """parity_size over recorded sizes x real file sizes equals the usable prefix (shared by C14 and C17)"""
    # the quantity the short-parity interlock compares: what the parity files really hold, never more (a recorded split size larger
    # than the file means the parity was truncated or replaced)
    from .. import region as RG
    import itertools as _it
    rep.rule(rid, 'parity_size (the size the short-parity interlock of state_sync compares with the used size) never counts bytes the split files do not hold: over recorded sizes x real file sizes it equals the usable prefix: the sum of min(recorded, on disk) up to and including the first split that is shorter than recorded', 20)
    ps = P.fn('parity_size')
    rep.analysed(ps)
    s = P.fn('state_sync')
    uses = [c_ for c_ in s.calls('parity_size')]
    if not uses:
        raise AnalysisBroken('state_sync no longer measures the parity with parity_size')
    dh = P.distructs.get('snapraid_parity_handle'); dsp = P.distructs.get('snapraid_split_handle'); dst = P.distructs.get('stat')
    if not (dh and dsp and dst):
        raise AnalysisBroken('parity layouts not found')
    def off_(d, name):
        return [m_ for m_ in d['members'] if m_['name'] == name][0]['off']
    H_MAC, H_MAP = off_(dh, 'split_mac'), off_(dh, 'split_map')
    S_SIZE, S_ST = off_(dsp, 'size'), off_(dsp, 'st') + off_(dst, 'st_size')
    for mac in (1, 2):
        for rec in _it.product((8, 16), repeat=mac):
            for disk in _it.product((0, 8, 16), repeat=mac):
                R = RG.Region(P)
                hp = RG.P_(('obj', 'handle'), 0); R.zero_regions.add(hp.reg)
                R.mem[(hp.reg, H_MAC)] = mac
                for k_ in range(mac):
                    R.mem[(hp.reg, H_MAP + k_ * dsp['size'] + S_SIZE)] = rec[k_]
                    R.mem[(hp.reg, H_MAP + k_ * dsp['size'] + S_ST)] = disk[k_]
                out = R.array('out', [0], 8)
                try:
                    R.run(ps, 0, [hp, out])
                except RG.Unsupported as e:
                    raise AnalysisBroken('cannot interpret parity_size: %s' % e)
                got = RG.signed(R.mem[(out.reg, 0)], 64)
                # the parity is usable only up to the first split that is shorter than recorded: every position behind the missing part
                # maps to a wrong offset, so nothing after it counts (F18: a plain sum let a later split hide the shortfall)
                want = 0
                for a_, b_ in zip(rec, disk):
                    want += min(a_, b_)
                    if b_ < a_:
                        break
                rep.check(got == want, rid, 'recorded split sizes %s, files on disk %s' % (list(rec), list(disk)), ps.file,
                          'reports %d bytes' % got if got == want else 'reports %d bytes of parity although only the first %d are usable (a split shorter than recorded ends the usable parity): a truncated or replaced parity file passes the interlock and sync re-extends it with zeros' % (got, want),
                          function='parity_size', construct='parity size counts recorded bytes')



def used_parity_covers_skippable_rule(P, rep, rid):
    """the short-parity interlock compares the size of the parity files with `the parity in use` (parity_used_size).  In use means:
    sync will rely on what is stored there WITHOUT rewriting it.  That is the case for every synced block (BLK) -- and for a CHG
    block that carries a real past hash: when the data read still matches that hash (a file that was only touched, or renamed where
    inodes are not trusted) sync keeps the parity and records the block as synced.  A predicate that counts BLK only lets `touch` on
    the file at the tail of the array disarm the interlock: the lost stripes are re-extended with zeros, never written, and
    recorded as synced.  parity_used_size is interpreted (E10) for one disk with one block over state x past-hash kind."""
    from .. import region as RG
    from .C06 import blk_value
    rep.rule(rid, 'parity_used_size counts a position as in use iff its block is BLK, or CHG with a real (unique) past hash -- the blocks whose parity sync may keep without rewriting', 7)
    f = P.fn('parity_used_size')
    rep.analysed(f)
    st = dict(blk_value(P))
    rd = P.fn('state_read_content')
    dele = [rd.const_of(c.ops[1]) for c in rd.calls('block_state_set') if rd.const_of(c.ops[1]) not in st.values()]
    if len(set(dele)) != 1:
        raise AnalysisBroken('DELETED state constant not recovered')
    st['DELETED'] = dele[0]; st['EMPTY'] = None
    nl = P.distructs.get('tommy_node_struct'); bl = P.distructs.get('snapraid_block'); sl = P.distructs.get('snapraid_state')
    if not nl or not bl or not sl:
        raise AnalysisBroken('layouts not found')
    no = {m['name']: m['off'] for m in nl['members']}; bo = {m['name']: m['off'] for m in bl['members']}; so = {m['name']: m['off'] for m in sl['members']}
    for name in ('EMPTY', 'BLK', 'CHG', 'REP', 'DELETED'):
        for kind in (('REAL', 'ZERO', 'INVALID') if name == 'CHG' else ('REAL',)):
            bp = 0
            R = RG.Region(P, extern=None)
            def ext(ins, args):
                c = ins.callee
                if c == 'fs_size':
                    return (1,)
                if c in ('fs_par2block_find', 'fs_par2block_get', 'fs_par2block_maybe'):
                    return (blk[0],)
                return None
            R.extern = ext
            R.discover = []
            blk = [0]
            if st[name] is not None:
                b_ = RG.P_(('obj', 'blk'), 0)
                R.mem[(b_.reg, bo['state'])] = st[name]
                byte = {'ZERO': 0xFF, 'INVALID': 0x00}.get(kind)
                for k_ in range(16):
                    R.mem[(b_.reg, bo['hash'] + k_)] = byte if byte is not None else (0x31 + 3 * k_) & 0xff
                blk[0] = b_
            R.mem[(('glob', 'BLOCK_HASH_SIZE'), 0)] = 16
            sp = RG.P_(('obj', 'state'), 0); n0 = RG.P_(('node', 0), 0)
            R.zero_regions.add(sp.reg)
            R.mem[(n0.reg, no['data'])] = RG.P_(('disk', 0), 0); R.mem[(n0.reg, no['next'])] = 0
            R.mem[(sp.reg, so['disklist'])] = n0
            try:
                got = R.run(f, 0, [sp])
            except RG.Unsupported as e:
                raise AnalysisBroken('cannot interpret parity_used_size: %s' % e)
            want = 1 if (name == 'BLK' or (name == 'CHG' and kind == 'REAL')) else 0
            rep.check(got == want, rid, 'last block %s%s' % (name, ' with past hash %s' % kind if name == 'CHG' else ''), f.file,
                      'in use: %s' % bool(got) if got == want else 'in use: %s, expected %s -- %s' % (bool(got), bool(want), 'sync keeps the parity of a CHG block whose data still matches its real past hash (a touched or renamed file): the position must count as in use, or a parity file that lost its tail is accepted after `touch`, re-extended with zeros and the blocks recorded as synced' if want else 'only blocks whose parity sync may keep can hold the interlock'),
                      function='parity_used_size', construct='used parity predicate')


def run(ctx, rep):
    P = ctx.prog
    rep.explanation = ('Each interlock is located as an exit(EXIT_FAILURE) whose control-dependence guard (conjunction of dominating branch outcomes) contains exactly its documented override option and the documented '
                       'condition; on the sync path of main every interlock precedes the first content/parity-altering effect in dominance order; the lock is taken before the state is read.')
    rep.rule('R-C14-1', 'each interlock exit is guarded by exactly its override option (and !is_diff where documented) plus its condition', 4)
    rep.rule('R-C14-2', 'nothing altered before refusing: on the sync path lock -> state_read -> state_scan -> state_sync{parity_create, size interlock, parity_chsize, state_write, loop}', 6)
    rep.rule('R-C14-3', 'the lock is taken before state_read in every command branch and released after the command body; flock(LOCK_EX|LOCK_NB)', 3)

    def find_exit(f, must_atoms, label, forbid_other_options=True, message=None):
        """the exit whose guard contains all `must_atoms`; report"""
        best = None
        for c in exit_calls(f):
            gs = guards_of(f, c)
            if all(any(a == ma and p == mp for a, p in gs) for ma, mp in must_atoms):
                if message:
                    # the block (or its predecessors) prints the message
                    txt = ' '.join(f.expr(x.ops[0]) for b in [c.block] + f.pred[c.block] for x in f.blocks[b] if x.op == 'call' and x.callee and x.callee.startswith('log_') and x.ops)
                    if message not in txt:
                        continue
                best = (c, gs)
        if best is None:
            rep.fail('R-C14-1', label, f.file, 'no exit(EXIT_FAILURE) guarded by %s found: the interlock is gone or keyed to another option' % fmt(must_atoms), function=base(f.name), construct=label)
            return None
        c, gs = best
        opts = option_atoms(gs)
        want = {(a, p) for a, p in must_atoms if 'opt.' in a}
        ok = (opts == want) if forbid_other_options else want <= opts
        rep.check(ok, 'R-C14-1', label, c.loc(), 'guard: %s' % fmt(gs), function=base(f.name), construct=label)
        rep.analysed(f)
        return c

    # all files missing / rewritten
    f = P.fn('state_diffscan')
    c1 = find_exit(f, [('state->opt.force_empty', False), ('is_diff', False), ('done', True)], 'empty-disk interlock (--force-empty)')
    # `done` is set only under the documented per-disk condition
    if c1 is not None:
        ds = [i for i in f.all_insts() if i.op == 'store' and f.expr(i.ops[1]) == '&done' and f.const_of(i.ops[0]) == 1 and f.dominates(f.blocks[[b for b in range(len(f.blocks)) if f.term(b).op == 'br' and len(f.term(b).ops) == 3 and 'force_empty' in f.expr(f.term(b).ops[0])][0]][-1], i) and f.bdominates(i.block, i.block)]
        ds = [i for i in ds if c1.id in f.reach([i])]
        cond_ok = False
        for i in ds:
            gs = dict(guards_of(f, i))
            need = {'scan->count_equal': False, 'scan->count_move': False, 'scan->count_restore': False}
            if all(gs.get(k) is v for k, v in need.items()):
                cond_ok = True
        rep.check(cond_ok, 'R-C14-1', 'empty-disk condition: equal=move=restore=0 and (remove or change)', f.file, '', function='state_diffscan', construct='empty-disk condition')
    # zero size
    f = P.fn('scan_file')
    find_exit(f, [('state->opt.force_zero', False), ('is_diff', False), ('is_original_file_size_different_than_zero', True)], 'zero-size interlock (--force-zero)')
    # short parity
    f = P.fn('state_sync')
    c3 = find_exit(f, [('state->opt.force_realloc', False), ('state->opt.force_full', False)], 'short-parity interlock (--force-full/--force-realloc)')
    # the comparison itself (minimum over the levels of the whole blocks each file holds, against the used size) is decided by
    # interpretation: R-C14-1p -- no expression-shape rule here
    # content/config mismatches: no option may disable them
    f = P.fn('state_read_content')
    for msg, label in (('Mismatching \'blocksize\'', 'blocksize mismatch interlock'), ('Mismatching \'hashsize\'', 'hashsize mismatch interlock'), ('not present in the configuration file', 'unknown disk interlock')):
        hit = None
        for c in exit_calls(f):
            blks = {c.block}
            frontier = [c.block]
            for _ in range(4):
                nf = []
                for b in frontier:
                    for pb in f.pred[b]:
                        if pb not in blks and f.bdominates(pb, c.block):
                            blks.add(pb); nf.append(pb)
                frontier = nf
            txt = ' '.join(f.expr(x.ops[0]) for b in blks for x in f.blocks[b] if x.op == 'call' and x.callee and x.callee.startswith('log_') and x.ops)
            if msg in txt and (hit is None or len(blks) < hit[1]):
                hit = (c, len(blks))
        if hit is None:
            rep.fail('R-C14-1', label, f.file, 'exit with message "%s" not found' % msg, function='state_read_content', construct=label)
        else:
            hit = hit[0]
            gs = guards_of(f, hit)
            opts = {(a, p) for a, p in option_atoms(gs) if 'skip_disk_access' not in a}
            rep.check(not opts, 'R-C14-1', label, hit.loc(), 'guard: %s' % fmt([g for g in gs if 'c==' not in g[0].replace(' ', '')][-4:]), function='state_read_content', construct=label)
    rep.analysed(f)
    # uuid limit
    f = P.fn('state_map')
    find_exit(f, [('state->opt.force_uuid', False)], 'UUID-change interlock (--force-uuid)')
    # lock
    m = P.fn('main')
    rep.analysed(m)
    ll = list(m.calls('lock_lock'))
    okl = len(ll) == 1
    if okl:
        dm = dead_blocks(m)
        brs = C04.cond_branches_on_call(m, ll[0])
        okl = any((br.ops[2][1] in dm) or (br.ops[1][1] in dm) for br, ci in brs)
        gs = guards_of(m, ll[0])
        okl = okl and ('opt.skip_lock', False) in gs
    rep.check(okl, 'R-C14-1', 'lock interlock: lock_lock failure exits; only skip_lock bypasses it', ll[0].loc() if ll else m.file, '', function='main', construct='lock interlock')
    # skip_lock is set only for devices/smart-like operations and the test option
    sets = [i for i in m.all_insts() if i.op == 'store' and m.expr(i.ops[1]).endswith('opt.skip_lock') and m.const_of(i.ops[0]) == 1]
    rep.check(0 < len(sets) <= 3, 'R-C14-1', 'skip_lock set at %d sites (device commands, test option)' % len(sets), m.file, str([s.loc() for s in sets]), function='main', construct='skip_lock setters')
    # which commands run without the lock: fold main with `operation` pinned to each command; a skip_lock store that is reachable for
    # some commands only (not the test option, which is reachable for all) may be reachable only for the device-level commands
    from .C12 import operation_values
    from ..flags import pinned_reach, local_env
    ovals = operation_values(P)
    per_op = {}
    for name, v in ovals.items():
        reach, _ = pinned_reach(m, local_env(m, {'operation': v}))
        per_op[name] = {x.id for x in sets if x.id in reach}
    common = set.intersection(*per_op.values()) if per_op else set()
    unlocked = sorted(n for n, ids in per_op.items() if ids - common)
    allowed_unlocked = {'devices', 'smart'}
    rep.check(bool(per_op) and set(unlocked) <= allowed_unlocked and len(unlocked) >= 1, 'R-C14-1', 'only the device-level commands (devices, smart) run without taking the lock', m.file,
              'commands that skip the lock: %s' % unlocked, function='main', construct='commands without lock')

    # ---- R-C14-2 ordering on the sync path
    from .C12 import operation_values
    from ..flags import pinned_reach, local_env
    vals = operation_values(P)
    reach, fo = pinned_reach(m, local_env(m, {'operation': vals['sync']}))
    seq = []
    for name in ('lock_lock', 'state_read', 'state_scan', 'state_sync'):
        cs = [c for c in m.calls(name) if c.id in reach]
        if len(cs) != 1:
            raise AnalysisBroken('main(sync): expected one reachable call of %s, found %d' % (name, len(cs)))
        seq.append(cs[0])
    for a, b in zip(seq, seq[1:]):
        ok = m.must_pass(b, [a]) if a.callee != 'lock_lock' else m.dominates(m.blocks[a.block][0], b) or m.must_pass(b, [a])
        if a.callee == 'lock_lock':
            # the lock call is conditional on !skip_lock: it precedes state_read on every path that takes it
            ok = b.id in m.reach([a]) and a.id not in m.reach([b])
        rep.check(ok, 'R-C14-2', 'main(sync): %s before %s' % (a.callee, b.callee), b.loc(), '', function='main', construct='%s->%s' % (a.callee, b.callee))
    # no state_write reachable on the sync path before state_sync
    pre = m.reach([m.entry()], stop={seq[3].id}, include_start=True)
    early = [c for c in m.calls({'state_write'}) if c.id in pre and c.id in reach]
    rep.check(not early, 'R-C14-2', 'main(sync): no content save before state_sync', m.file, str([c.loc() for c in early]), function='main', construct='early save')
    # effects of state_read and state_scan: none altering
    for fn in ('state_read', 'state_scan'):
        eff, seen, fns = effects.command_effects(P, fn)
        bad = set(eff) & {'CONTENT', 'PARITY', 'PARITY_CREATE', 'DATA', 'MTIME', 'MKDIR', 'POOL'}
        rep.check(not bad, 'R-C14-2', '%s has no content/parity/data write effect' % fn, P.fn(fn).file, 'effects %s' % sorted(eff), function=fn, construct='effects')
    # inside state_sync: size interlock before parity_chsize / state_write / loop; parity_create before it (creates only)
    s = P.fn('state_sync')
    if c3 is not None:
        later = list(s.calls({'parity_chsize', 'state_write', 'state_sync_process', 'state_hash_process'}))
        ok = all(c3.id not in s.reach([c]) for c in later) and all(any(True for _ in [0]) for _ in [0])
        # and every path to those calls passes the interlock test block
        tb = [b for b in range(len(s.blocks)) if s.term(b).op == 'br' and len(s.term(b).ops) == 3 and 'file_paritymax<used_paritymax' in s.expr(s.term(b).ops[0]).replace(' ', '')]
        force = [b for b in range(len(s.blocks)) if s.term(b).op == 'br' and len(s.term(b).ops) == 3 and 'force_realloc' in s.expr(s.term(b).ops[0])]
        ok = ok and bool(force) and all(s.bdominates(force[0], c.block) for c in later)
        rep.check(ok, 'R-C14-2', 'state_sync: the size interlock precedes parity_chsize, the pre-sync save, pre-hash and the sync loop', s.file, '', function='state_sync', construct='interlock order')
    # ---- R-C14-3
    lk = P.fn('lock_lock')
    rep.analysed(lk)
    fl = list(lk.calls('flock'))
    rep.check(len(fl) == 1 and lk.const_of(fl[0].ops[1]) == (2 | 4), 'R-C14-3', 'lock_lock: flock(LOCK_EX|LOCK_NB)', lk.file, 'operation %s' % (lk.const_of(fl[0].ops[1]) if fl else None), function='lock_lock', construct='flock flags')
    reads = list(m.calls('state_read'))
    okr = all(r.id in m.reach([ll[0]]) and ll[0].id not in m.reach([r]) for r in reads) if ll else False
    rep.check(okr and len(reads) >= 10, 'R-C14-3', 'main: lock_lock precedes every state_read', m.file, '%d state_read sites' % len(reads), function='main', construct='lock before read')
    ul = list(m.calls('lock_unlock'))
    bodies = list(m.calls({'state_sync', 'state_scrub', 'state_check', 'state_write', 'state_touch', 'state_pool', 'state_rehash'}))
    oku = len(ul) == 1 and all(ul[0].id in m.reach([b]) and b.id not in m.reach([ul[0]]) for b in bodies)
    rep.check(oku, 'R-C14-3', 'main: lock released only after every command body', m.file, '', function='main', construct='unlock after body')

    parity_size_prefix_rule(P, rep, 'R-C14-1s')
    short_parity_interlock_rule(P, rep, 'R-C14-1p')
    used_parity_covers_skippable_rule(P, rep, 'R-C14-1u')
    empty_disk_interlock_rule(P, rep, 'R-C14-1e')
    interlock_counter_rules(P, rep, 'R-C14-1l', 'R-C14-1c')
    # the is_diff flag turns the zero-size refusal into a report (diff must not abort): it has to travel unchanged from the command
    # to the place that tests it -- in every call between functions that both have an `is_diff` parameter the callee's is_diff is
    # the caller's is_diff
    rep.rule('R-C14-1d', 'is_diff is passed through unchanged along the scan call chain (scan_dir -> scan_sub -> scan_file / scan_link / scan_emptydir)', 5)
    npass = 0
    for g_ in P.defined():
        if not (g_.file or '').endswith('scan.c'):
            continue
        mine = _params_named(g_, 'is_diff')
        if not mine:
            continue
        my_al = [aid for aid, k in g_.arg_allocas().items() if k == mine[0]]
        for c_ in g_.calls():
            h_ = P.functions.get(c_.callee_full) if c_.callee_full else None
            if h_ is None or h_.decl:
                continue
            theirs = _params_named(h_, 'is_diff')
            if not theirs:
                continue
            npass += 1
            o_ = g_.inst_of(c_.ops[theirs[0]])
            ok = o_ is not None and o_.op == 'load' and g_.strip(o_.ops[0])[0] == 'i' and g_.strip(o_.ops[0])[1] in my_al
            rep.check(ok, 'R-C14-1d', '%s -> %s' % (base(g_.name), base(h_.name)), c_.loc(), 'is_diff passed as is_diff' if ok else 'the callee receives `%s` as its is_diff: below this call sync behaves like diff (the zero-size interlock only reports) or diff like sync' % g_.expr(c_.ops[theirs[0]]),
                      function=base(g_.name), construct='is_diff pass-through to %s' % base(h_.name))
    if npass < 5:
        raise AnalysisBroken('scan call chain with is_diff not recognised (%d calls)' % npass)


def _params_named(g, name):
    """indices of the parameters called `name` -- by the (reference-mapped) name of the local each parameter is spilled to, so that a
    renamed parameter keeps its role; falls back to the declared name"""
    byal = sorted(k for aid, k in g.arg_allocas().items() if (g.insts[aid].var or '') == name)
    return byal or [k for k, a in enumerate(g.args) if a.get('name') == name]


def short_parity_interlock_rule(P, rep, rid):
    """the part of state_sync between the opening of the parity files and the first action on them (the loop over the levels and the
    DANGER test) is integer-only code around parity_create / parity_size: interpret it (E10) with those two modelled, over every
    measured size 0..9 bytes (block 4) for one and two levels and used sizes 0..2 blocks.  Expected: sync goes on iff every level
    holds at least the used number of WHOLE blocks; a partial block does not count (C14e: rounding up accepted a parity cut inside
    its last used block, which sync then re-extended with zeros)."""
    from .. import region as RG
    import itertools
    f = P.fn('state_sync')
    rep.analysed(f)
    rep.rule(rid, 'state_sync short-parity interlock over measured sizes 0..9 (block 4) x 1..2 levels x used 0..2 blocks: sync proceeds iff min over levels of floor(size / block) >= used, otherwise it exits before touching anything', 1)
    pc = list(f.calls('parity_create'))
    # the measurement of the interlock is the parity_size call in the loop that opens the parity files
    ps = [c for c in f.calls('parity_size') if pc and f.loop_of(c.block) is not None and f.loop_of(c.block) == f.loop_of(pc[0].block)]
    if len(pc) != 1 or len(ps) != 1:
        raise AnalysisBroken('state_sync: parity_create / parity_size call not found')
    h = f.loop_of(ps[0].block)
    if h is None:
        raise AnalysisBroken('state_sync: the level loop was not found')
    pre = [b for b in f.pred[h] if b != h and b not in f.loops[h]]
    if len(pre) != 1:
        raise AnalysisBroken('state_sync: level loop has no single preheader')
    ds = P.distructs.get('snapraid_state'); do = P.distructs.get('snapraid_option')
    if not ds:
        raise AnalysisBroken('layout of snapraid_state not found')
    def off(d, name):
        return [m for m in d['members'] if m['name'] == name][0]['off']
    O_LEVEL, O_BS = off(ds, 'level'), off(ds, 'block_size')

    class Refused(Exception):
        pass

    class Proceeds(Exception):
        pass
    BS = 4
    bad = None; n = 0
    for nlev in (1, 2):
        for sizes in itertools.product(range(0, 10), repeat=nlev):
            for used in (0, 1, 2):
                state_seen = {'k': 0}
                def ext(ins, args):
                    cal = ins.callee
                    if cal == 'parity_create':
                        return (0,)
                    if cal == 'parity_size':
                        R.mem[(args[1].reg, args[1].off)] = sizes[min(state_seen['k'], nlev - 1)]
                        state_seen['k'] += 1
                        return (0,)
                    if cal in ('log_fatal', 'lev_name', 'lev_config_name', 'log_tag', 'log_error', 'msg_warning'):
                        return (0,)
                    if cal == 'exit':
                        raise Refused()
                    raise Proceeds()
                R = RG.Region(P, extern=ext)
                sp = RG.P_(('obj', 'state'), 0); R.zero_regions.add(sp.reg)
                R.discover = []            # locals first written after the interlock read as 0 (skip_sync)
                R.zero_regions.add(('glob', 'exit_failure'))
                R.mem[(sp.reg, O_LEVEL)] = nlev
                R.mem[(sp.reg, O_BS)] = BS
                try:
                    R.set_local(f, 'state', sp)
                    R.set_local(f, 'used_paritymax', used)
                    R.set_local(f, 'file_paritymax', 0)
                except Exception as e:
                    raise AnalysisBroken('state_sync: locals of the interlock not found: %s' % e)
                outcome = None
                try:
                    R.run(f, pre[0], [], start_idx=0)
                    outcome = 'returns'
                except Refused:
                    outcome = 'refused'
                except Proceeds:
                    outcome = 'proceeds'
                except RG.Unsupported as e:
                    raise AnalysisBroken('cannot interpret the interlock of state_sync: %s' % e)
                n += 1
                want = 'refused' if min(s_ // BS for s_ in sizes) < used else 'proceeds'
                if outcome != want and bad is None:
                    bad = 'levels hold %s bytes (block %d), %d blocks are in use: sync %s, expected %s%s' % (list(sizes), BS, used, outcome, want,
                          ' -- a parity file cut inside a used block is accepted and will be re-extended with zeros' if want == 'refused' else '')
    rep.check(bad is None, rid, 'state_sync refuses a parity that holds fewer whole blocks than are in use', ps[0].loc(), '%d evaluations' % n if bad is None else bad, function='state_sync', construct='short parity test')


def empty_disk_interlock_rule(P, rep, rid):
    """the "all the files previously present in disk X are now missing or rewritten" interlock of state_diffscan, interpreted (E10)
    from the statement that clears `done` to the exit / the next section, over every combination of zero / non-zero scan counters of
    one and two disks.  Expected: sync is refused iff some disk has no file left as it was (equal = move = restore = 0) and at least
    one recorded file gone or changed (remove or change != 0).  Counters that describe NEW files (copy, insert) must not matter."""
    from .. import region as RG
    import itertools
    f = P.fn('state_diffscan')
    rep.analysed(f)
    rep.rule(rid, 'state_diffscan empty-disk interlock over all zero/non-zero values of the 7 scan counters (1 disk exhaustively, 2 disks sampled): refused iff some disk has equal = move = restore = 0 and (remove != 0 or change != 0)', 1)
    dsn = P.distructs.get('snapraid_scan'); dn = P.distructs.get('tommy_node_struct'); ds = P.distructs.get('snapraid_state')
    if not (dsn and dn and ds):
        raise AnalysisBroken('layouts of snapraid_scan / tommy_node not found')
    def off(d, name):
        return [m for m in d['members'] if m['name'] == name][0]['off']
    CN = ['count_equal', 'count_move', 'count_restore', 'count_change', 'count_copy', 'count_insert', 'count_remove']
    OC = {k: off(dsn, k) for k in CN}
    N_NEXT, N_DATA = off(dn, 'next'), off(dn, 'data')
    S_DISKLIST = off(ds, 'disklist')
    # region start: the store `done = 0` that is followed by the loop testing the counters
    cnt_loads = [i for i in f.all_insts() if i.op == 'load' and f.expr(['i', i.id]).endswith('->count_equal')]
    if not cnt_loads:
        raise AnalysisBroken('state_diffscan: count_equal is not read')
    h = f.loop_of(cnt_loads[0].block)
    if h is None:
        raise AnalysisBroken('state_diffscan: interlock loop not found')
    pre = [b for b in f.pred[h] if b != h and b not in f.loops[h]]
    if len(pre) != 1:
        raise AnalysisBroken('state_diffscan: interlock loop has no single preheader')
    # the preheader initialises the flags (done / all_missing / all_rewritten) and the two cursors: start at its first instruction

    class Refused(Exception):
        pass

    class Proceeds(Exception):
        pass
    bad = None; n = 0
    def cases():
        for v in itertools.product((0, 1), repeat=len(CN)):
            yield (dict(zip(CN, v)),)
        base_ = dict.fromkeys(CN, 0)
        for v in itertools.product((0, 2), repeat=5):
            d2 = dict(base_); d2.update(zip(['count_equal', 'count_restore', 'count_change', 'count_copy', 'count_remove'], v))
            yield (dict(base_, count_equal=3), d2)
            yield (d2, dict(base_, count_equal=3))
    for disks in cases():
        def ext(ins, args):
            cal = ins.callee
            if cal in ('log_fatal', 'log_tag', 'log_error', 'msg_warning', 'log_flush'):
                return (0,)
            if cal == 'exit':
                raise Refused()
            raise Proceeds()
        R = RG.Region(P, extern=ext)
        R.discover = []
        R.zero_regions.add(('glob', 'exit_failure'))
        sp = RG.P_(('obj', 'state'), 0); R.zero_regions.add(sp.reg)
        prev_d = prev_s = 0
        for k in reversed(range(len(disks))):
            dn_ = RG.P_(('obj', 'dnode%d' % k), 0); sn_ = RG.P_(('obj', 'snode%d' % k), 0)
            do_ = RG.P_(('obj', 'disk%d' % k), 0); so_ = RG.P_(('obj', 'scan%d' % k), 0)
            for r_ in (dn_, sn_, do_, so_):
                R.zero_regions.add(r_.reg)
            R.mem[(dn_.reg, N_NEXT)] = prev_d; R.mem[(dn_.reg, N_DATA)] = do_
            R.mem[(sn_.reg, N_NEXT)] = prev_s; R.mem[(sn_.reg, N_DATA)] = so_
            for c_, v_ in disks[k].items():
                R.mem[(so_.reg, OC[c_])] = v_
            prev_d, prev_s = dn_, sn_
        R.mem[(sp.reg, S_DISKLIST)] = prev_d
        try:
            R.set_local(f, 'state', sp)
            R.set_local(f, 'is_diff', 0)
            R.set_local(f, 'scanlist', prev_s)
        except Exception as e:
            raise AnalysisBroken('state_diffscan: locals of the interlock not found: %s' % e)
        try:
            R.run(f, pre[0], [], start_idx=0)
            outcome = 'returns'
        except Refused:
            outcome = 'refused'
        except Proceeds:
            outcome = 'proceeds'
        except RG.Unsupported as e:
            raise AnalysisBroken('cannot interpret the empty-disk interlock: %s' % e)
        n += 1
        want = 'refused' if any(d['count_equal'] == 0 and d['count_move'] == 0 and d['count_restore'] == 0 and (d['count_remove'] != 0 or d['count_change'] != 0) for d in disks) else 'proceeds'
        if outcome == 'returns':
            outcome = 'proceeds'
        if outcome != want and bad is None:
            bad = 'scan counters %s: sync %s, expected %s%s' % ([{k_: v_ for k_, v_ in d.items() if v_} for d in disks], outcome, want,
                  ' -- every recorded file of the disk is gone or rewritten, yet the array state and parity are updated without --force-empty' if want == 'refused' else '')
    rep.check(bad is None, rid, 'state_diffscan refuses exactly when all recorded files of a disk are missing or rewritten', f.blocks[h][0].loc(), '%d evaluations' % n if bad is None else bad, function='state_diffscan', construct='empty-disk predicate')


def interlock_counter_rules(P, rep, rid_l, rid_c):
    """the empty-disk interlock reads per-disk counters filled by the scan.  Two necessary conditions for it to mean "all files
    previously known on the disk are missing or rewritten":
    (l) the counters that disarm it (equal / move / restore: "a known file is still there") count regular files only -- a symbolic
        link or hardlink that is still in place says nothing about the files the parity protects;
    (c) a known file found rewritten in place (same path, different stamp: the record is removed) is counted as changed (or removed)
        on every path, also when the new content is recognised as a copy of a file of another disk."""
    from ..grammar import qual_member
    rep.rule(rid_l, 'the scan counters that disarm the empty-disk interlock (count_equal, count_move, count_restore) are incremented only for regular files (in scan_file)', 1)
    offenders = []
    nsite = 0
    for f in P.defined():
        if not (f.file or '').endswith('scan.c'):
            continue
        for i in f.all_insts():
            if i.op != 'store':
                continue
            q = qual_member(f, i.ops[1]) if f.inst_of(i.ops[1]) is not None else None
            if q in ('snapraid_scan.count_equal', 'snapraid_scan.count_move', 'snapraid_scan.count_restore'):
                v = f.inst_of(i.ops[0])
                if v is not None and v.op == 'add' and f.const_of(v.ops[1]) == 1:      # ++counter (the totals of the summary add another counter)
                    nsite += 1
                    if base(f.name) != 'scan_file':
                        offenders.append((f, i, q))
    if nsite < 3:
        raise AnalysisBroken('scan counters not recognised (%d increment sites)' % nsite)
    if not offenders:
        rep.check(True, rid_l, 'kept-file counters are incremented in scan_file only', 'cmdline/scan.c', '%d increment sites' % nsite, function='scan_file', construct='kept counters')
    for f, i, q in offenders:
        rep.check(False, rid_l, '%s: ++%s' % (base(f.name), q.split('.')[1]), i.loc(),
                  '%s counts an unchanged link as a kept file: one symbolic link or hardlink left on the disk disarms the "all files missing or rewritten" interlock' % base(f.name),
                  function=base(f.name), construct='++%s for a link' % q.split('.')[1])
    rep.rule(rid_c, 'scan_file: a recorded file found rewritten in place (its record is removed) is counted in count_change or count_remove on every path to the return', 1)
    f = P.fn('scan_file')
    rep.analysed(f)
    rm = list(f.calls('scan_file_remove'))
    cnt = [i for i in f.all_insts() if i.op == 'store' and f.inst_of(i.ops[1]) is not None and qual_member(f, i.ops[1]) in ('snapraid_scan.count_change', 'snapraid_scan.count_remove')
           and f.inst_of(i.ops[0]) is not None and f.inst_of(i.ops[0]).op == 'add']
    if not rm or not cnt:
        raise AnalysisBroken('scan_file: removal of the rewritten record / change counters not found')
    for c in rm:
        r_ = f.reach([c], stop={x.id for x in cnt})
        esc = [r for r in f.returns() if r.id in r_]
        rep.check(not esc, rid_c, 'scan_file: the record removed at line %s is counted as changed' % c.line, c.loc(),
                  'counted on every path' if not esc else 'a path from the removal of the rewritten record reaches the return without ++count_change (the copy detection reports the new content as a copy instead): a disk whose files were all overwritten by copies of another disk (wrong file-system mounted) passes the interlock',
                  function='scan_file', construct='rewritten file not counted')
