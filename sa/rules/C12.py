"""C12 — commands modify only what they are documented to modify (E5)."""
import os
from .. import effects, ir, frontend
from ..frontend import AnalysisBroken, VERIF
from ..ir import base

OPS = {'diff': 'OPERATION_DIFF', 'sync': 'OPERATION_SYNC', 'check': 'OPERATION_CHECK', 'fix': 'OPERATION_FIX', 'test-dry': 'OPERATION_DRY',
       'dup': 'OPERATION_DUP', 'list': 'OPERATION_LIST', 'pool': 'OPERATION_POOL', 'rehash': 'OPERATION_REHASH', 'scrub': 'OPERATION_SCRUB',
       'status': 'OPERATION_STATUS', 'test-rewrite': 'OPERATION_REWRITE', 'test-read': 'OPERATION_READ', 'touch': 'OPERATION_TOUCH',
       'up': 'OPERATION_SPINUP', 'down': 'OPERATION_SPINDOWN', 'devices': 'OPERATION_DEVICES', 'smart': 'OPERATION_SMART'}
ALWAYS = {'LOCK', 'LOG', 'STDERR', 'ABORT', 'STREAM_WRITE'}
ALLOWED = {
    'status': set(), 'list': set(), 'dup': set(), 'diff': set(), 'check': set(), 'devices': set(), 'test-dry': set(), 'test-read': set(),
    'scrub': {'CONTENT'},
    'sync': {'CONTENT', 'PARITY', 'PARITY_CREATE', 'TESTRUN'},
    'fix': {'DATA', 'MKDIR', 'MTIME', 'PARITY', 'PARITY_CREATE'},
    'pool': {'POOL', 'MKDIR', 'LMTIME'},
    'touch': {'CONTENT', 'MTIME'},
    'rehash': {'CONTENT'}, 'test-rewrite': {'CONTENT'},
    'up': {'DEVICE_SPIN'}, 'down': {'DEVICE_CMD'}, 'smart': {'DEVICE_CMD'},
}
# the effect classes that the documented behaviour of a command *requires* (catches a check that went blind)
REQUIRED = {'sync': {'CONTENT', 'PARITY'}, 'fix': {'DATA', 'PARITY', 'MTIME'}, 'scrub': {'CONTENT'}, 'pool': {'POOL'}, 'touch': {'MTIME', 'CONTENT'}}


def operation_values(P):
    """OPERATION_* are macros: recover the mapping command name -> constant from main's strcmp chain"""
    f = P.fn('main')
    vals = {}
    for c in f.calls('strcmp'):
        s = f.expr(c.ops[1]).strip('"')
        if s not in OPS:
            continue
        # the true edge of `strcmp(...) == 0` stores the constant into `operation`
        for u in f.users.get(c.id, ()):
            if u.op == 'icmp':
                for br in f.users.get(u.id, ()):
                    if br.op == 'br' and len(br.ops) == 3:
                        tb = br.ops[2][1] if u.pred == 'eq' else br.ops[1][1]
                        for i in f.blocks[tb]:
                            if i.op == 'store' and f.expr(i.ops[1]) == '&operation':
                                v = f.const_of(i.ops[0])
                                if v is not None:
                                    vals[s] = v
    return vals


UTIME_OMIT = (1 << 30) - 2


def atime_kept_rule(P, rep, rid):
    """touch `changes only the sub-second part of time-stamps that were zero`, fix restores the recorded modification time: neither has
    any business with the ACCESS time.  fmtime() / lmtime() hand two time-stamps to futimens() / utimensat(): entry 0 is the access
    time, entry 1 the modification time.  Entry 0 must ask the kernel to leave the access time alone (tv_nsec = UTIME_OMIT);
    a copy of the new modification time there moves the access time -- seconds included -- of every file touch or fix handles."""
    rep.rule(rid, 'fmtime / lmtime: the access-time entry handed to futimens / utimensat is UTIME_OMIT (only the modification time is set)', 2)
    n = 0
    for fn, prim, argi in (('fmtime', 'futimens', 1), ('lmtime', 'utimensat', 2)):
        f = P.fn(fn)
        rep.analysed(f)
        cs = list(f.calls(prim))
        if not cs:
            raise AnalysisBroken('%s: %s call not found (another time-stamp primitive is configured)' % (fn, prim))
        tv = f.strip(cs[0].ops[argi])
        ti = f.inst_of(cs[0].ops[argi])
        while ti is not None and ti.op in ('getelementptr', 'bitcast'):
            nxt = f.inst_of(ti.ops[0])
            if nxt is None:
                break
            ti = nxt
        if ti is None or ti.op != 'alloca':
            raise AnalysisBroken('%s: the time-stamp array handed to %s is not a local' % (fn, prim))
        name = ti.var or 'tv'
        st0 = [i for i in f.all_insts() if i.op == 'store' and f.expr(i.ops[1]).replace(' ', '') in ('&%s[0].tv_nsec' % name,)]
        n += 1
        ok = bool(st0) and all(f.const_of(i.ops[0]) == UTIME_OMIT for i in st0)
        rep.check(ok, rid, '%s: %s[0] (access time) is UTIME_OMIT' % (fn, name), cs[0].loc(),
                  '%d store(s), all UTIME_OMIT' % len(st0) if ok else 'the access-time entry is filled with %s: %s moves the access time of the file to the new modification time (years back for an old file) although only the sub-second part of the modification time was to change' % (sorted({f.xexpr(i.ops[0])[:40] for i in st0}) or 'nothing recognisable', prim),
                  function=fn, construct='access time overwritten')


def run(ctx, rep):
    P = ctx.prog
    rep.explanation = ('Effect analysis over the resolved call graph: every write-capable libc call site is classified by a frozen table of effect primitives; '
                       'per command, the effect classes reachable from main with `operation` pinned (branches folded, constant arguments such as fix=0 propagated, '
                       'function pointers resolved from the stores actually reachable) must lie within the documented set. All paths, including error branches.')
    rep.assumptions = ['libc functions outside the write-capable list have no file-system write effect', 'write(2)/pwrite(2) can only modify files opened writable, and every writable open is classified']
    rep.rule('R-C12-1', 'ownership: every write-capable libc call site lies in a classified effect primitive', 35)
    rep.rule('R-C12-1s', 'self-test: an unclassified write effect is detected (positive example)', 2)
    rep.rule('R-C12-2', 'per command, reachable effect classes are within the documented set (and contain the required ones)', 18)
    rep.rule('R-C12-3', 'read-only open sites have constant flags without O_WRONLY/O_RDWR/O_CREAT/O_TRUNC/O_APPEND', 8)
    sites = effects.all_write_sites(P)
    for f, c, cls in sites:
        rep.analysed(f)
        rep.check(cls != 'UNCLASSIFIED', 'R-C12-1', '%s:%s' % (base(f.name), c.callee), c.loc(),
                  'class %s' % cls if cls != 'UNCLASSIFIED' else 'write-capable call %s(%s) in %s is not a classified effect primitive' % (c.callee, ', '.join(f.expr(o)[:40] for o in c.ops[:2]), f.name),
                  function=base(f.name), construct='unclassified %s' % c.callee)
    seen_sites = {(base(f.name), c.callee) for f, c, cls in sites} | {(effects.site_owner(P, f, 'open' if c.callee in effects.OPEN_CALLS else c.callee), c.callee) for f, c, cls in sites}
    for k in effects.SITES:
        if k not in seen_sites:
            raise AnalysisBroken('effect primitive site %s:%s no longer exists (table out of date)' % k)
    # self test
    st = ir.Program(frontend.build_single(os.path.join(VERIF, 'selftest', 'c12_unclassified.c')))
    got = {(f.name, cls) for f, c, cls in effects.all_write_sites(st)}
    rep.check(('helper_cleanup', 'UNCLASSIFIED') in got, 'R-C12-1s', 'selftest unlink', 'selftest/c12_unclassified.c', 'unlink in helper_cleanup reported as UNCLASSIFIED')
    rep.check(('helper_open_rw', 'UNCLASSIFIED') in got and not any(n == 'helper_open_ro' for n, _ in got), 'R-C12-1s', 'selftest open flags', 'selftest/c12_unclassified.c', 'open with O_TRUNC via local flags reported, O_RDONLY open not reported')

    # open modes
    bits = effects.Bits(P)
    for f in P.defined():
        if base(f.name) not in effects.READONLY_OPEN:
            continue
        for c in f.calls(set(effects.OPEN_CALLS)):
            fl = bits.of(f, c.ops[effects.OPEN_CALLS[c.callee]])
            rep.check(fl is not None and not (fl & effects.WRITE_BITS), 'R-C12-3', '%s:open' % base(f.name), c.loc(),
                      'flags may-bits = %s' % (oct(fl) if fl is not None else 'unknown'), function=base(f.name), construct='open flags')
            rep.analysed(f)

    # per command
    vals = operation_values(P)
    missing = [k for k in OPS if k not in vals]
    if missing:
        raise AnalysisBroken('cannot recover operation constants for %s' % missing)
    summary = {}
    for cmd in sorted(OPS):
        eff, seen, fns = effects.command_effects(P, 'main', {'operation': vals[cmd]})
        classes = set(eff)
        bad = classes - ALWAYS - ALLOWED[cmd]
        summary[cmd] = sorted(classes - ALWAYS)
        if 'UNCLASSIFIED' in bad:
            bad.discard('UNCLASSIFIED')   # reported by R-C12-1 with the exact site
        if bad:
            for cls in sorted(bad):
                ctxk, call = eff[cls][0]
                rep.fail('R-C12-2', '%s reaches %s' % (cmd, cls), call.loc(),
                         'command `%s` can reach effect %s (%s in %s) via %s' % (cmd, cls, call.callee, call.fn.name, effects.chain_of(seen, ctxk)),
                         function='main', construct='%s:%s' % (cmd, cls), path=effects.chain_of(seen, ctxk).split(' <- '))
        else:
            miss = REQUIRED.get(cmd, set()) - classes
            if miss:
                raise AnalysisBroken('command %s no longer reaches its required effects %s (analysis blind?)' % (cmd, sorted(miss)))
            rep.ok('R-C12-2', cmd, 'effects %s; %d contexts, %d functions' % (sorted(classes - ALWAYS), len(seen), len(fns)))
    # touch: the only time-stamp written is the file's present second (re-read with fstat on the same descriptor) with a new
    # non-zero nanosecond part, and only for files recorded with a zero nanosecond part
    from ..guards import guards_of
    rep.rule('R-C12-5', 'touch writes fmtime(f, <seconds just read by fstat(f)>, <non-zero nsec>) only under file->mtime_nsec == 0', 1)
    t = P.fn('state_touch')
    rep.analysed(t)
    fm = list(t.calls('fmtime'))
    ok5 = len(fm) == 1
    det5 = ''
    if ok5:
        a_ = [t.expr(o) for o in fm[0].ops]
        fs = [c for c in t.calls('fstat') if t.dominates(c, fm[0]) and t.expr(c.ops[0]) == a_[0]]
        gs = guards_of(t, fm[0])
        ok5 = bool(fs) and a_[1].startswith(t.expr(fs[-1].ops[1]).lstrip('&') + '.st_mtim') and a_[1].endswith('tv_sec') and ('file->mtime_nsec', False) in gs and (a_[2], True) in gs
        det5 = 'fmtime(%s); fstat on the same descriptor first: %s' % (', '.join(a_), bool(fs))
    rep.check(ok5, 'R-C12-5', 'state_touch: time written = present seconds + new non-zero nanoseconds, only for zero-nanosecond records', fm[0].loc() if fm else t.file, det5, function='state_touch', construct='touch time source')
    # fix removes, at exit, only files it created in this run: the flag behind that decision is sound
    from .C07 import rule_created_reset
    rule_created_reset(P, rep, 'R-C12-7')
    from .C07 import rule_finished_only_processed
    rule_finished_only_processed(P, rep, 'R-C12-8')
    from .C17 import chsize_full_size_rule
    chsize_full_size_rule(P, rep, 'R-C12-9')
    from .C18 import selection_effects_rule
    selection_effects_rule(P, rep, 'R-C12-10')
    nofollow_rule(P, rep, 'R-C12-3n')
    touch_disk_nsec_rule(P, rep, 'R-C12-5d')
    atime_kept_rule(P, rep, 'R-C12-5a')
    rep.extra['effects_per_command'] = summary
    rep.extra['write_sites'] = len(sites)


ARGBIT = 1 << 40


def must_bits(f, o, seen=None):
    """bits certainly set in an int flag value: constants OR-ed on every reaching definition (parameters contribute the symbolic
    bit ARGBIT << index so that a pass-through wrapper can be summarised)"""
    seen = set() if seen is None else seen
    o = f.strip(o)
    if o[0] == 'c':
        return o[1]
    if o[0] == 'a':
        return ARGBIT << o[1]
    if o[0] != 'i' or o[1] in seen:
        return 0
    i = f.insts[o[1]]
    seen = seen | {i.id}
    if i.op == 'or':
        return must_bits(f, i.ops[0], seen) | must_bits(f, i.ops[1], seen)
    if i.op == 'and':
        return must_bits(f, i.ops[0], seen) & must_bits(f, i.ops[1], seen)
    if i.op in ('select', 'phi'):
        vs = [must_bits(f, v, seen) for v in (i.ops[1:] if i.op == 'select' else i.ops)]
        r = vs[0]
        for v in vs[1:]:
            r &= v
        return r
    if i.op == 'load':
        a = f.strip(i.ops[0])
        if a[0] == 'i' and f.insts[a[1]].op == 'alloca' and all(u.op == 'load' or (u.op == 'store' and f.strip(u.ops[1]) == a) for u in f.users.get(a[1], ())):
            r = None
            for s in f.reaching_stores(a[1], i):
                v = 0 if s is None else must_bits(f, s.ops[0], seen)
                r = v if r is None else r & v
            return r or 0
    return 0


# functions that open a path inside a data disk for the array (recorded files being read, rebuilt, re-created or touched).  They must
# never follow a symbolic link found at that path: a link planted (or recorded) there would make fix / touch / sync read or overwrite
# a file outside the array.  Not listed: import / search / content / parity / device probes (paths given by the user, not array members)
NOFOLLOW_OPENERS = ('handle_create', 'handle_open', 'state_check_process', 'state_touch')
O_NOFOLLOW_BIT = 0o400000


def nofollow_rule(P, rep, rid):
    rep.rule(rid, 'every open of a path inside a data disk (handle_create, handle_open, fix re-creating an empty file, touch) carries O_NOFOLLOW on every definition of its flags; the O_NOATIME wrapper passes the flags through', 7)
    wrappers = {}
    if P.has('open_noatime'):
        w = P.fn('open_noatime')
        rep.analysed(w)
        ops_ = list(w.calls('open'))
        okw = bool(ops_) and all(must_bits(w, c.ops[1]) & (ARGBIT << 1) for c in ops_)
        rep.check(okw, rid, 'open_noatime passes its flags to open()', w.file, '%d open calls' % len(ops_), function='open_noatime', construct='flags pass-through')
        wrappers['open_noatime'] = 1
    n = 0
    sites = []
    for fn in NOFOLLOW_OPENERS:
        f = P.fn(fn)
        rep.analysed(f)
        for c in f.calls({'open'} | set(wrappers)):
            sites.append((fn, f, c, must_bits(f, c.ops[1])))
        # open calls moved into a static helper that receives the flags: the parameter is resolved at the helper's call sites
        for hc in f.calls():
            h = P.functions.get(hc.callee_full) if hc.callee_full else None
            if h is None or h.decl or not h.internal or base(h.name) in wrappers or base(h.name) in NOFOLLOW_OPENERS:
                continue
            for c in h.calls({'open'} | set(wrappers)):
                mb = must_bits(h, c.ops[1])
                for k in range(len(h.args)):
                    if mb & (ARGBIT << k) and k < len(hc.ops):
                        mb |= must_bits(f, hc.ops[k]) & (ARGBIT - 1)
                sites.append((fn, h, c, mb))
                rep.analysed(h)
    seen_sites = set()
    for fn, f, c, mb in sites:
        if True:
            if (f.name, c.id, mb & O_NOFOLLOW_BIT) in seen_sites:
                continue
            seen_sites.add((f.name, c.id, mb & O_NOFOLLOW_BIT))
            n += 1
            rep.check(bool(mb & O_NOFOLLOW_BIT), rid, '%s: %s(%s, ...) has O_NOFOLLOW' % (fn, c.callee, f.expr(c.ops[0])[:40]), c.loc(),
                      'bits set on every path: %s' % oct(mb & (ARGBIT - 1)) if mb & O_NOFOLLOW_BIT else 'the flags (%s; certain bits %s) lack O_NOFOLLOW: a symbolic link at that path is followed and a file outside the array is opened%s' % (f.expr(c.ops[1])[:60], oct(mb & (ARGBIT - 1)), ' for writing' if mb & 0o1103 else ''),
                      function=fn, construct='open flags')
    if n < 6:
        raise AnalysisBroken('data-disk open sites not found (%d)' % n)


def touch_disk_nsec_rule(P, rep, rid):
    """touch may rewrite a time-stamp only when its sub-second part IS zero on disk.  The file is chosen by the recorded value
    (file->mtime_nsec == 0); a file edited after the last sync has a recorded zero but a real non-zero sub-second part on disk, and
    randomising it (and aligning the record to it) both changes a time-stamp that was not zero and can hide the edit from the next
    sync.  The part of state_touch between the first fstat and fmtime is interpreted (E10) for on-disk nanoseconds 0 / 5 / 999999999 /
    invalid: fmtime is reached iff they are zero (or unknown to the platform)."""
    from .. import region as RG
    t = P.fn('state_touch')
    rep.analysed(t)
    rep.rule(rid, 'state_touch, from the fstat of the opened file: fmtime is reached iff the on-disk sub-second part is zero (values 0, 5, 999999999, invalid)', 1)
    fs = list(t.calls('fstat')); fm = list(t.calls('fmtime'))
    if not fs or len(fm) != 1:
        raise AnalysisBroken('state_touch: fstat / fmtime not found')
    first = [c for c in fs if t.dominates(c, fm[0])]
    if not first:
        raise AnalysisBroken('state_touch: no fstat dominates fmtime')
    c0 = first[-1]
    dst = P.distructs.get('stat'); dts = P.distructs.get('timespec')
    if not dst:
        raise AnalysisBroken('layout of struct stat not found')
    def off(d, name):
        return [m for m in d['members'] if m['name'] == name][0]['off']
    O_NS = off(dst, 'st_mtim') + (off(dts, 'tv_nsec') if dts else 8)
    stp = t.strip(c0.ops[1])
    if stp[0] != 'i' or t.insts[stp[1]].op != 'alloca':
        raise AnalysisBroken('state_touch: fstat buffer is not a local')

    class Called(Exception):
        pass

    class Skipped(Exception):
        pass
    bad = None; n = 0
    for ns in (0, 5, 999999999, (1 << 64) - 1):
        def ext(ins, args):
            cal = ins.callee
            if cal == 'fmtime':
                raise Called()
            if cal == 'close':
                raise Skipped()          # the descriptor is given up before any fmtime: this file is left alone
            return (0,)
        R = RG.Region(P, extern=ext)
        R.discover = []
        R.zero_regions.add(('glob', 'exit_failure'))
        sb = R.local_by_id(t, stp[1])
        R.zero_regions.add(sb.reg)
        R.mem[(sb.reg, O_NS)] = ns
        for nm in ('i', 'j'):
            try:
                nd = RG.P_(('obj', 'node_' + nm), 0); R.zero_regions.add(nd.reg)
                R.set_local(t, nm, nd)
            except Exception:
                pass
        R.max_steps = 20000
        # the result of the fstat call itself (success) is stored by the instruction that follows the call: skip it and store 0
        k0 = c0.idx + 1
        nxt = t.blocks[c0.block][k0]
        if nxt.op == 'store' and t.strip(nxt.ops[0]) == ['i', c0.id]:
            a_ = t.strip(nxt.ops[1])
            R.mem[(R.local_by_id(t, a_[1]).reg, 0)] = 0
            k0 += 1
        try:
            R.run(t, c0.block, [], start_idx=k0)
            got = False
        except Called:
            got = True
        except Skipped:
            got = False
        except RG.Unsupported as e:
            raise AnalysisBroken('cannot interpret state_touch after fstat: %s' % e)
        n += 1
        want = ns in (0, (1 << 64) - 1)
        if got != want and bad is None:
            bad = 'on-disk nanoseconds %s: fmtime is %s' % ('invalid' if ns > 999999999 else ns, 'called -- a non-zero sub-second time-stamp (file changed since the last sync) is overwritten with a random one and the record aligned to it' if got else 'not called -- a zero sub-second part is left alone')
    rep.check(bad is None, rid, 'state_touch: only time-stamps whose sub-second part is zero on disk are rewritten', c0.loc(), '%d evaluations' % n if bad is None else bad, function='state_touch', construct='on-disk nanoseconds test')
