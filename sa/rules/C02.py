"""C02 — parity equals its algebraic definition in every implementation.
E1 (tables) + E2 (kernels).  See DESIGN.md section 4, C02."""
import multiprocessing, os, re
from .. import gf, kernels
from ..kernels import Machine, Ptr, SIZE, run_function, KernelViolation, Unsupported
from ..frontend import AnalysisBroken

QUICK_ND = [1, 2, 3, 4, 5, 6, 7, 8, 9, 16, 17, 31, 32, 33, 63, 64, 65, 127, 128, 129, 249, 250, 251]

_G = {}


# ------------------------------------------------------------------ tables (E1)
def check_tables(P, rep):
    rep.rule('R-C02-1', 'raid_gfmul/gfexp/gfinv equal the GF(2^8)/0x11d definitions (exhaustive)', 3)
    rep.rule('R-C02-2', 'raid_gfcauchy / raid_gfvandermonde equal the documented generator matrices', 9)
    rep.rule('R-C02-3', 'pshufb nibble tables and SIMD constants equal their definition', 6)
    mul = P.global_bytes('raid_gfmul')
    bad = [(a, b) for a in range(256) for b in range(256) if mul[a * 256 + b] != gf.MUL[a][b]]
    rep.check(not bad and len(mul) == 65536, 'R-C02-1', 'raid_gfmul[256][256]', 'raid/tables.c',
              '65536 products compared' if not bad else 'raid_gfmul[%d][%d] = 0x%02x, field product is 0x%02x (%d wrong entries)' % (bad[0][0], bad[0][1], mul[bad[0][0] * 256 + bad[0][1]], gf.MUL[bad[0][0]][bad[0][1]], len(bad)),
              function='raid_gfmul', construct='table entry')
    ex = P.global_bytes('raid_gfexp')
    bad = [i for i in range(256) if ex[i] != gf.pw(2, i)]
    rep.check(not bad, 'R-C02-1', 'raid_gfexp[256]', 'raid/tables.c', '256 powers compared' if not bad else 'raid_gfexp[%d] wrong' % bad[0], function='raid_gfexp', construct='table entry')
    iv = P.global_bytes('raid_gfinv')
    bad = [a for a in range(1, 256) if gf.MUL[a][iv[a]] != 1]
    rep.check(not bad, 'R-C02-1', 'raid_gfinv[256]', 'raid/tables.c', '255 inverses compared' if not bad else 'raid_gfinv[%d] is not the inverse' % bad[0], function='raid_gfinv', construct='table entry')

    A = gf.cauchy()
    ca = P.global_bytes('raid_gfcauchy')
    for j in range(6):
        bad = [i for i in range(251) if ca[j * 256 + i] != A[j][i]]
        rep.check(not bad, 'R-C02-2', 'raid_gfcauchy row %d' % j, 'raid/tables.c', '251 coefficients compared' if not bad else 'raid_gfcauchy[%d][%d] = 0x%02x, definition gives 0x%02x' % (j, bad[0], ca[j * 256 + bad[0]], A[j][bad[0]]), function='raid_gfcauchy', construct='row %d' % j)
    V = gf.power()
    va = P.global_bytes('raid_gfvandermonde')
    for j in range(3):
        bad = [i for i in range(251) if va[j * 256 + i] != V[j][i]]
        rep.check(not bad, 'R-C02-2', 'raid_gfvandermonde row %d' % j, 'raid/tables.c', '251 coefficients compared' if not bad else 'raid_gfvandermonde[%d][%d] wrong' % (j, bad[0]), function='raid_gfvandermonde', construct='row %d' % j)

    ps = P.global_bytes('raid_gfcauchypshufb')
    bad = []
    for d in range(251):
        for r in range(4):
            for h in range(2):
                for k in range(16):
                    want = gf.MUL[A[r + 2][d]][k << (4 * h)]
                    if ps[((d * 4 + r) * 2 + h) * 16 + k] != want:
                        bad.append((d, r, h, k))
    rep.check(not bad and len(ps) == 251 * 4 * 2 * 16, 'R-C02-3', 'raid_gfcauchypshufb[251][4][2][16]', 'raid/tables.c', '32128 entries compared' if not bad else 'entry %s wrong (%d wrong)' % (bad[0], len(bad)), function='raid_gfcauchypshufb', construct='table entry')
    mp = P.global_bytes('raid_gfmulpshufb')
    bad = [(mm, h, k) for mm in range(256) for h in range(2) for k in range(16) if mp[(mm * 2 + h) * 16 + k] != gf.MUL[mm][k << (4 * h)]]
    rep.check(not bad and len(mp) == 256 * 2 * 16, 'R-C02-3', 'raid_gfmulpshufb[256][2][16]', 'raid/tables.c', '8192 entries compared' if not bad else 'entry %s wrong' % (bad[0],), function='raid_gfmulpshufb', construct='table entry')
    # SIMD constants: identified by use (loaded by the kernels), located by name prefix
    for gname, want in (('gfconst16', {'poly': 0x1d, 'low4': 0x0f}), ('gfzconst16', {'poly': 0x1d, 'half': 0x8e, 'low7': 0x7f})):
        names = [n for n in P.globals if re.sub(r'\.\d+$', '', n) == gname]
        if not names:
            raise AnalysisBroken('constant %s not found' % gname)
        for n in names:
            b = P.global_bytes(n)
            ds = P.distructs.get(gname)
            if not ds:
                raise AnalysisBroken('debug type of %s not found' % gname)
            for mem in ds['members']:
                if mem['name'] not in want:
                    raise AnalysisBroken('unknown member %s.%s' % (gname, mem['name']))
                seg = b[mem['off']:mem['off'] + mem['bits'] // 8]
                rep.check(all(x == want[mem['name']] for x in seg) and len(seg) >= 16, 'R-C02-3', '%s.%s' % (gname, mem['name']), 'raid/x86*.c',
                          '%d bytes all 0x%02x' % (len(seg), want[mem['name']]), function=gname, construct=mem['name'])


# ------------------------------------------------------------------ kernels (E2)
def kernel_classes(P):
    """(kernel name) -> (np, matrix name, installable?) resolved from the stores into the
    generator slots anywhere in the program"""
    slots = P.slots()
    out = {}
    for k in range(6):
        if k == 2:
            continue
        for fn in slots.get('g:raid_gen_ptr+%d' % (8 * k), set()) | (slots.get('g:raid_gen_ptr', set()) if k == 0 else set()):
            out[fn] = (k + 1, 'cauchy', True)
    for fn in slots.get('g:raid_gen3_ptr', set()):
        out[fn] = (3, 'cauchy', True)
    for fn in slots.get('g:raid_genz_ptr', set()):
        out[fn] = (3, 'power', True)
    # compiled but not installable on this build: every other function with the generator
    # signature that is referenced from a function-pointer table (tag table / selftest lists)
    for sd, fns in slots.items():
        for fn in fns:
            f = P.functions.get(fn)
            if fn in out or f is None or f.decl:
                continue
            if [a['ty'] for a in f.args] == ['i32', 'i64', 'i8**'] and f.ret == 'void':
                out[fn] = (None, None, False)
    return out


def _bindings(matrix):
    tab = {'cauchy': 'raid_gfcauchy', 'power': 'raid_gfvandermonde'}[matrix]
    return {('raid_gfgen', 0): Ptr(('glob', tab), 0)}


def verify_gen(P, fname, nd, np_, matrix, chunk):
    """returns (ok, detail) ; raises KernelViolation/Unsupported"""
    A = gf.cauchy() if matrix == 'cauchy' else gf.power()
    m = kernels.run_gen(P, fname, nd, np_, _bindings(matrix), chunk)
    # effects: only parity buffers written, each offset of the chunk
    for buf, cs in m.buf_written.items():
        if buf < nd:
            return False, 'data block %d is written (offsets %s)' % (buf, sorted(cs)[:4]), m
        if buf >= nd + np_:
            return False, 'buffer v[%d] beyond the %d parities is written' % (buf, np_), m
    for j in range(np_):
        cs = m.buf_written.get(nd + j, set())
        if cs != set(range(m.chunk)):
            return False, 'parity %d: offsets written within a %d-byte chunk are %s' % (j, m.chunk, sorted(cs)[:8]), m
    if m.write_order != sorted(m.write_order):
        return False, 'parities are first written out of order: %s' % m.write_order, m
    if m.ntstore_pending:
        return False, 'non-temporal stores are not followed by sfence before return', m
    for j in range(np_):
        for c in range(m.chunk):
            got = m.bufw[(nd + j, c)]
            want = kernels.expected_parity_forms(m, A, nd, j, c)
            if got != want:
                # describe the first wrong coefficient
                det = 'parity %d byte %d differs from sum A[%d][i]*D_i' % (j, c, j)
                if any(x is None for x in got):
                    det += ' (value is not a GF(2)-affine function of the data: TOP)'
                else:
                    for d in range(nd):
                        mask = 0
                        for b in range(8):
                            mask |= m.var(d, c, b)
                        if any((g & mask) != (w & mask) for g, w in zip(got, want)):
                            det += '; coefficient of disk %d is wrong (want 0x%02x)' % (d, A[j][d])
                            break
                    else:
                        det += '; depends on bytes at other offsets or has a constant term'
                return False, det, m
    return True, 'stride %s' % (m.strides or 'memcpy'), m


def _task(t):
    fname, nd, np_, matrix, chunk = t
    P = _G['P']
    try:
        ok, det, m = verify_gen(P, fname, nd, np_, matrix, chunk)
        return (fname, nd, np_, matrix, 'ok' if ok else 'fail', det, m.steps)
    except KernelViolation as e:
        return (fname, nd, np_, matrix, 'fail', str(e), 0)
    except Unsupported as e:
        return (fname, nd, np_, matrix, 'unsupported', str(e), 0)


def classify_uninstalled(P, fname):
    """np and matrix of a kernel that no slot installs, from its own behaviour at nd=2"""
    for np_ in range(1, 7):
        for matrix in (('cauchy', 'power') if np_ == 3 else ('cauchy',)):
            try:
                m = kernels.run_gen(P, fname, 2, 6, _bindings(matrix), 64)
            except (KernelViolation, Unsupported):
                continue
            written = sorted(b for b in m.buf_written)
            if written != list(range(2, 2 + np_)):
                continue
            try:
                ok, det, _ = verify_gen(P, fname, 2, np_, matrix, 64)
            except (KernelViolation, Unsupported):
                ok = False
            if ok:
                return np_, matrix
    return None, None


def check_kernels(ctx, rep):
    P = ctx.raid
    _G['P'] = P
    rep.rule('R-C02-4', 'stored parity j == sum_i A[j][i]*D_i as GF(2)-affine forms, per kernel and nd (all data, all sizes k*64)', 30 * 3)
    rep.rule('R-C02-5', 'kernel installed in a generator slot has the parity count of that slot; every compiled kernel is classified', 30)
    classes = kernel_classes(P)
    if len(classes) < 30:
        raise AnalysisBroken('only %d generator kernels resolved from the slots (expected >= 30)' % len(classes))
    nds = list(range(1, 252)) if ctx.tier == 'thorough' else QUICK_ND
    tasks = []
    chunks = {}
    for fname in sorted(classes):
        np_, matrix, inst = classes[fname]
        if not inst:
            np_, matrix = classify_uninstalled(P, fname)
            if np_ is None:
                rep.fail('R-C02-5', fname, P.functions[fname].file, 'compiled generator kernel computes neither the Cauchy nor the power parity for any parity count (at nd=2)', function=fname, construct='classification')
                continue
            classes[fname] = (np_, matrix, False)
            rep.ok('R-C02-5', fname, 'not installable on this build; behaves as %d-parity %s' % (np_, matrix))
        else:
            rep.ok('R-C02-5', fname, 'installed for np=%d matrix=%s' % (np_, matrix))
        try:
            stride, _ = kernels.probe_stride(P, fname, 2, np_, _bindings(matrix))
        except KernelViolation as e:
            rep.fail('R-C02-4', '%s nd=2' % fname, P.functions[fname].file, str(e), function=fname, construct='kernel')
            continue
        chunks[fname] = stride or 64
        for nd in nds:
            tasks.append((fname, nd, np_, matrix, chunks[fname]))
        rep.analysed(fname)
    # heavy tasks first
    tasks.sort(key=lambda t: -(t[1] * t[2] * (8 if 'int8' in t[0] else 1)))
    ctxmp = multiprocessing.get_context('fork')
    with ctxmp.Pool(min(16, os.cpu_count() or 1)) as pool:
        results = pool.map(_task, tasks, chunksize=1)
    steps = 0
    forms = 0
    for fname, nd, np_, matrix, st, det, nsteps in sorted(results):
        steps += nsteps
        inst = '%s nd=%d np=%d %s' % (fname, nd, np_, matrix)
        if st == 'unsupported':
            raise AnalysisBroken('E2 cannot interpret %s: %s' % (inst, det))
        forms += np_ * chunks[fname] * 8
        rep.check(st == 'ok', 'R-C02-4', inst, P.functions[fname].file + ':' + str(P.functions[fname].line), det, function=fname, construct='nd=%d' % nd if st != 'ok' and False else 'kernel')
    rep.extra['kernels'] = {k: {'np': v[0], 'matrix': v[1], 'installable': v[2], 'chunk_bytes': chunks.get(k)} for k, v in classes.items()}
    rep.extra['nd_values'] = nds if len(nds) < 40 else '1..251 (all)'
    rep.extra['abstract_steps'] = steps
    rep.extra['parity_bit_forms_compared'] = forms
    return classes


def check_dispatch(ctx, rep):
    """R-C02-7: raid_gen asserts its preconditions before dispatching; raid_mode pairs slot 2 with the matrix"""
    P = ctx.prog
    rep.rule('R-C02-7', 'raid_gen: size%64 / np range assertions dominate the dispatch through raid_gen_ptr[np-1]; raid_mode pairs (slot 2, matrix)', 3)
    f = P.fn('raid_gen')
    rep.analysed(f)
    ind = [c for c in f.calls() if c.indirect]
    if len(ind) != 1:
        raise AnalysisBroken('raid_gen: expected exactly one indirect dispatch')
    call = ind[0]
    e = f.expr(call.target)
    rep.check('raid_gen_ptr' in e and '(np-1)' in e, 'R-C02-7', 'raid_gen dispatch slot', call.loc(), 'dispatches through ' + e, function='raid_gen', construct='dispatch slot')
    asserts = [c for c in f.calls('__assert_fail')]
    # every path to the dispatch passes the three guards: cut the assert blocks, dispatch must stay reachable only
    # through the non-failing edges; structural check: the conditions tested
    conds = []
    for b in range(len(f.blocks)):
        t = f.term(b)
        if t.op == 'br' and len(t.ops) == 3:
            conds.append(f.expr(t.ops[0]))
    need = ['(size%64)', '(np<1)', '(np>6)']
    got = [any(n in c.replace(' ', '') for c in conds) for n in need]
    dom = all(f.bdominates(b, call.block) for b in range(len(f.blocks)) if f.term(b).op == 'br' and len(f.term(b).ops) == 3)
    rep.check(all(got) and len(asserts) >= 3 and dom, 'R-C02-7', 'raid_gen preconditions', call.loc(), 'guards %s, %d assertion sites, all guards dominate the dispatch: %s' % (conds, len(asserts), dom), function='raid_gen', construct='preconditions')
    # raid_mode
    g = P.fn('raid_mode')
    rep.analysed(g)
    pairs = {}
    for i in g.all_insts():
        if i.op == 'store':
            dst = g.expr(i.ops[1]); src = g.expr(i.ops[0])
            pairs.setdefault(i.block, {})[dst] = src
    okp = 0
    for blk, d in pairs.items():
        slot2 = [v for k, v in d.items() if 'raid_gen_ptr' in k]
        gen = [v for k, v in d.items() if 'raid_gfgen' in k]
        if slot2 and gen:
            pair = (slot2[0], gen[0])
            good = ('raid_genz_ptr' in pair[0] and 'vandermonde' in pair[1]) or ('raid_gen3_ptr' in pair[0] and 'cauchy' in pair[1])
            rep.check(good, 'R-C02-7', 'raid_mode branch %d' % blk, g.file, 'slot 2 <- %s with matrix %s' % pair, function='raid_mode', construct='pairing')
            okp += 1
    if okp < 2:
        raise AnalysisBroken('raid_mode: expected two (slot, matrix) pairings')


def check_mode_order(ctx, rep, rid):
    """the matrix/slot-2 selection must use the configured mode: raid_mode(state.raid_mode) after state_config, before any command body"""
    P = ctx.prog
    m = P.fn('main')
    rep.rule(rid, 'main: raid_init, then state_config, then raid_mode(state.raid_mode), before any command body', 2)
    rm = list(m.calls('raid_mode')); sc = list(m.calls('state_config')); ri = list(m.calls('raid_init'))
    ok = len(rm) == 1 and len(sc) == 1 and len(ri) == 1 and m.dominates(sc[0], rm[0]) and m.dominates(ri[0], rm[0]) and m.expr(rm[0].ops[0]).endswith('state.raid_mode')
    rep.check(ok, rid, 'raid_mode(state.raid_mode) is dominated by state_config and raid_init', rm[0].loc() if rm else m.file, '', function='main', construct='mode after config')
    bodies = list(m.calls({'state_sync', 'state_check', 'state_scrub', 'state_dry', 'state_rehash'}))
    ok2 = bool(rm) and bool(bodies) and all(m.dominates(rm[0], b) for b in bodies)
    rep.check(ok2, rid, 'raid_mode dominates every command body that computes parity', m.file, '%d bodies' % len(bodies), function='main', construct='mode before bodies')
    rep.analysed(m)


def run(ctx, rep):
    rep.level = 'proof'
    rep.trusted_base = ['clang-14 lowering of C and inline asm to LLVM IR (-O0, mem2reg, simplifycfg)',
                        'E2 instruction semantics table (sa/kernels.py): IR integer ops, gf.h sub-idiom, SSE2/SSSE3/AVX2 mnemonics listed in DESIGN.md',
                        'field model sa/gf.py (shift-and-xor GF(2^8)/0x11d)', 'python big-int arithmetic']
    rep.assumptions = ['size is a multiple of 64 (asserted by raid_gen; rule R-C02-7)', 'block pointers do not alias (callers pass distinct buffers)',
                       'CPU executes the listed SIMD instructions per the Intel SDM']
    rep.explanation = ('Every constant table is compared exhaustively with the field definition; every generator kernel that any slot can hold '
                       '(and every compiled variant) is abstractly interpreted in the GF(2)-affine domain with the disk count concrete and the data and '
                       'block size symbolic; the stored parity forms are compared with A*D bit for bit.')
    check_tables(ctx.raid, rep)
    check_kernels(ctx, rep)
    check_dispatch(ctx, rep)
    check_mode_order(ctx, rep, 'R-C02-8')
    mode_selection_rule(ctx, rep, 'R-C02-8m')
    rep.extra['exhaustive'] = ctx.tier == 'thorough'


def mode_selection_rule(ctx, rep, rid):
    """which parity matrix an array uses is decided by its configuration: the third level is computed with the Vandermonde-style
    matrix iff a `z-parity` line is present -- wherever that line stands.  lev_config_scan is called for every configuration tag
    with a pointer to state->raid_mode; interpreted (E10, strcmp modelled) for every tag of the grammar and both prior values of the
    mode it must (a) map the level names to their levels, (b) set the mode to Vandermonde for z-parity, (c) leave the mode untouched
    for every other tag (a reset on unrelated lines silently switches a z-parity array to the Cauchy matrix)."""
    from .. import region as RG
    P = ctx.prog
    f = P.fn('lev_config_scan')
    rep.analysed(f)
    rep.rule(rid, 'lev_config_scan over every configuration tag x prior mode: level names map to their levels; z-parity selects the alternate matrix; no other tag changes the mode', 1)
    TAGS = {'parity': 0, '1-parity': 0, 'q-parity': 1, '2-parity': 1, 'r-parity': 2, '3-parity': 2, '4-parity': 3, '5-parity': 4, '6-parity': 5, 'z-parity': 2}
    OTHER = ['data', 'disk', 'content', 'blocksize', 'hashsize', 'exclude', 'include', 'nohidden', 'autosave', 'pool', 'share', 'smartctl', 'extra-parity', 'zparity', '']
    st = P.fn('state_config')
    calls = list(st.calls('lev_config_scan'))
    okc = bool(calls) and any(st.expr(c.ops[2]).endswith('state->raid_mode') for c in calls)
    rep.check(okc, rid, 'state_config hands &state->raid_mode to lev_config_scan', calls[0].loc() if calls else st.file, '%d calls' % len(calls), function='state_config', construct='mode out-parameter')
    bad = None; n = 0

    def cstr(R, p):
        if p.reg[0] == 'glob':
            s_ = P.cstring(p.reg[1])
            return s_[p.off:] if s_ is not None else None
        out = []
        o = p.off
        while True:
            b = R.mem.get((p.reg, o))
            if b is None or b == 0:
                break
            out.append(chr(b)); o += 1
        return ''.join(out)
    for tag in list(TAGS) + OTHER:
        for prior in (0, 1):
            def ext(ins, args):
                if ins.callee == 'strcmp':
                    a, b = cstr(R, args[0]), cstr(R, args[1])
                    if a is None or b is None:
                        return None
                    return ((a > b) - (a < b)) & 0xffffffff,
                return None
            R = RG.Region(P, extern=ext)
            s = R.array('tag', [ord(c) for c in tag] + [0], 1)
            lv = R.array('level', [77], 4)
            md = R.array('mode', [prior], 4)
            try:
                rv = R.run(f, 0, [s, lv, md])
            except RG.Unsupported as e:
                raise AnalysisBroken('cannot interpret lev_config_scan: %s' % e)
            n += 1
            rv = RG.signed(rv & 0xffffffff, 32)
            level = R.mem[(lv.reg, 0)]; mode = R.mem[(md.reg, 0)]
            if tag in TAGS:
                want_mode = 1 if tag == 'z-parity' else prior
                okk = rv == 0 and level == TAGS[tag] and mode == want_mode
                why = 'returns %d, level %d, mode %d (expected 0, %d, %d)' % (rv, level, mode, TAGS[tag], want_mode)
            else:
                okk = rv != 0 and mode == prior
                why = 'returns %d, mode %d (expected a non-zero result and the mode left at %d)' % (rv, mode, prior)
            if not okk and bad is None:
                bad = 'tag "%s" with the mode previously %s: %s%s' % (tag, 'Vandermonde (z-parity seen)' if prior else 'Cauchy', why,
                      ' -- a configuration line after `z-parity` resets the matrix: parity written by the reference version no longer verifies and cannot rebuild data' if prior == 1 and mode != 1 else '')
    rep.check(bad is None, rid, 'lev_config_scan: tag -> (level, mode) table', f.file, '%d evaluations' % n if bad is None else bad, function='lev_config_scan', construct='mode selection')
