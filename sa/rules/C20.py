"""C20 — reports and derived views reflect the recorded state faithfully (escaping and derivation clauses only)."""
import re
from ..frontend import AnalysisBroken
from ..ir import base
from ..guards import guards_of
from . import C04

SPEC = re.compile(r'%[-+ #0]*(\*|\d+)?(\.(\*|\d+))?(hh|h|ll|l|j|z|t|L)?([diouxXeEfgGcspn%])')
NAME = re.compile(r'->(sub|linkto)(\[0\])?$')


def fmt_args(f, c, P):
    """[(conversion, argument operand, is_field)] for a printf-like call with a constant format; is_field: the conversion
    sits in the colon-separated field part of a tag line (before the first ': ' / ':\\n' free-text separator)"""
    o = f.strip(c.ops[0])
    if o[0] != 'ce' or o[1]['ops'][0][0] != 'g':
        return None, None
    fmt = P.cstring(o[1]['ops'][0][1])
    if fmt is None:
        return None, None
    msgstart = len(fmt)
    m = re.search(r': ', fmt)
    if m:
        msgstart = m.start()
    res = []
    k = 1
    for m in SPEC.finditer(fmt):
        conv = m.group(5)
        if conv == '%':
            continue
        if m.group(1) == '*':
            k += 1
        if m.group(3) == '*':
            k += 1
        if k < len(c.ops):
            res.append((conv, c.ops[k], m.start() < msgstart))
        k += 1
    return fmt, res


def run(ctx, rep):
    P = ctx.prog
    rep.explanation = ('Exactness of the reports over all states is NOT decided. Decided: every recorded name (file->sub, link target) printed in a field of a tag-log line passes esc_tag, and every name printed on stdout by '
                       'list/dup passes fmt_term; two names in one call use distinct buffers; the escaper maps LF, CR, colon and backslash to distinct two-character sequences introduced by the escape character itself; '
                       'dup compares only fully hashed non-empty files over the whole digest; status derives its counts from the recorded per-block/per-stripe flags of every position; pool paths are built under the pool directory.')
    rep.rule('R-C20-1', 'every recorded name in a field of a log_tag line is escaped with esc_tag (program-wide)', 100)
    rep.rule('R-C20-1t', 'list and dup print names on the terminal through fmt_term; two names in one call use two buffers', 5)
    rep.rule('R-C20-2', 'esc_tag: LF, CR, colon and the escape character map to distinct escape pairs; everything else is copied', 1)
    rep.rule('R-C20-3', 'dup: only fully hashed, non-empty files are compared, over the whole digest', 3)
    rep.rule('R-C20-4', 'status: unsynced / bad / rehash / justsynced derived from block_has_* / info_get_* of every position', 2)
    rep.rule('R-C20-5', 'pool: every removed / created path is built under the pool directory', 2)
    n = 0
    for f in P.defined():
        if not (f.file or '').startswith('cmdline/'):
            continue
        for c in f.calls('log_tag'):
            fmt, args = fmt_args(f, c, P)
            if args is None:
                continue
            bufs = []
            for conv, a, is_field in args:
                if conv != 's':
                    continue
                e = f.expr(a)
                if e.startswith('esc_tag('):
                    n += 1
                    ai = f.inst_of(a)
                    bufs.append(f.expr(ai.ops[1]))
                    rep.ok('R-C20-1', '%s: %s' % (base(f.name), e[:50]), '')
                elif NAME.search(e) and is_field:
                    rep.fail('R-C20-1', '%s: raw name %s in tag "%s"' % (base(f.name), e, fmt.split(':')[0]), c.loc(), 'recorded name printed in a tag field without esc_tag: a colon or newline in the name breaks the record structure', function=base(f.name), construct='raw %s in tag %s' % (e.split('->')[-1], fmt.split(':')[0]))
            if len(bufs) > 1 and len(set(bufs)) != len(bufs):
                rep.fail('R-C20-1', '%s: two escaped names share one buffer' % base(f.name), c.loc(), str(bufs), function=base(f.name), construct='shared esc buffer')
            rep.analysed(f)
    for fn in ('state_list', 'state_dup'):
        f = P.fn(fn)
        rep.analysed(f)
        for c in f.calls('printf'):
            fmt, args = fmt_args(f, c, P)
            if not args:
                continue
            bufs = []
            for conv, a, _ in args:
                if conv != 's':
                    continue
                e = f.expr(a)
                if e.startswith('fmt_term('):
                    ai = f.inst_of(a)
                    bufs.append(f.expr(ai.ops[2]))
                    rep.ok('R-C20-1t', '%s: %s' % (fn, e[:50]), '')
                elif NAME.search(e):
                    rep.fail('R-C20-1t', '%s: raw name %s on stdout' % (fn, e), c.loc(), 'name printed without fmt_term', function=fn, construct='raw name on terminal')
            if len(bufs) > 1 and len(set(bufs)) != len(bufs):
                rep.fail('R-C20-1t', '%s: two names share one buffer' % fn, c.loc(), str(bufs), function=fn, construct='shared buffer')
    # esc_tag decided semantically: interpreted over every byte value and every pair around the special characters
    from .. import region as RG
    e = P.fn('esc_tag')
    rep.analysed(e)
    def esc(bs):
        R = RG.Region(P, extern=lambda ins, args: None)
        sp = RG.P_(('str', 'in'), 0)
        for k, v in enumerate(bs):
            R.mem[(sp.reg, k)] = v
        R.mem[(sp.reg, len(bs))] = 0
        out = RG.P_(('buf', 'out'), 0)
        try:
            r = R.run(e, 0, [sp, out])
        except RG.Unsupported as ex:
            raise AnalysisBroken('cannot interpret esc_tag: %s' % ex)
        res = []
        k = 0
        while True:
            v = R.mem.get((r.reg, r.off + k))
            if v is None:
                raise AnalysisBroken('esc_tag output is not terminated')
            v &= 0xff
            if v == 0:
                break
            res.append(v); k += 1
        return bytes(res)
    special = [10, 13, 58, 92]
    inputs = [bytes([c]) for c in range(1, 256)] + [bytes([a_, b_]) for a_ in special + [65, 110, 100, 114] for b_ in special + [65, 110, 100, 114]]
    outs = {}
    bad_ = None
    for inp in inputs:
        o = esc(inp)
        if any(x in o for x in (10, 13, 58)) and bad_ is None:
            bad_ = 'input %r is written as %r: a raw line/field separator reaches the log line' % (inp, o)
        if o in outs and outs[o] != inp and bad_ is None:
            bad_ = 'inputs %r and %r are both written as %r: the tag cannot be decoded' % (outs[o], inp, o)
        outs[o] = inp
        if len(inp) == 1 and inp[0] not in special and o != inp and bad_ is None:
            bad_ = 'ordinary character %r is altered to %r' % (inp, o)
    rep.check(bad_ is None, 'R-C20-2', 'esc_tag never emits a raw LF / CR / colon, is injective, and copies every other byte (all 255 byte values, 64 pairs around the special characters)', e.file, '%d inputs' % len(inputs) if bad_ is None else bad_, function='esc_tag', construct='escape function')
    # dup
    d = P.fn('state_dup')
    ha = list(d.calls('hash_alloc'))
    rep.check(bool(ha), 'R-C20-3', 'state_dup hashes each candidate with hash_alloc', d.file, '', function='state_dup', construct='hash_alloc')
    h = P.fn('hash_alloc')
    rep.analysed(h)
    uh = list(h.calls('block_has_updated_hash'))
    ok = bool(uh)
    if ok:
        zero = [i for i in h.all_insts() if i.op == 'store' and h.expr(i.ops[1]) == '&retval' and h.const_of(i.ops[0]) == 0]
        brs = C04.cond_branches_on_call(h, uh[0])
        ok = bool(zero) and bool(brs) and h.loop_of(uh[0].block) is not None
    rep.check(ok, 'R-C20-3', 'hash_alloc returns 0 unless every block has an updated hash', h.file, '', function='hash_alloc', construct='fully hashed')
    hc = P.fn('hash_compare')
    mc = list(hc.calls('memcmp'))
    rep.check(len(mc) == 1 and hc.const_of(mc[0].ops[2]) == 16, 'R-C20-3', 'dup equality over the whole 16-byte digest', hc.file, '', function='hash_compare', construct='digest size')
    # status
    s = P.fn('state_status')
    rep.analysed(s)
    cal = {c.callee for c in s.calls()}
    need = {'info_get_bad', 'info_get_rehash', 'info_get_justsynced', 'info_get_time'}
    rep.check(need <= cal, 'R-C20-4', 'state_status reads bad / rehash / justsynced / time of the stripe info', s.file, str(sorted(need & cal)), function='state_status', construct='info flags')
    loops = [c for c in s.calls('info_get') if s.loop_of(c.block) is not None]
    rep.check(len(loops) >= 2, 'R-C20-4', 'state_status scans the info of every position in loops', s.file, '%d loop sites' % len(loops), function='state_status', construct='scan all')
    # the unsynced counter: a stripe counts iff some disk has a block waiting for parity (block_has_invalid_parity: CHG, REP
    # and DELETED alike) and some disk has a file there -- the same predicates the sync engine uses to decide that a stripe needs work
    rep.rule('R-C20-4u', 'status counts a stripe as unsynced iff one block has invalid parity (any of CHG/REP/DELETED) and one block has a file', 1)
    from ..guards import guards_of as _g
    from ..stripe import StripeLoop as _SL
    incs = []
    # the counter is the local printed by the tag summary:has_unsynced (no dependence on its name)
    uns_al = []
    for c_ in s.calls('log_tag'):
        o_ = s.strip(c_.ops[0])
        gn_ = o_[1] if o_[0] == 'g' else (o_[1]['ops'][0][1] if o_[0] == 'ce' and o_[1]['ops'][0][0] == 'g' else None)
        if gn_ and (P.cstring(gn_) or '').startswith('summary:has_unsynced:'):
            ld_ = s.inst_of(c_.ops[1])
            if ld_ is not None and ld_.op == 'load' and s.inst_of(ld_.ops[0]) is not None:
                uns_al.append(s.inst_of(ld_.ops[0]))
    for al in uns_al:
        for u in s.users.get(al.id, ()):
            if u.op == 'store' and s.strip(u.ops[1]) == ['i', al.id]:
                v = s.inst_of(u.ops[0])
                if v is not None and v.op == 'add':
                    incs.append(u)
    if len(incs) != 1:
        raise AnalysisBroken('state_status: unsynced counter increment not found')
    feeding = set()
    for a_, pol in _g(s, incs[0]):
        if not pol:
            continue
        for st_ in [i for i in s.all_insts() if i.op == 'store' and s.expr(i.ops[1]).lstrip('&') == a_ and s.const_of(i.ops[0]) == 1]:
            for g_, p_ in _g(s, st_):
                if 'block_has' in g_:
                    feeding.add((g_.split('(')[0].lstrip('('), p_))
    want_ = {('block_has_invalid_parity', True), ('block_has_file', True)}
    rep.check(feeding == want_, 'R-C20-4u', 'state_status: ++unsynced_blocks depends on block_has_invalid_parity and block_has_file of the blocks of the stripe', incs[0].loc(), 'predicates feeding the counter: %s' % sorted(feeding), function='state_status', construct='unsynced predicate')
    # each summary counter is fed by the predicate its tag names (label <-> predicate pairing, independent of local names)
    rep.rule('R-C20-4c', 'status summary tags: has_bad counts info_get_bad, has_rehash counts info_get_rehash, has_unscrubbed counts info_get_justsynced', 3)
    want_c = {'has_bad': 'info_get_bad', 'has_rehash': 'info_get_rehash', 'has_unscrubbed': 'info_get_justsynced'}
    seen_tags = set()
    for c in s.calls('log_tag'):
        o = s.strip(c.ops[0])
        gname = o[1] if o[0] == 'g' else (o[1]['ops'][0][1] if o[0] == 'ce' and o[1]['ops'][0][0] == 'g' else None)
        fmt_ = P.cstring(gname) if gname else None
        if not fmt_:
            continue
        m_ = re.match(r'^summary:(has_\w+):%u', fmt_)
        if not m_ or m_.group(1) not in want_c:
            continue
        tag = m_.group(1)
        seen_tags.add(tag)
        ld = s.inst_of(c.ops[1])
        al = s.inst_of(ld.ops[0]) if ld is not None and ld.op == 'load' else None
        preds = set()
        if al is not None and al.op == 'alloca':
            for u in s.users.get(al.id, ()):
                if u.op == 'store' and s.strip(u.ops[1]) == ['i', al.id] and s.inst_of(u.ops[0]) is not None and s.inst_of(u.ops[0]).op == 'add':
                    for g_, p_ in _g(s, u):
                        if g_.startswith('info_get_') and p_:
                            preds.add(g_.split('(')[0])
        rep.check(preds == {want_c[tag]}, 'R-C20-4c', 'summary:%s counts stripes for which %s holds' % (tag, want_c[tag]), c.loc(), 'counter incremented under %s' % sorted(preds), function='state_status', construct='counter %s' % tag)
    if seen_tags != set(want_c):
        raise AnalysisBroken('state_status: summary tags not found: %s' % sorted(set(want_c) - seen_tags))
    # per-file flags feeding per-disk counters are reset for every file (a flag that stays set makes every later file count too)
    rep.rule('R-C20-4f', 'status: the flag behind the fragmented-file counter is cleared at the start of every file of the disk loop', 1)
    fr_al = []
    for c_ in s.calls('log_tag'):
        o_ = s.strip(c_.ops[0])
        gn_ = o_[1] if o_[0] == 'g' else (o_[1]['ops'][0][1] if o_[0] == 'ce' and o_[1]['ops'][0][0] == 'g' else None)
        if gn_ and (P.cstring(gn_) or '').startswith('summary:disk_fragmented_file_count:'):
            ld_ = s.inst_of(c_.ops[2]) if len(c_.ops) > 2 else None
            if ld_ is not None and ld_.op == 'load' and s.inst_of(ld_.ops[0]) is not None and s.inst_of(ld_.ops[0]).op == 'alloca':
                fr_al.append(s.inst_of(ld_.ops[0]))
    if len(fr_al) != 1:
        raise AnalysisBroken('state_status: the fragmented-file counter (summary:disk_fragmented_file_count) was not identified')
    incs_ = [u for u in s.users.get(fr_al[0].id, ()) if u.op == 'store' and s.strip(u.ops[1]) == ['i', fr_al[0].id] and s.inst_of(u.ops[0]) is not None and s.inst_of(u.ops[0]).op == 'add']
    okf = False; detf = 'counter increment not found'
    if len(incs_) == 1:
        flags_ = [a for a, p_ in _g(s, incs_[0]) if p_ and a.isidentifier()]
        lp_ = s.loop_of(incs_[0].block)
        detf = 'increment under %s' % flags_
        for fl in flags_[-1:]:
            al_ = [i for i in s.all_insts() if i.op == 'alloca' and i.var == fl]
            if len(al_) == 1 and lp_ is not None:
                zs = [u for u in s.users.get(al_[0].id, ()) if u.op == 'store' and s.const_of(u.ops[0]) == 0 and u.block in s.loops[lp_] and s.dominates(u, incs_[0])]
                okf = bool(zs)
                detf = 'flag `%s` cleared inside the file loop: %s' % (fl, okf)
    pool_order_rule(P, rep, 'R-C20-5o')
    unsynced_count_rule(P, rep, 'R-C20-4n')
    unsynced_reported_rule(P, rep, 'R-C20-4e')
    stripe_unsynced_predicate_rule(P, rep, 'R-C20-4v')
    from .C11 import invalid_walk_rule, hash_provenance_share
    invalid_walk_rule(P, rep, 'R-C20-4w', 'state_status', 'status reports the array as fully synced (no unsynced / unscrubbed stripe behind the used size is counted)')
    from .carried import carried_flags_rule
    carried_flags_rule(P, rep, 'R-C20-4g', only={'state_status', 'state_dup', 'state_list', 'state_pool', 'clean_dir', 'read_dir'}, min_examined=1)
    rep.check(okf, 'R-C20-4f', 'state_status: per-file fragmented flag reset', incs_[0].loc() if incs_ else s.file, detf if okf else detf + ': once one file of a disk is fragmented every later file of that disk is counted as fragmented', function='state_status', construct='fragmented flag reset')
    # pool
    for fn in ('make_link', 'clean_dir'):
        g = P.fn(fn)
        rep.analysed(g)
        pp = list(g.calls('pathprint'))
        rep.check(bool(pp) and all('pool_dir' in g.expr(c.ops[3]) or 'dir' in g.expr(c.ops[3]) for c in pp), 'R-C20-5', '%s builds its paths from the pool directory argument' % fn, g.file, str([g.expr(c.ops[3]) for c in pp]), function=fn, construct='pool path')
    # pool: an existing link is kept only if everything the re-creation would set is already equal (target and both time fields)
    rep.rule('R-C20-5k', 'make_link keeps an existing pool link only when its target, mtime_sec and mtime_nsec all match', 1)
    ml = P.fn('make_link')
    keep = [c for c in ml.calls('pool_free')]
    sym = list(ml.calls('symlink'))
    okk = False
    det = ''
    for c in keep:
        # the keep path: pool_free followed by return without reaching symlink
        if sym and sym[0].id in ml.reach([c]):
            continue
        gs = guards_of(ml, c)
        atoms = {(a.replace(' ', ''), p) for a, p in gs}
        tgt = any(a.startswith('strcmp(') and 'found->linkto' in a.split(',', 1)[0] and 'linkto' in a.split(',', 1)[1] and not p for a, p in atoms)
        sec = any(a in ('(found->mtime_sec==mtime_sec)',) and p for a, p in atoms)
        nsec = any(a in ('(found->mtime_nsec==mtime_nsec)',) and p for a, p in atoms)
        okk = tgt and sec and nsec
        det = 'target compared: %s, mtime_sec: %s, mtime_nsec: %s' % (tgt, sec, nsec)
    rep.check(okk, 'R-C20-5k', 'make_link keep-shortcut guard', ml.file, det, function='make_link', construct='keep shortcut')
    rep.extra['escaped_tag_names'] = n

    # pool clean-up: a sub-directory is removed exactly when the recursive clean-up of THAT directory found it empty
    rep.rule('R-C20-5c', 'clean_dir: rmdir of a sub-directory is decided by the result of cleaning that sub-directory (not by what else the parent contains)', 1)
    cd = P.fn('clean_dir')
    rm_ = [c_ for c_ in cd.calls({'rmdir', 'remove'}) if any(c2.callee == 'clean_dir' and cd.dominates(c2, c_) for c2 in cd.calls('clean_dir'))]
    okc = False; detc = 'removal of the emptied sub-directory not found'
    for c_ in rm_:
        gs = _g(cd, c_)
        rec = [(a, p_) for a, p_ in gs if a.startswith('clean_dir(')]
        loc_ = [(a, p_) for a, p_ in gs if a.isidentifier() and a not in ('dd',)]
        okc = bool(rec) and all(not p_ for a, p_ in rec) and not any(a == 'full' for a, p_ in loc_)
        detc = 'guards: %s' % [(a.split('(')[0], p_) for a, p_ in gs if a.startswith('clean_dir(') or a.isidentifier()]
    rep.check(okc, 'R-C20-5c', 'clean_dir: sub-directory removed iff its own clean-up returned empty', rm_[0].loc() if rm_ else cd.file, detc if okc else detc + ': an emptied directory is kept (or a non-empty one attempted) depending on the order of the parent\'s entries', function='clean_dir', construct='rmdir decision')


def pool_order_rule(P, rep, rid):
    """pool removes the stale links first and the directories they leave empty afterwards: a directory that holds only stale links
    is still "full" when the directory sweep runs before the link sweep, and it stays behind with its parents"""
    f = P.fn('state_pool')
    rep.analysed(f)
    rep.rule(rid, 'state_pool: the sweep that removes stale links (remove_link over the pool set) comes before clean_dir', 1)
    cd = list(f.calls('clean_dir'))
    sweeps = [c for c in f.calls('tommy_hashdyn_foreach_arg') if any(f.strip(o)[0] == 'f' and base(f.strip(o)[1]) == 'remove_link' for o in c.ops) or 'remove_link' in ' '.join(f.expr(o) for o in c.ops)]
    if not cd or not sweeps:
        raise AnalysisBroken('state_pool: clean_dir / remove_link sweep not found')
    ok = all(any(f.dominates(s, c) for s in sweeps) for c in cd)
    rep.check(ok, rid, 'state_pool: stale links are removed before the empty directories', cd[0].loc(),
              'the link sweep dominates clean_dir' if ok else 'clean_dir runs before the stale links are removed: a pool directory that contains only stale links is not empty yet, is kept, and stays in the pool (with its parents) after the links are gone',
              function='state_pool', construct='clean before link sweep')


def unsynced_count_rule(P, rep, rid):
    """status counts a stripe as unsynced when it has a block with a file and a block with invalid parity -- whatever its info word
    says: stripes of newly added files that never had parity computed have no info at all and are exactly the ones to report"""
    f = P.fn('state_status')
    rep.analysed(f)
    rep.rule(rid, 'state_status: the unsynced counter does not depend on the info word of the stripe (no guard derived from info_get)', 1)
    incs = [i for i in f.all_insts() if i.op == 'store' and f.expr(i.ops[1]) == '&unsynced_blocks' and f.inst_of(i.ops[0]) is not None and f.inst_of(i.ops[0]).op == 'add']
    if not incs:
        raise AnalysisBroken('state_status: unsynced counter not found')
    for inc in incs:
        lp = f.loop_of(inc.block)
        bad = []
        for b in range(len(f.blocks)):
            t = f.term(b)
            if t.op != 'br' or len(t.ops) != 3 or (lp is not None and b not in f.loops[lp] and b != lp):
                continue
            if not any(f.edge_dominates(t, s_, inc) for s_ in t.succ if s_ != inc.block or True):
                continue
            if sum(1 for s_ in t.succ if f.edge_dominates(t, s_, inc)) != 1:
                continue
            if ('call', 'info_get') in f.value_sources(t.ops[0]):
                bad.append(t)
        rep.check(not bad, rid, 'state_status: ++unsynced_blocks is independent of the stripe info', inc.loc(),
                  'guards do not read the info word' if not bad else 'the count is taken only under a test of the info word (line %s): stripes that never had parity computed (info 0: files added and not yet synced) are not counted, status can say "No sync is in progress" on an unsynced array' % bad[0].line,
                  function='state_status', construct='unsynced count under info test')


def stripe_unsynced_predicate_rule(P, rep, rid):
    """status (and parity_is_invalid, the same predicate asked by scan) call a stripe unsynced when one of its blocks has a file and
    one -- the same or ANOTHER, possibly a block without file: a deleted one -- has invalid parity.  The per-stripe part of the
    two loops is interpreted over every combination of block states of two disks; the counter / the verdict must follow
    exists(has file) and exists(invalid parity), the two quantifiers being independent."""
    from .. import region as RG
    import itertools
    from .C06 import blk_value
    rep.rule(rid, 'state_status / parity_is_invalid: a stripe is unsynced iff some block has a file and some block (maybe another one, maybe a deleted one) has invalid parity -- all 25 state pairs of two disks', 50)
    st = blk_value(P)
    states = {'EMPTY': None, 'BLK': st['BLK'], 'CHG': st['CHG'], 'REP': st['REP']}
    rd = P.fn('state_read_content')
    dele = [rd.const_of(c.ops[1]) for c in rd.calls('block_state_set') if rd.const_of(c.ops[1]) not in st.values()]
    if len(set(dele)) != 1:
        raise AnalysisBroken('DELETED state constant not recovered')
    states['DELETED'] = dele[0]
    has_file = {'BLK', 'CHG', 'REP'}; invalid = {'CHG', 'REP', 'DELETED'}
    nl = P.distructs.get('tommy_node_struct'); bl = P.distructs.get('snapraid_block')
    if not nl or not bl:
        raise AnalysisBroken('layouts of tommy_node_struct / snapraid_block not found')
    no = {m['name']: m['off'] for m in nl['members']}; bo = {m['name']: m['off'] for m in bl['members']}
    stl = P.distructs.get('snapraid_state')
    so = {m['name']: m['off'] for m in stl['members']} if stl else {}
    if 'disklist' not in so:
        raise AnalysisBroken('snapraid_state.disklist not found')

    class _Stop(Exception):
        pass

    for fname in ('state_status', 'parity_is_invalid'):
        f = P.fn(fname)
        rep.analysed(f)
        finds = [c for c in f.calls() if c.callee in ('fs_par2block_find', 'fs_par2block_get')]
        if len(finds) != 1:
            raise AnalysisBroken('%s: the block lookup of the stripe loop was not found' % fname)
        inner = f.loop_of(finds[0].block)
        outer = [h for h, body in f.loops.items() if inner in body and h != inner] if inner is not None else []
        if inner is None or len(outer) != 1:
            raise AnalysisBroken('%s: the loop over the disks inside the loop over the positions was not found' % fname)
        oh = outer[0]
        bad = None
        n = 0
        for pair in itertools.product(sorted(states), repeat=2):
            blocks = []
            def ext(ins, args):
                cal = ins.callee
                if cal in ('fs_par2block_find', 'fs_par2block_get'):
                    d = args[0]
                    k = d.reg[1] if isinstance(d, RG.P_) else 0
                    return (blocks[k],)
                if cal in ('log_tag', 'msg_progress', 'log_flush', 'msg_status', 'log_fatal'):
                    return (0,)
                if cal == 'parity_allocated_size':
                    return (1,)
                if cal == 'info_get':
                    return (0,)
                if cal == 'time':
                    return (1000,)
                return None
            R = RG.Region(P, extern=ext)
            R.discover = []
            for k, nm in enumerate(pair):
                if states[nm] is None:
                    blocks.append(0)
                else:
                    bp = RG.P_(('obj', 'block%d' % k), 0)
                    R.mem[(bp.reg, bo['state'])] = states[nm]
                    blocks.append(bp)
            sp = RG.P_(('obj', 'state'), 0)
            n0 = RG.P_(('node', 0), 0); n1 = RG.P_(('node', 1), 0)
            R.mem[(n0.reg, no['data'])] = RG.P_(('disk', 0), 0); R.mem[(n0.reg, no['next'])] = n1
            R.mem[(n1.reg, no['data'])] = RG.P_(('disk', 1), 0); R.mem[(n1.reg, no['next'])] = 0
            R.mem[(sp.reg, so['disklist'])] = n0
            R.zero_regions.add(sp.reg)
            want = int(any(x in has_file for x in pair) and any(x in invalid for x in pair))
            if fname == 'parity_is_invalid':
                try:
                    got = R.run(f, 0, [sp])
                except RG.Unsupported as e:
                    raise AnalysisBroken('cannot interpret parity_is_invalid: %s' % e)
                got = int(bool(got))
            else:
                # one position of the counting loop: from the loop header until the position loop is entered again
                cnt = [i for i in f.all_insts() if i.op == 'alloca' and (i.var or '') == 'unsynced_blocks']
                if len(cnt) != 1:
                    raise AnalysisBroken('state_status: the unsynced counter was not found')
                for a_ in f.arg_allocas():
                    pass
                seen = [0]
                def stop(ins):
                    return False
                R.set_local(f, 'state', sp)
                pl = R.local_by_id(f, cnt[0].id); R.mem[(pl.reg, 0)] = 0
                bm = [i for i in f.all_insts() if i.op == 'alloca' and (i.var or '') == 'blockmax']
                ii = [i for i in f.all_insts() if i.op == 'alloca' and (i.var or '') == 'i']
                if len(bm) != 1 or len(ii) != 1:
                    raise AnalysisBroken('state_status: loop variables not found')
                R.mem[(R.local_by_id(f, bm[0].id).reg, 0)] = 1
                R.mem[(R.local_by_id(f, ii[0].id).reg, 0)] = 0
                # run from the header of the position loop; the loop ends after one position (blockmax = 1): stop at the first call after it
                body = f.loops[oh]
                try:
                    R.run(f, oh, stop=lambda ins: f.insts.get(ins.id) is ins and ins.block not in body and ins.block != oh)
                    raise AnalysisBroken('state_status: the counting loop returned')
                except RG.Stop:
                    pass
                except RG.Unsupported as e:
                    raise AnalysisBroken('cannot interpret the counting loop of state_status: %s' % e)
                got = R.mem[(pl.reg, 0)]
            n += 1
            if got != want and bad is None:
                bad = 'blocks of the stripe %s: %s, but %s' % (list(pair), 'counted unsynced' if got else 'NOT unsynced', 'no block has both' if not want else 'one block has a file and one has invalid parity (a deleted block keeps the parity of the stripe invalid although it has no file): the stripe is waiting for a sync and is not reported')
        if bad:
            rep.fail(rid, '%s: stripe unsynced predicate' % fname, f.file, bad, function=fname, construct='unsynced predicate')
        else:
            for _ in range(n):
                rep.ok(rid, '%s state pair' % fname)


def _feasible_avoiding(f, target, avoid_blocks, limit=300000):
    """is `target` reachable from the entry without leaving any block of `avoid_blocks` through its terminator, on a path that never
    takes both outcomes of one comparison `local <pred> constant` (the local not being assigned in between)?  Conservative: when the
    search is cut off the answer is True."""
    def key_of(t):
        ci = f.inst_of(t.ops[0])
        if ci is None or ci.op != 'icmp' or f.const_of(ci.ops[1]) is None:
            return None
        li = f.inst_of(ci.ops[0])
        if li is None or li.op != 'load':
            return None
        a = f.strip(li.ops[0])
        if a[0] != 'i' or f.insts[a[1]].op != 'alloca':
            return None
        return (a[1], ci.pred, f.const_of(ci.ops[1]))
    from .C17 import _icmp
    stores = {}
    for i in f.all_insts():
        if i.op == 'store':
            a = f.strip(i.ops[1])
            if a[0] == 'i':
                stores.setdefault(i.block, set()).add(a[1])
    seen = set()
    stack = [(0, frozenset())]
    n = 0
    while stack:
        b, dec = stack.pop()
        if (b, dec) in seen:
            continue
        seen.add((b, dec))
        n += 1
        if n > limit:
            return True
        if b == target.block:
            return True
        if b in avoid_blocks:
            continue
        if b in stores:
            dec = frozenset(d for d in dec if d[0] not in stores[b])
        t = f.term(b)
        if t.op == 'br' and len(t.ops) == 3:
            k = key_of(t)
            if k is None:
                stack.append((t.ops[1][1], dec)); stack.append((t.ops[2][1], dec))
                continue
            # known facts about this local: (alloca, 'val-class') decisions are kept as (alloca, pred, const, outcome)
            outs = []
            for outcome in (False, True):
                ok = True
                for (a_, p_, c_, o_) in dec:
                    if a_ != k[0]:
                        continue
                    # is there a value satisfying both (p_ c_ == o_) and (k.pred k.const == outcome)?  try a few witnesses
                    wit = {c_ - 1, c_, c_ + 1, k[2] - 1, k[2], k[2] + 1}
                    if not any(_icmp(p_, v, c_) == o_ and _icmp(k[1], v, k[2]) == outcome for v in wit):
                        ok = False
                if ok:
                    outs.append(outcome)
            for outcome in outs:
                stack.append((t.ops[2][1] if outcome else t.ops[1][1], dec | {(k[0], k[1], k[2], outcome)}))
        else:
            for s_ in f.succ[b]:
                stack.append((s_, dec))
    return False


def unsynced_reported_rule(P, rep, rid):
    """whatever else status prints, it says whether unsynced stripes are recorded: every path from the end of the counting loop to a
    return passes a test of the unsynced counter (the report of "NOT fully synced" hangs on it).  An early return for an array
    "without information" skips it exactly when no stripe was ever synced and every recorded file is waiting for its first sync."""
    f = P.fn('state_status')
    rep.analysed(f)
    rep.rule(rid, 'state_status: every return is reached through a test of the unsynced counter', 1)
    tests = []
    for b in range(len(f.blocks)):
        t = f.term(b)
        if t.op == 'br' and len(t.ops) == 3 and f.loop_of(b) is None and 'unsynced_blocks' in f.xexpr(t.ops[0]):
            tests.append(t)
    if not tests:
        raise AnalysisBroken('state_status: no test of the unsynced counter outside the loops')
    bad = [r for r in f.returns() if not f.must_pass(r, tests)]
    if bad:
        # a path found by plain reachability may be infeasible when the same condition is tested twice (`if (!count) ...; if (!count)
        # return`): search again remembering the outcome of every comparison of a local with a constant
        bad = [r for r in bad if _feasible_avoiding(f, r, {t.block for t in tests})]
    path = f.find_path(f.entry(), bad[0], stop={t.id for t in tests}) if bad else None
    rep.check(not bad, rid, 'state_status always reports on unsynced stripes', tests[0].loc(),
              '%d test(s); every return passes one' % len(tests) if not bad else 'a return is reachable without any test of the unsynced counter (lines %s): with recorded but never synced files status stops at "The array is empty." although summary:has_unsynced is not zero' % [p_.line for p_ in (path or [])][-5:],
              function='state_status', construct='return without unsynced report')
