"""C20 — reports and derived views reflect the recorded state faithfully (escaping and derivation clauses only)."""
import re
from ..frontend import AnalysisBroken
from ..ir import base
from ..guards import guards_of
from . import C04

SPEC = re.compile(r'%[-+ #0]*(\*|\d+)?(\.(\*|\d+))?(hh|h|ll|l|j|z|t|L)?([diouxXeEfgGcspn%])')
NAME = re.compile(r'->(sub|linkto)(\[0\])?$')


def fmt_args(f, c, P):
    """[(conversion, argument operand, is_field)] for a printf-like call with a constant format; is_field: the conversion
    sits in the colon-separated field part of a tag line (before the first ': ' / ':\\n' free-text separator)"""
    o = f.strip(c.ops[0])
    if o[0] != 'ce' or o[1]['ops'][0][0] != 'g':
        return None, None
    fmt = P.cstring(o[1]['ops'][0][1])
    if fmt is None:
        return None, None
    msgstart = len(fmt)
    m = re.search(r': ', fmt)
    if m:
        msgstart = m.start()
    res = []
    k = 1
    for m in SPEC.finditer(fmt):
        conv = m.group(5)
        if conv == '%':
            continue
        if m.group(1) == '*':
            k += 1
        if m.group(3) == '*':
            k += 1
        if k < len(c.ops):
            res.append((conv, c.ops[k], m.start() < msgstart))
        k += 1
    return fmt, res


def run(ctx, rep):
    P = ctx.prog
    rep.explanation = ('Exactness of the reports over all states is NOT decided. Decided: every recorded name (file->sub, link target) printed in a field of a tag-log line passes esc_tag, and every name printed on stdout by '
                       'list/dup passes fmt_term; two names in one call use distinct buffers; the escaper maps LF, CR, colon and backslash to distinct two-character sequences introduced by the escape character itself; '
                       'dup compares only fully hashed non-empty files over the whole digest; status derives its counts from the recorded per-block/per-stripe flags of every position; pool paths are built under the pool directory.')
    rep.rule('R-C20-1', 'every recorded name in a field of a log_tag line is escaped with esc_tag (program-wide)', 100)
    rep.rule('R-C20-1t', 'list and dup print names on the terminal through fmt_term; two names in one call use two buffers', 5)
    rep.rule('R-C20-2', 'esc_tag: LF, CR, colon and the escape character map to distinct escape pairs; everything else is copied', 1)
    rep.rule('R-C20-3', 'dup: only fully hashed, non-empty files are compared, over the whole digest', 3)
    rep.rule('R-C20-4', 'status: unsynced / bad / rehash / justsynced derived from block_has_* / info_get_* of every position', 2)
    rep.rule('R-C20-5', 'pool: every removed / created path is built under the pool directory', 2)
    n = 0
    for f in P.defined():
        if not (f.file or '').startswith('cmdline/'):
            continue
        for c in f.calls('log_tag'):
            fmt, args = fmt_args(f, c, P)
            if args is None:
                continue
            bufs = []
            for conv, a, is_field in args:
                if conv != 's':
                    continue
                e = f.expr(a)
                if e.startswith('esc_tag('):
                    n += 1
                    ai = f.inst_of(a)
                    bufs.append(f.expr(ai.ops[1]))
                    rep.ok('R-C20-1', '%s: %s' % (base(f.name), e[:50]), '')
                elif NAME.search(e) and is_field:
                    rep.fail('R-C20-1', '%s: raw name %s in tag "%s"' % (base(f.name), e, fmt.split(':')[0]), c.loc(), 'recorded name printed in a tag field without esc_tag: a colon or newline in the name breaks the record structure', function=base(f.name), construct='raw %s in tag %s' % (e.split('->')[-1], fmt.split(':')[0]))
            if len(bufs) > 1 and len(set(bufs)) != len(bufs):
                rep.fail('R-C20-1', '%s: two escaped names share one buffer' % base(f.name), c.loc(), str(bufs), function=base(f.name), construct='shared esc buffer')
            rep.analysed(f)
    for fn in ('state_list', 'state_dup'):
        f = P.fn(fn)
        rep.analysed(f)
        for c in f.calls('printf'):
            fmt, args = fmt_args(f, c, P)
            if not args:
                continue
            bufs = []
            for conv, a, _ in args:
                if conv != 's':
                    continue
                e = f.expr(a)
                if e.startswith('fmt_term('):
                    ai = f.inst_of(a)
                    bufs.append(f.expr(ai.ops[2]))
                    rep.ok('R-C20-1t', '%s: %s' % (fn, e[:50]), '')
                elif NAME.search(e):
                    rep.fail('R-C20-1t', '%s: raw name %s on stdout' % (fn, e), c.loc(), 'name printed without fmt_term', function=fn, construct='raw name on terminal')
            if len(bufs) > 1 and len(set(bufs)) != len(bufs):
                rep.fail('R-C20-1t', '%s: two names share one buffer' % fn, c.loc(), str(bufs), function=fn, construct='shared buffer')
    # esc_tag decided semantically: interpreted over every byte value and every pair around the special characters
    from .. import region as RG
    e = P.fn('esc_tag')
    rep.analysed(e)
    def esc(bs):
        R = RG.Region(P, extern=lambda ins, args: None)
        sp = RG.P_(('str', 'in'), 0)
        for k, v in enumerate(bs):
            R.mem[(sp.reg, k)] = v
        R.mem[(sp.reg, len(bs))] = 0
        out = RG.P_(('buf', 'out'), 0)
        try:
            r = R.run(e, 0, [sp, out])
        except RG.Unsupported as ex:
            raise AnalysisBroken('cannot interpret esc_tag: %s' % ex)
        res = []
        k = 0
        while True:
            v = R.mem.get((r.reg, r.off + k))
            if v is None:
                raise AnalysisBroken('esc_tag output is not terminated')
            v &= 0xff
            if v == 0:
                break
            res.append(v); k += 1
        return bytes(res)
    special = [10, 13, 58, 92]
    inputs = [bytes([c]) for c in range(1, 256)] + [bytes([a_, b_]) for a_ in special + [65, 110, 100, 114] for b_ in special + [65, 110, 100, 114]]
    outs = {}
    bad_ = None
    for inp in inputs:
        o = esc(inp)
        if any(x in o for x in (10, 13, 58)) and bad_ is None:
            bad_ = 'input %r is written as %r: a raw line/field separator reaches the log line' % (inp, o)
        if o in outs and outs[o] != inp and bad_ is None:
            bad_ = 'inputs %r and %r are both written as %r: the tag cannot be decoded' % (outs[o], inp, o)
        outs[o] = inp
        if len(inp) == 1 and inp[0] not in special and o != inp and bad_ is None:
            bad_ = 'ordinary character %r is altered to %r' % (inp, o)
    rep.check(bad_ is None, 'R-C20-2', 'esc_tag never emits a raw LF / CR / colon, is injective, and copies every other byte (all 255 byte values, 64 pairs around the special characters)', e.file, '%d inputs' % len(inputs) if bad_ is None else bad_, function='esc_tag', construct='escape function')
    # dup
    d = P.fn('state_dup')
    ha = list(d.calls('hash_alloc'))
    rep.check(bool(ha), 'R-C20-3', 'state_dup hashes each candidate with hash_alloc', d.file, '', function='state_dup', construct='hash_alloc')
    h = P.fn('hash_alloc')
    rep.analysed(h)
    uh = list(h.calls('block_has_updated_hash'))
    ok = bool(uh)
    if ok:
        zero = [i for i in h.all_insts() if i.op == 'store' and h.expr(i.ops[1]) == '&retval' and h.const_of(i.ops[0]) == 0]
        brs = C04.cond_branches_on_call(h, uh[0])
        ok = bool(zero) and bool(brs) and h.loop_of(uh[0].block) is not None
    rep.check(ok, 'R-C20-3', 'hash_alloc returns 0 unless every block has an updated hash', h.file, '', function='hash_alloc', construct='fully hashed')
    hc = P.fn('hash_compare')
    mc = list(hc.calls('memcmp'))
    rep.check(len(mc) == 1 and hc.const_of(mc[0].ops[2]) == 16, 'R-C20-3', 'dup equality over the whole 16-byte digest', hc.file, '', function='hash_compare', construct='digest size')
    # status
    s = P.fn('state_status')
    rep.analysed(s)
    cal = {c.callee for c in s.calls()}
    need = {'info_get_bad', 'info_get_rehash', 'info_get_justsynced', 'info_get_time'}
    rep.check(need <= cal, 'R-C20-4', 'state_status reads bad / rehash / justsynced / time of the stripe info', s.file, str(sorted(need & cal)), function='state_status', construct='info flags')
    loops = [c for c in s.calls('info_get') if s.loop_of(c.block) is not None]
    rep.check(len(loops) >= 2, 'R-C20-4', 'state_status scans the info of every position in loops', s.file, '%d loop sites' % len(loops), function='state_status', construct='scan all')
    # the unsynced counter: a stripe counts iff some disk has a block waiting for parity (block_has_invalid_parity: CHG, REP
    # and DELETED alike) and some disk has a file there -- the same predicates the sync engine uses to decide that a stripe needs work
    rep.rule('R-C20-4u', 'status counts a stripe as unsynced iff one block has invalid parity (any of CHG/REP/DELETED) and one block has a file', 1)
    from ..guards import guards_of as _g
    from ..stripe import StripeLoop as _SL
    incs = []
    # the counter is the local printed by the tag summary:has_unsynced (no dependence on its name)
    uns_al = []
    for c_ in s.calls('log_tag'):
        o_ = s.strip(c_.ops[0])
        gn_ = o_[1] if o_[0] == 'g' else (o_[1]['ops'][0][1] if o_[0] == 'ce' and o_[1]['ops'][0][0] == 'g' else None)
        if gn_ and (P.cstring(gn_) or '').startswith('summary:has_unsynced:'):
            ld_ = s.inst_of(c_.ops[1])
            if ld_ is not None and ld_.op == 'load' and s.inst_of(ld_.ops[0]) is not None:
                uns_al.append(s.inst_of(ld_.ops[0]))
    for al in uns_al:
        for u in s.users.get(al.id, ()):
            if u.op == 'store' and s.strip(u.ops[1]) == ['i', al.id]:
                v = s.inst_of(u.ops[0])
                if v is not None and v.op == 'add':
                    incs.append(u)
    if len(incs) != 1:
        raise AnalysisBroken('state_status: unsynced counter increment not found')
    feeding = set()
    for a_, pol in _g(s, incs[0]):
        if not pol:
            continue
        for st_ in [i for i in s.all_insts() if i.op == 'store' and s.expr(i.ops[1]).lstrip('&') == a_ and s.const_of(i.ops[0]) == 1]:
            for g_, p_ in _g(s, st_):
                if 'block_has' in g_:
                    feeding.add((g_.split('(')[0].lstrip('('), p_))
    want_ = {('block_has_invalid_parity', True), ('block_has_file', True)}
    rep.check(feeding == want_, 'R-C20-4u', 'state_status: ++unsynced_blocks depends on block_has_invalid_parity and block_has_file of the blocks of the stripe', incs[0].loc(), 'predicates feeding the counter: %s' % sorted(feeding), function='state_status', construct='unsynced predicate')
    # each summary counter is fed by the predicate its tag names (label <-> predicate pairing, independent of local names)
    rep.rule('R-C20-4c', 'status summary tags: has_bad counts info_get_bad, has_rehash counts info_get_rehash, has_unscrubbed counts info_get_justsynced', 3)
    want_c = {'has_bad': 'info_get_bad', 'has_rehash': 'info_get_rehash', 'has_unscrubbed': 'info_get_justsynced'}
    seen_tags = set()
    for c in s.calls('log_tag'):
        o = s.strip(c.ops[0])
        gname = o[1] if o[0] == 'g' else (o[1]['ops'][0][1] if o[0] == 'ce' and o[1]['ops'][0][0] == 'g' else None)
        fmt_ = P.cstring(gname) if gname else None
        if not fmt_:
            continue
        m_ = re.match(r'^summary:(has_\w+):%u', fmt_)
        if not m_ or m_.group(1) not in want_c:
            continue
        tag = m_.group(1)
        seen_tags.add(tag)
        ld = s.inst_of(c.ops[1])
        al = s.inst_of(ld.ops[0]) if ld is not None and ld.op == 'load' else None
        preds = set()
        if al is not None and al.op == 'alloca':
            for u in s.users.get(al.id, ()):
                if u.op == 'store' and s.strip(u.ops[1]) == ['i', al.id] and s.inst_of(u.ops[0]) is not None and s.inst_of(u.ops[0]).op == 'add':
                    for g_, p_ in _g(s, u):
                        if g_.startswith('info_get_') and p_:
                            preds.add(g_.split('(')[0])
        rep.check(preds == {want_c[tag]}, 'R-C20-4c', 'summary:%s counts stripes for which %s holds' % (tag, want_c[tag]), c.loc(), 'counter incremented under %s' % sorted(preds), function='state_status', construct='counter %s' % tag)
    if seen_tags != set(want_c):
        raise AnalysisBroken('state_status: summary tags not found: %s' % sorted(set(want_c) - seen_tags))
    # per-file flags feeding per-disk counters are reset for every file (a flag that stays set makes every later file count too)
    rep.rule('R-C20-4f', 'status: the flag behind the fragmented-file counter is cleared at the start of every file of the disk loop', 1)
    fr_al = []
    for c_ in s.calls('log_tag'):
        o_ = s.strip(c_.ops[0])
        gn_ = o_[1] if o_[0] == 'g' else (o_[1]['ops'][0][1] if o_[0] == 'ce' and o_[1]['ops'][0][0] == 'g' else None)
        if gn_ and (P.cstring(gn_) or '').startswith('summary:disk_fragmented_file_count:'):
            ld_ = s.inst_of(c_.ops[2]) if len(c_.ops) > 2 else None
            if ld_ is not None and ld_.op == 'load' and s.inst_of(ld_.ops[0]) is not None and s.inst_of(ld_.ops[0]).op == 'alloca':
                fr_al.append(s.inst_of(ld_.ops[0]))
    if len(fr_al) != 1:
        raise AnalysisBroken('state_status: the fragmented-file counter (summary:disk_fragmented_file_count) was not identified')
    incs_ = [u for u in s.users.get(fr_al[0].id, ()) if u.op == 'store' and s.strip(u.ops[1]) == ['i', fr_al[0].id] and s.inst_of(u.ops[0]) is not None and s.inst_of(u.ops[0]).op == 'add']
    okf = False; detf = 'counter increment not found'
    if len(incs_) == 1:
        flags_ = [a for a, p_ in _g(s, incs_[0]) if p_ and a.isidentifier()]
        lp_ = s.loop_of(incs_[0].block)
        detf = 'increment under %s' % flags_
        for fl in flags_[-1:]:
            al_ = [i for i in s.all_insts() if i.op == 'alloca' and i.var == fl]
            if len(al_) == 1 and lp_ is not None:
                zs = [u for u in s.users.get(al_[0].id, ()) if u.op == 'store' and s.const_of(u.ops[0]) == 0 and u.block in s.loops[lp_] and s.dominates(u, incs_[0])]
                okf = bool(zs)
                detf = 'flag `%s` cleared inside the file loop: %s' % (fl, okf)
    pool_order_rule(P, rep, 'R-C20-5o')
    unsynced_count_rule(P, rep, 'R-C20-4n')
    unsynced_reported_rule(P, rep, 'R-C20-4e')
    from .C11 import invalid_walk_rule, hash_provenance_share
    invalid_walk_rule(P, rep, 'R-C20-4w', 'state_status', 'status reports the array as fully synced (no unsynced / unscrubbed stripe behind the used size is counted)')
    from .carried import carried_flags_rule
    carried_flags_rule(P, rep, 'R-C20-4g', only={'state_status', 'state_dup', 'state_list', 'state_pool', 'clean_dir', 'read_dir'}, min_examined=1)
    rep.check(okf, 'R-C20-4f', 'state_status: per-file fragmented flag reset', incs_[0].loc() if incs_ else s.file, detf if okf else detf + ': once one file of a disk is fragmented every later file of that disk is counted as fragmented', function='state_status', construct='fragmented flag reset')
    # pool
    for fn in ('make_link', 'clean_dir'):
        g = P.fn(fn)
        rep.analysed(g)
        pp = list(g.calls('pathprint'))
        rep.check(bool(pp) and all('pool_dir' in g.expr(c.ops[3]) or 'dir' in g.expr(c.ops[3]) for c in pp), 'R-C20-5', '%s builds its paths from the pool directory argument' % fn, g.file, str([g.expr(c.ops[3]) for c in pp]), function=fn, construct='pool path')
    # pool: an existing link is kept only if everything the re-creation would set is already equal (target and both time fields)
    rep.rule('R-C20-5k', 'make_link keeps an existing pool link only when its target, mtime_sec and mtime_nsec all match', 1)
    ml = P.fn('make_link')
    keep = [c for c in ml.calls('pool_free')]
    sym = list(ml.calls('symlink'))
    okk = False
    det = ''
    for c in keep:
        # the keep path: pool_free followed by return without reaching symlink
        if sym and sym[0].id in ml.reach([c]):
            continue
        gs = guards_of(ml, c)
        atoms = {(a.replace(' ', ''), p) for a, p in gs}
        tgt = any(a.startswith('strcmp(') and 'found->linkto' in a.split(',', 1)[0] and 'linkto' in a.split(',', 1)[1] and not p for a, p in atoms)
        sec = any(a in ('(found->mtime_sec==mtime_sec)',) and p for a, p in atoms)
        nsec = any(a in ('(found->mtime_nsec==mtime_nsec)',) and p for a, p in atoms)
        okk = tgt and sec and nsec
        det = 'target compared: %s, mtime_sec: %s, mtime_nsec: %s' % (tgt, sec, nsec)
    rep.check(okk, 'R-C20-5k', 'make_link keep-shortcut guard', ml.file, det, function='make_link', construct='keep shortcut')
    rep.extra['escaped_tag_names'] = n

    # pool clean-up: a sub-directory is removed exactly when the recursive clean-up of THAT directory found it empty
    rep.rule('R-C20-5c', 'clean_dir: rmdir of a sub-directory is decided by the result of cleaning that sub-directory (not by what else the parent contains)', 1)
    cd = P.fn('clean_dir')
    rm_ = [c_ for c_ in cd.calls({'rmdir', 'remove'}) if any(c2.callee == 'clean_dir' and cd.dominates(c2, c_) for c2 in cd.calls('clean_dir'))]
    okc = False; detc = 'removal of the emptied sub-directory not found'
    for c_ in rm_:
        gs = _g(cd, c_)
        rec = [(a, p_) for a, p_ in gs if a.startswith('clean_dir(')]
        loc_ = [(a, p_) for a, p_ in gs if a.isidentifier() and a not in ('dd',)]
        okc = bool(rec) and all(not p_ for a, p_ in rec) and not any(a == 'full' for a, p_ in loc_)
        detc = 'guards: %s' % [(a.split('(')[0], p_) for a, p_ in gs if a.startswith('clean_dir(') or a.isidentifier()]
    rep.check(okc, 'R-C20-5c', 'clean_dir: sub-directory removed iff its own clean-up returned empty', rm_[0].loc() if rm_ else cd.file, detc if okc else detc + ': an emptied directory is kept (or a non-empty one attempted) depending on the order of the parent\'s entries', function='clean_dir', construct='rmdir decision')


def pool_order_rule(P, rep, rid):
    """pool removes the stale links first and the directories they leave empty afterwards: a directory that holds only stale links
    is still "full" when the directory sweep runs before the link sweep, and it stays behind with its parents"""
    f = P.fn('state_pool')
    rep.analysed(f)
    rep.rule(rid, 'state_pool: the sweep that removes stale links (remove_link over the pool set) comes before clean_dir', 1)
    cd = list(f.calls('clean_dir'))
    sweeps = [c for c in f.calls('tommy_hashdyn_foreach_arg') if any(f.strip(o)[0] == 'f' and base(f.strip(o)[1]) == 'remove_link' for o in c.ops) or 'remove_link' in ' '.join(f.expr(o) for o in c.ops)]
    if not cd or not sweeps:
        raise AnalysisBroken('state_pool: clean_dir / remove_link sweep not found')
    ok = all(any(f.dominates(s, c) for s in sweeps) for c in cd)
    rep.check(ok, rid, 'state_pool: stale links are removed before the empty directories', cd[0].loc(),
              'the link sweep dominates clean_dir' if ok else 'clean_dir runs before the stale links are removed: a pool directory that contains only stale links is not empty yet, is kept, and stays in the pool (with its parents) after the links are gone',
              function='state_pool', construct='clean before link sweep')


def unsynced_count_rule(P, rep, rid):
    """status counts a stripe as unsynced when it has a block with a file and a block with invalid parity -- whatever its info word
    says: stripes of newly added files that never had parity computed have no info at all and are exactly the ones to report"""
    f = P.fn('state_status')
    rep.analysed(f)
    rep.rule(rid, 'state_status: the unsynced counter does not depend on the info word of the stripe (no guard derived from info_get)', 1)
    incs = [i for i in f.all_insts() if i.op == 'store' and f.expr(i.ops[1]) == '&unsynced_blocks' and f.inst_of(i.ops[0]) is not None and f.inst_of(i.ops[0]).op == 'add']
    if not incs:
        raise AnalysisBroken('state_status: unsynced counter not found')
    for inc in incs:
        lp = f.loop_of(inc.block)
        bad = []
        for b in range(len(f.blocks)):
            t = f.term(b)
            if t.op != 'br' or len(t.ops) != 3 or (lp is not None and b not in f.loops[lp] and b != lp):
                continue
            if not any(f.edge_dominates(t, s_, inc) for s_ in t.succ if s_ != inc.block or True):
                continue
            if sum(1 for s_ in t.succ if f.edge_dominates(t, s_, inc)) != 1:
                continue
            if ('call', 'info_get') in f.value_sources(t.ops[0]):
                bad.append(t)
        rep.check(not bad, rid, 'state_status: ++unsynced_blocks is independent of the stripe info', inc.loc(),
                  'guards do not read the info word' if not bad else 'the count is taken only under a test of the info word (line %s): stripes that never had parity computed (info 0: files added and not yet synced) are not counted, status can say "No sync is in progress" on an unsynced array' % bad[0].line,
                  function='state_status', construct='unsynced count under info test')


def unsynced_reported_rule(P, rep, rid):
    """whatever else status prints, it says whether unsynced stripes are recorded: every path from the end of the counting loop to a
    return passes a test of the unsynced counter (the report of "NOT fully synced" hangs on it).  An early return for an array
    "without information" skips it exactly when no stripe was ever synced and every recorded file is waiting for its first sync."""
    f = P.fn('state_status')
    rep.analysed(f)
    rep.rule(rid, 'state_status: every return is reached through a test of the unsynced counter', 1)
    tests = []
    for b in range(len(f.blocks)):
        t = f.term(b)
        if t.op == 'br' and len(t.ops) == 3 and f.loop_of(b) is None and 'unsynced_blocks' in f.xexpr(t.ops[0]):
            tests.append(t)
    if not tests:
        raise AnalysisBroken('state_status: no test of the unsynced counter outside the loops')
    bad = [r for r in f.returns() if not f.must_pass(r, tests)]
    path = f.find_path(f.entry(), bad[0], stop={t.id for t in tests}) if bad else None
    rep.check(not bad, rid, 'state_status always reports on unsynced stripes', tests[0].loc(),
              '%d test(s); every return passes one' % len(tests) if not bad else 'a return is reachable without any test of the unsynced counter (lines %s): with recorded but never synced files status stops at "The array is empty." although summary:has_unsynced is not zero' % [p_.line for p_ in (path or [])][-5:],
              function='state_status', construct='return without unsynced report')
