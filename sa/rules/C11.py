"""C11 — a successful sync captures every change and converges (three structural clauses only)."""
import re
from ..frontend import AnalysisBroken
from ..ir import base
from ..guards import guards_of
from .C09 import dead_blocks
from . import C04

CORE = {'size', 'mtime_sec', 'mtime_nsec'}
# functions that decide "this is the recorded file, unchanged" (confirmed by reading); value = minimal number of complete comparisons
SITES = {'scan_file': 2, 'sync_data_reader': 1, 'state_hash_process': 1, 'scrub_data_reader': 1, 'state_check_process': 1, 'search_file_compare': 1, 'file_copy': 1, 'file_stamp_compare': 1, 'file_post': 1}


def compared_members(f):
    """for every equality/inequality comparison between a recorded member and a stat field or another record: member -> count"""
    cnt = {}
    for i in f.all_insts():
        if i.op != 'icmp':
            continue
        a, b = f.expr(i.ops[0]), f.expr(i.ops[1])
        ma = re.search(r'->(size|mtime_sec|mtime_nsec|inode)$', a)
        mb = re.search(r'->(size|mtime_sec|mtime_nsec|inode)$', b)
        sa_ = re.search(r'st_(size|mtim\.tv_sec|mtim\.tv_nsec|ino)$', a)
        sb_ = re.search(r'st_(size|mtim\.tv_sec|mtim\.tv_nsec|ino)$', b)
        mem = None
        if ma and (sb_ or mb):
            mem = ma.group(1)
        elif mb and sa_:
            mem = mb.group(1)
        if mem and i.pred in ('eq', 'ne'):
            cnt[mem] = cnt.get(mem, 0) + 1
        elif mem and i.pred in ('ult', 'ugt', 'slt', 'sgt') and base(f.name) == 'file_stamp_compare':
            cnt[mem] = cnt.get(mem, 0) + 0.5
    return cnt


def nsec_alternatives(P, rep, rid):
    """every `recorded nsec == live nsec` test of scan_file opens a keep decision; the only other way into the same
    accepting block is the recorded value being STAT_NSEC_INVALID.  Any further alternative (e.g. nsec == 0) makes a
    file whose time-stamp changed count as unchanged."""
    f = P.fn('scan_file')
    live = [i for i in f.all_insts() if i.op == 'icmp' and i.pred == 'eq' and f.expr(i.ops[0]).endswith('->mtime_nsec') and 'tv_nsec' in f.expr(i.ops[1])]
    if len(live) < 2:
        raise AnalysisBroken('scan_file: expected two keep decisions comparing the recorded and the live nanoseconds, found %d' % len(live))
    for c in live:
        brs = [u for u in f.users.get(c.id, ()) if u.op == 'br' and len(u.ops) == 3]
        if len(brs) != 1:
            raise AnalysisBroken('scan_file: nanosecond comparison at %s does not steer a branch directly' % c.loc())
        acc = brs[0].ops[2][1]
        alts = []
        for pb in f.pred[acc]:
            t = f.term(pb)
            if t.op == 'br' and len(t.ops) == 3:
                e = f.expr(t.ops[0]).replace(' ', '')
                pol = t.ops[2][1] == acc
                alts.append((e, pol, t))
            else:
                alts.append(('<unconditional from %s>' % f.bname[pb], True, t))
        bad = []
        for e, pol, t in alts:
            ci = f.inst_of(t.ops[0]) if t.op == 'br' and len(t.ops) == 3 else None
            ok = ci is not None and ci.op == 'icmp' and ci.pred == 'eq' and pol and f.expr(ci.ops[0]).endswith('->mtime_nsec') and \
                (ci.id == c.id or f.const_of(ci.ops[1]) == -1) and f.expr(ci.ops[0]) == f.expr(c.ops[0])
            if not ok:
                bad.append(e + ('' if pol else ' [false edge]'))
        rep.check(not bad, rid, 'scan_file keep decision at line %s: the nanosecond test accepts only equality or a recorded STAT_NSEC_INVALID' % c.line, c.loc(),
                  'alternatives entering the accepting block: %s%s' % ([a[0] for a in alts], '; not allowed: %s' % bad if bad else ''), function='scan_file', construct='nsec alternatives')


def block_count_fits_rule(P, rep, rid):
    """a file has ceil(size / block_size) blocks, kept in a 32-bit block_off_t.  With the smallest block sizes a sparse file of a few TiB
    has 2^32 blocks or more: narrowed silently, a 4 TiB file is recorded -- and hashed, and protected -- as 2 blocks, sync ends
    `Everything OK`, and the content file it wrote is rejected by every later command.  file_alloc is interpreted (E10) for counts
    around 2^32: either the exact count is stored, or the file is refused before anything is recorded."""
    from .. import region as RG
    rep.rule(rid, 'file_alloc: the number of blocks of a file is stored exactly or the file is refused (no silent narrowing to 32 bits)', 6)
    f = P.fn('file_alloc')
    rep.analysed(f)
    lay = P.distructs.get('snapraid_file')
    if not lay:
        raise AnalysisBroken('struct snapraid_file not found')
    fo = {m['name']: m['off'] for m in lay['members']}
    bs = 1024
    class _Exit(Exception):
        pass
    for count in (0, 1, 3, (1 << 32) - 1, (1 << 32), (1 << 32) + 2):
        size = count * bs - (5 if count else 0)
        objs = [0]
        def ext(ins, args):
            c = ins.callee
            if c in ('malloc_nofail', 'strdup_nofail'):
                objs[0] += 1
                reg = ('heap', objs[0])
                R.zero_regions.add(reg)
                return (RG.P_(reg, 0),)
            if c in ('log_fatal', 'log_error'):
                return (0,)
            if c == 'exit':
                raise _Exit()
            return None
        R = RG.Region(P, extern=ext, max_steps=4000)
        R.zero_regions.add(('glob', 'exit_failure'))
        R.mem[(('glob', 'BLOCK_HASH_SIZE'), 0)] = 16
        refused = False
        got = None
        try:
            R.run(f, 0, [bs, RG.P_(('str', 'sub'), 0), size, 0, 0, 0, 0])
        except _Exit:
            refused = True
        except RG.Unsupported as e:
            # the loop that initialises the blocks runs `blockmax` times: the step budget ends it; what matters was stored before
            if 'step budget' not in str(e):
                raise AnalysisBroken('cannot interpret file_alloc: %s' % e)
        if not refused:
            got = R.mem.get((('heap', 1), fo['blockmax']))
        ok = refused if count > 0xFFFFFFFF else (not refused and got == count)
        rep.check(ok, rid, 'file of %d blocks' % count, f.file,
                  'refused' if refused and ok else ('blockmax = %s' % got if ok else ('refused although the count fits' if refused else 'blockmax = %s for a file of %d blocks: the count is narrowed to 32 bits -- the file is hashed and protected for %s blocks only, sync succeeds, and the content file it writes (size %d with %s blocks) is rejected as inconsistent by every later command' % (got, count, got, size, got))),
                  function='file_alloc', construct='block count narrowed')


def run(ctx, rep):
    P = ctx.prog
    rep.explanation = ('Scan classification over all operation sequences is behaviour over run-time directory contents: NOT decided. Decided: (1) every site that decides "this is the recorded file, unchanged" compares at '
                       'least size, mtime_sec and mtime_nsec (sibling agreement); (2) the diff verdict depends on every change counter of the scan and on parity validity, and main maps it to the exit code; '
                       '(3) after the scan every entity not marked present is removed, removals precede the delayed inserts, and any change propagates need_write.')
    rep.rule('R-C11-1', 'attribute-set agreement: every "unchanged?" decision compares at least {size, mtime_sec, mtime_nsec}', 9)
    rep.rule('R-C11-1n', 'STAT_NSEC_INVALID is accepted only in scan and only on the recorded side', 1)
    rep.rule('R-C11-2', 'diff verdict: no_difference depends on every change counter; diff returns 1 on differences or invalid parity; main maps it to the sync-needed exit', 4)
    rep.rule('R-C11-3', 'scan epilogue: entities without the PRESENT mark are removed (files, links, dirs), before the delayed inserts; changes propagate need_write', 5)
    for fn, need in sorted(SITES.items()):
        f = P.fn(fn)
        rep.analysed(f)
        cm = compared_members(f)
        # every decision (one per comparison of `size`) is complete: the time fields are compared at least as often as the size
        need = max(need, cm.get('size', 0))
        ok = all(cm.get(k, 0) >= need for k in CORE)
        rep.check(ok, 'R-C11-1', '%s compares size, mtime_sec and mtime_nsec' % fn, f.file, 'comparisons per member: %s (needed %d each)' % (cm, need), function=fn, construct='attribute set')
    # links: the "unchanged" decision compares the target text and the link kind
    sl = P.fn('scan_link')
    rep.analysed(sl)
    rep.rule('R-C11-1l', 'scan_link: a recorded link is unchanged only if target and kind (hard/symbolic) are equal', 1)
    conds = [sl.expr(sl.term(b).ops[0]).replace(' ', '') for b in range(len(sl.blocks)) if sl.term(b).op == 'br' and len(sl.term(b).ops) == 3]
    tgt = any(c.startswith('(strcmp(') and 'linkto' in c for c in conds)
    kind = any('link_flag' in c and 'link_flag_get(' in c for c in conds)
    # both belong to the same decision: the kind test dominates or is dominated by the target test
    rep.check(tgt and kind, 'R-C11-1l', 'scan_link compares linkto and link kind', sl.file, 'target compared: %s; kind compared: %s' % (tgt, kind), function='scan_link', construct='link attribute set')
    rep.rule('R-C11-1a', 'scan_file: each keep decision accepts a nanosecond mismatch only when the recorded value is STAT_NSEC_INVALID', 2)
    nsec_alternatives(P, rep, 'R-C11-1a')
    # NSEC_INVALID acceptance
    inv_sites = []
    for f in P.defined():
        if base(f.name) not in SITES:
            continue
        for i in f.all_insts():
            if i.op == 'icmp' and i.pred == 'eq' and f.const_of(i.ops[1]) == -1 and f.expr(i.ops[0]).endswith('->mtime_nsec'):
                inv_sites.append((base(f.name), f.expr(i.ops[0])))
    rep.check(bool(inv_sites) and all(fn == 'scan_file' and e.startswith('file->') for fn, e in inv_sites), 'R-C11-1n', 'mtime_nsec == STAT_NSEC_INVALID accepted only for the recorded file in scan_file', 'cmdline/scan.c', str(inv_sites), function='scan_file', construct='nsec invalid')

    d = P.fn('state_diffscan')
    rep.analysed(d)
    # counters of struct snapraid_scan
    ds = P.distructs.get('snapraid_scan')
    if not ds:
        raise AnalysisBroken('struct snapraid_scan not found')
    counters = [m['name'] for m in ds['members'] if m['name'].startswith('count_')]
    st = [i for i in d.all_insts() if i.op == 'store' and d.expr(i.ops[1]) == '&no_difference']
    # the conjunction is emitted as a short-circuit chain: collect the conditions of the branches that feed the phi/stores
    used = set()
    for b in range(len(d.blocks)):
        t = d.term(b)
        if t.op == 'br' and len(t.ops) == 3:
            e = d.expr(t.ops[0])
            m = re.search(r'total\.(count_\w+)', e)
            if m and st and any(s.id in d.reach([t]) for s in st) and not any(t.id in d.reach([s]) for s in st):
                used.add(m.group(1))
    for i in d.all_insts():
        if i.op == 'icmp' and st:
            m = re.search(r'total\.(count_\w+)', d.expr(['i', i.id]))
            if m and any(s.id in d.reach([i]) for s in st) and any(d.bdominates(i.block, s.block) or True for s in st):
                # only the ones in the expression region right before the store
                if any(abs(i.line - s.line) <= 3 for s in st):
                    used.add(m.group(1))
    need = set(counters) - {'count_equal'}
    rep.check(need <= used and bool(st), 'R-C11-2', 'no_difference depends on every counter except count_equal', st[0].loc() if st else d.file, 'struct counters %s; used %s' % (sorted(counters), sorted(used)), function='state_diffscan', construct='verdict counters')
    one = [i for i in d.all_insts() if i.op == 'store' and d.expr(i.ops[1]) == '&retval' and d.const_of(i.ops[0]) == 1]
    ok = len(one) == 2
    if ok:
        g0 = guards_of(d, one[0]); g1 = guards_of(d, one[1])
        allg = [dict((a, p) for a, p in g) for g in (g0, g1)]
        ok = all(g.get('is_diff') is True for g in allg) and any(g.get('no_difference') is False for g in allg) and any(any('parity_is_invalid' in a and p for a, p in g.items()) for g in allg)
    rep.check(ok, 'R-C11-2', 'state_diffscan returns 1 when there are differences or the parity is invalid (diff only)', d.file, '', function='state_diffscan', construct='diff return')
    m = P.fn('main')
    sd = list(m.calls('state_diff'))
    ok = len(sd) == 1
    if ok:
        ex = [c for c in m.calls('exit') if 'exit_sync_needed' in m.expr(c.ops[0])]
        ok = len(ex) == 1 and ex[0].id in m.reach([sd[0]])
        if ok:
            gs = guards_of(m, ex[0])
            ok = any((a == 'ret' or 'state_diff(' in a or '(ret>0)' in a.replace(' ', '')) for a, p in gs)
    rep.check(ok, 'R-C11-2', 'main: state_diff() > 0 exits with status 2 (sync needed)', m.file, '', function='main', construct='exit code')
    pi = P.fn('parity_is_invalid')
    rep.analysed(pi)
    callees = {c.callee for c in pi.calls()}
    sync_enabled = [f for f in P.variants('block_is_enabled') if (f.file or '').endswith('sync.c')]
    se = {c.callee for c in sync_enabled[0].calls()} if sync_enabled else set()
    rep.check({'block_has_file', 'block_has_invalid_parity'} <= callees and {'block_has_file', 'block_has_invalid_parity'} <= se, 'R-C11-2', 'parity_is_invalid and sync\'s block_is_enabled use the same predicates (has file / invalid parity)', pi.file, '%s / %s' % (sorted(callees), sorted(se)), function='parity_is_invalid', construct='same predicates')

    # R-C11-3
    joins = [c for c in d.calls('thread_join')]
    removes = {}
    for name in ('scan_file_remove', 'scan_link_remove', 'scan_emptydir_remove'):
        if not P.has(name):
            raise AnalysisBroken('anchor function %s not found in program' % name)
        cs = list(d.calls(name))
        removes[name] = cs
        ok = len(cs) >= 1
        if ok:
            gs = guards_of(d, cs[0])
            ok = any(('_flag_has(' in a and not p) for a, p in gs) and (not joins or all(cs[0].id in d.reach([j]) for j in joins))
        rep.check(ok, 'R-C11-3', 'state_diffscan: %s for every entity without the PRESENT mark, after the scan threads are joined' % name, cs[0].loc() if cs else d.file, '', function='state_diffscan', construct=name)
    ins = list(d.calls({'scan_file_delayed_allocate', 'scan_file_allocate', 'scan_file_insert'}))
    alloc = [c for c in d.calls('scan_file_allocate')]
    okord = bool(alloc)
    for a in alloc:
        for r in removes['scan_file_remove']:
            # within one iteration of the per-disk loop that contains both: the insert follows the removal and not vice versa
            common = [h for h, body in d.loops.items() if a.block in body and r.block in body]
            stop = {d.blocks[max(common, key=lambda h: len(d.loops[h]))][0].id} if common else set()
            okord = okord and a.id in d.reach([r], stop=stop) and r.id not in d.reach([a], stop=stop)
    rep.check(okord, 'R-C11-3', 'state_diffscan: file removals precede the delayed inserts', d.file, '%d delayed-insert sites' % len(alloc), function='state_diffscan', construct='remove before insert')
    nw = [i for i in d.all_insts() if i.op == 'store' and d.expr(i.ops[1]).endswith('state->need_write') and d.const_of(i.ops[0]) == 1]
    ok = bool(nw) and any('scan->need_write' in a and p for s_ in nw for a, p in guards_of(d, s_))
    rep.check(ok, 'R-C11-3', 'state_diffscan: scan->need_write propagates to state->need_write', d.file, '', function='state_diffscan', construct='need_write')

    # convergence: a kept record that was reported as different (move / restore) is brought in line with the disk in the same
    # scan, so that the next scan finds it equal
    rep.rule('R-C11-4', 'scan_file: a record reported as moved gets the new path, a record reported as restored gets the new inode (and its hash-set key), before it is kept', 2)
    sf_ = P.fn('scan_file')
    rep.analysed(sf_)
    keeps = list(sf_.calls('scan_file_keep'))
    if not keeps:
        raise AnalysisBroken('scan_file: scan_file_keep not found')
    def incs_of(member):
        res = []
        for i in sf_.all_insts():
            if i.op == 'store' and sf_.expr(i.ops[1]).endswith('->' + member):
                v = sf_.inst_of(i.ops[0])
                if v is not None and v.op == 'add' and sf_.const_of(v.ops[1]) == 1:
                    res.append(i)
        return res
    table = (
        ('count_move', 'the new path', [c for c in sf_.calls('file_rename') if sf_.expr(c.ops[1]) == 'sub'], 'pathset'),
        ('count_restore', 'the new inode', [i for i in sf_.all_insts() if i.op == 'store' and sf_.expr(i.ops[1]).lstrip('&') == 'file->inode' and 'st_ino' in sf_.expr(i.ops[0])], 'inodeset'),
    )
    for member, what, updaters, keyset in table:
        inc = incs_of(member)
        if not inc:
            raise AnalysisBroken('scan_file: %s is never incremented' % member)
        for ic in inc:
            ups = [u for u in updaters if u.id in sf_.reach([ic])]
            esc = sf_.reach([ic], stop={u.id for u in ups})
            ok = bool(ups) and not any(k.id in esc for k in keeps) and not any(r_.id in esc for r_ in sf_.returns())
            # the hash set keyed by the changed attribute is re-keyed around the update
            rem = [c for c in sf_.calls('tommy_hashdyn_remove_existing') if keyset in sf_.expr(c.ops[0]) and c.id in sf_.reach([ic]) and any(u.id in sf_.reach([c]) for u in ups)]
            ins = [c for c in sf_.calls('tommy_hashdyn_insert') if keyset in sf_.expr(c.ops[0]) and any(c.id in sf_.reach([u]) for u in ups)]
            rep.check(ok and bool(rem) and bool(ins), 'R-C11-4', '%s: the record gets %s before it is kept' % (member, what), ic.loc(),
                      'updated and re-keyed in %s' % keyset if ok and rem and ins else 'the record keeps its old value (updated: %s, removed from %s: %s, re-inserted: %s): the same difference is reported by every later scan' % (ok, keyset, bool(rem), bool(ins)),
                      function='scan_file', construct='%s converges' % member)

    need_write_rule(P, rep, 'R-C11-3w')
    block_count_fits_rule(P, rep, 'R-C11-9')
    from .C19 import inode_trust_rule
    inode_trust_rule(P, rep, 'R-C11-5')
    invalid_walk_rule(P, rep, 'R-C11-7')
    hash_provenance_share(P, rep, 'R-C11-8')
    from .C18 import nofollow_probe_rule
    nofollow_probe_rule(P, rep, 'R-C11-6', ('dstat',), 'the scan of a data disk')


def need_write_rule(P, rep, rid):
    # every primitive that changes the recorded set of entities marks the scan as modified, whatever the entity looks like
    rep.rule(rid, 'scan primitives that insert or remove a recorded entity (file, link, empty directory) set need_write on every path to their return', 6)
    for fn in ('scan_file_allocate', 'scan_file_deallocate', 'scan_link_insert', 'scan_link_remove', 'scan_emptydir_insert', 'scan_emptydir_remove'):
        g_ = P.fn(fn)
        rep.analysed(g_)
        nws = [i for i in g_.all_insts() if i.op == 'store' and g_.expr(i.ops[1]).endswith('->need_write') and g_.const_of(i.ops[0]) == 1]
        esc = g_.reach([g_.entry()], stop={x.id for x in nws}, include_start=True)
        missed = [r_ for r_ in g_.returns() if r_.id in esc]
        rep.check(bool(nws) and not missed, rid, '%s always sets need_write' % fn, g_.file, '%d stores' % len(nws) if nws and not missed else 'a path reaches the return without scan->need_write = 1 (e.g. an entity without blocks): sync then ends with "Nothing to do" and never saves it',
                  function=fn, construct='need_write on every path')


def invalid_walk_rule(P, rep, rid, fname='parity_is_invalid', what='diff reports the array as fully synced'):
    """diff reports "an interrupted sync is pending" by walking every stripe; the walk must cover the whole allocated parity
    (parity_allocated_size), not only the part that already has valid parity (parity_used_size): stripes being synced for the first
    time lie exactly behind the used size"""
    rep.rule(rid, '%s walks 0 .. parity_allocated_size(): its loop bound does not derive from parity_used_size()' % fname, 1)
    f = P.fn(fname)
    rep.analysed(f)
    src = set()
    for h in f.loops:
        for b in [h] + [x for x in f.loops[h] if f.term(x).op == 'br' and len(f.term(x).ops) == 3 and any(s not in f.loops[h] and s != h for s in f.term(x).succ)]:
            t = f.term(b)
            if t.op == 'br' and len(t.ops) == 3:
                src |= {x for x in f.value_sources(t.ops[0]) if x[0] == 'call'}
    sizes = {x[1] for x in src if x[1].startswith('parity_') and x[1].endswith('_size')}
    if not sizes:
        raise AnalysisBroken('%s: stripe loop bound not recognised (sources %s)' % (fname, sorted(src)))
    rep.check(sizes == {'parity_allocated_size'}, rid, '%s: bound of the stripe walk' % fname, f.file,
              'bound from %s' % sorted(sizes) if sizes == {'parity_allocated_size'} else 'the walk is bounded by %s: stripes behind the used parity (files added by an interrupted first sync) are never looked at and %s' % (sorted(sizes), what),
              function=fname, construct='loop bound')


def hash_provenance_share(P, rep, rid):
    """C11 clause "a successful sync captures every change": sync skips the parity update of a block whose data matches its past
    hash, so a hash that never described the parity (REP kept on deallocation) makes a successful sync leave stale parity"""
    from .C05 import hash_provenance_rules
    from .C06 import blk_value
    hash_provenance_rules(P, rep, rid, blk_value(P))
