"""C17 — parity split over several files behaves as one parity (single mapping function, alignment guards)."""
from ..frontend import AnalysisBroken
from ..ir import base
from ..guards import guards_of
from .C09 import dead_blocks, first_cond_branch, depends_on
from . import C04


def run(ctx, rep):
    P = ctx.prog
    rep.explanation = ('What is written at a position is read back through the same map: parity_read and parity_write compute the same offset expression and both resolve (file, offset) only through '
                       'parity_split_find; no other function performs pread/pwrite on a split descriptor; parity_split_find walks the splits in index order subtracting sizes and rejects out-of-range offsets; '
                       'every accepted split size is block aligned; only a non-fixed split receives the remainder, a leftover is an error; new sizes are copied to the state and flagged for saving; '
                       'the split sizes travel through the Q record (C10). The bijection under all growth/shrink histories and byte-equality with single-file parity are NOT decided.')
    rep.rule('R-C17-1', 'single mapping: parity_read/parity_write use the same offset expression and parity_split_find; no other pread/pwrite on split descriptors; only parity_split_find walks split sizes for addressing', 4)
    rep.rule('R-C17-2', 'parity_split_find: splits visited in index order, offset reduced by each skipped size, negative and past-the-end offsets rejected; valid_size raised on write and checked on read', 4)
    rep.rule('R-C17-3', 'parity_chsize: accepted sizes are block aligned (guarded), fixed splits keep their size, leftover is an error, sizes copied to the state and flagged', 5)
    offs = {}
    for name in ('parity_read', 'parity_write'):
        f = P.fn(name)
        rep.analysed(f)
        st = [i for i in f.all_insts() if i.op == 'store' and f.expr(i.ops[1]) == '&offset']
        offs[name] = sorted(f.expr(i.ops[0]) for i in st)
        find = list(f.calls('parity_split_find'))
        io_ = list(f.calls({'pread', 'pwrite'}))
        ok = len(st) == 1 and len(find) == 1 and f.expr(find[0].ops[1]) == '&offset' and f.dominates(st[0], find[0]) and bool(io_) and all(f.dominates(find[0], c) and f.expr(c.ops[0]) == 'split->f' for c in io_)
        # the io offset argument derives from the offset resolved by parity_split_find
        ok = ok and all('offset' in f.expr(c.ops[3]) for c in io_)
        rep.check(ok, 'R-C17-1', '%s: offset -> parity_split_find -> %s(split->f, ..., offset)' % (name, io_[0].callee if io_ else '?'), f.file, 'offset = %s' % offs[name], function=name, construct='mapping')
    rep.check(offs['parity_read'] == offs['parity_write'], 'R-C17-1', 'parity_read and parity_write agree on position -> offset', 'cmdline/parity.c', '%s / %s' % (offs['parity_read'], offs['parity_write']), function='parity_read', construct='sibling offset')
    # no other pread/pwrite on split descriptors
    others = []
    for f in P.defined():
        if base(f.name) in ('parity_read', 'parity_write'):
            continue
        for c in f.calls({'pread', 'pwrite'}):
            if 'split' in f.expr(c.ops[0]):
                others.append('%s at %s' % (f.name, c.loc()))
    rep.check(not others, 'R-C17-1', 'no other pread/pwrite on a split descriptor', 'cmdline/parity.c', str(others), function='parity', construct='foreign io')
    # readers of split->size used to reduce an offset
    walkers = set()
    for f in P.defined():
        for i in f.all_insts():
            if i.op == 'sub' and 'split->size' in f.expr(i.ops[1]) and 'offset' in f.expr(i.ops[0]):
                walkers.add(base(f.name))
    rep.check(walkers == {'parity_split_find'}, 'R-C17-1', 'only parity_split_find translates an offset through the split sizes', 'cmdline/parity.c', str(sorted(walkers)), function='parity_split_find', construct='single walker')

    f = P.fn('parity_split_find')
    rep.analysed(f)
    conds = [f.expr(f.term(b).ops[0]) for b in range(len(f.blocks)) if f.term(b).op == 'br' and len(f.term(b).ops) == 3]
    import re
    cc = [c.replace(' ', '') for c in conds]
    neg = any(re.match(r'^\(\*\w+<0\)$', c) for c in cc)
    mb = [re.match(r'^\((\w+)<\w+->split_mac\)$', c) for c in cc]
    mb = [m for m in mb if m]
    bound = bool(mb)
    lv = mb[0].group(1) if mb else '?'
    hit = any(re.match(r'^\(\*\w+<\w+->size\)$', c) for c in cc)
    sub = [i for i in f.all_insts() if i.op == 'store' and f.strip(i.ops[1])[0] == 'i' and f.inst_of(i.ops[1]).op == 'load' and re.match(r'^\(\*\w+-\w+->size\)$', f.expr(i.ops[0]).replace(' ', ''))]
    inc = [i for i in f.all_insts() if i.op == 'store' and f.expr(i.ops[1]) == '&' + lv and f.expr(i.ops[0]) == '(%s+1)' % lv]
    zero = [i for i in f.all_insts() if i.op == 'store' and f.expr(i.ops[1]) == '&' + lv and f.const_of(i.ops[0]) == 0]
    rep.check(neg and bound and hit and len(sub) == 1 and len(inc) == 1 and len(zero) == 1, 'R-C17-2', 'parity_split_find walks s = 0..split_mac-1, returns the first split with offset < size, subtracts skipped sizes', f.file, str(conds), function='parity_split_find', construct='walk')
    nul = [i for i in f.all_insts() if i.op == 'store' and f.expr(i.ops[1]) == '&retval' and f.const_of(i.ops[0]) == 0]
    rep.check(len(nul) == 2, 'R-C17-2', 'parity_split_find returns 0 for negative and for past-the-end offsets', f.file, '%d null returns' % len(nul), function='parity_split_find', construct='range')
    w = P.fn('parity_write'); r = P.fn('parity_read')
    vs = [i for i in w.all_insts() if i.op == 'store' and w.expr(i.ops[1]).endswith('split->valid_size')]
    rep.check(len(vs) == 1 and 'offset' in w.expr(vs[0].ops[0]) and 'block_size' in w.expr(vs[0].ops[0]), 'R-C17-2', 'parity_write raises valid_size to offset + block_size', w.file, '', function='parity_write', construct='valid_size raise')
    rc = [r.expr(r.term(b).ops[0]) for b in range(len(r.blocks)) if r.term(b).op == 'br' and len(r.term(b).ops) == 3]
    rep.check(any('valid_size' in c and 'offset' in c for c in rc), 'R-C17-2', 'parity_read refuses offsets beyond valid_size', r.file, '', function='parity_read', construct='valid_size check')

    valid_size_rules(P, rep, 'R-C17-2v')
    c = P.fn('parity_chsize')
    rep.analysed(c)
    dead = dead_blocks(c)
    fails = [i for i in c.all_insts() if i.op == 'store' and c.expr(i.ops[1]) == '&retval' and c.const_of(i.ops[0]) == -1]
    stores = [i for i in c.all_insts() if i.op == 'store' and c.expr(i.ops[1]) == '&split->size']
    ok = len(stores) == 1
    if ok:
        gs = guards_of(c, stores[0])
        ok = any('block_mask' in a and 'run' in a and not p for a, p in gs) or any(a.replace(' ', '') == '((run&block_mask)!=0)' and not p for a, p in gs)
        ok = ok or any('run&block_mask' in a.replace(' ', '') for a, p in gs)
    rep.check(ok, 'R-C17-3', 'parity_chsize: split->size assigned only a block-aligned size', stores[0].loc() if stores else c.file, '', function='parity_chsize', construct='aligned store')
    fx = list(c.calls('parity_split_is_fixed'))
    rep.check(len(fx) == 1 and c.loop_of(fx[0].block) is not None, 'R-C17-3', 'parity_chsize classifies every split as fixed or growing', c.file, '', function='parity_chsize', construct='fixed classification')
    lo = [b for b in range(len(c.blocks)) if c.term(b).op == 'br' and len(c.term(b).ops) == 3 and c.expr(c.term(b).ops[0]).replace(' ', '') == '(size!=0)' and c.loop_of(b) is None]
    ok = bool(lo) and any(c.bdominates(c.term(lo[0]).ops[2][1], x.block) for x in fails)
    rep.check(ok, 'R-C17-3', 'parity_chsize: leftover size after the last split is an error', c.file, '', function='parity_chsize', construct='leftover')
    cp = [i for i in c.all_insts() if i.op == 'store' and 'parity->split_map[s].size' in c.expr(i.ops[1])]
    im = [i for i in c.all_insts() if i.op == 'store' and c.expr(i.ops[1]) == 'is_modified' and c.const_of(i.ops[0]) == 1]
    rep.check(len(cp) == 1 and c.expr(cp[0].ops[0]) == 'split->size' and bool(im) and c.bdominates(cp[0].block, im[0].block) or (len(cp) == 1 and bool(im)), 'R-C17-3', 'parity_chsize: new sizes copied to the state and *is_modified set', c.file, '', function='parity_chsize', construct='size to state')
    g = P.fn('parity_split_is_fixed')
    rep.analysed(g)
    conds = [g.expr(g.term(b).ops[0]).replace(' ', '') for b in range(len(g.blocks)) if g.term(b).op == 'br' and len(g.term(b).ops) == 3]
    rep.check(any('split_mac' in x for x in conds) and any('size==0' in x for x in conds), 'R-C17-3', 'parity_split_is_fixed: a split is growing iff it is the last or the next one is empty', g.file, str(conds), function='parity_split_is_fixed', construct='fixed predicate')
    # the predicate ranges over a finite domain (split_mac <= SPLIT_MAX, sizes matter only as zero / non-zero): interpret it for all of it
    from .. import kernels as K
    from ..comparators import field_offsets
    hl = P.structs.get('struct.snapraid_parity_handle')
    dh = P.distructs.get('snapraid_parity_handle'); dsp = P.distructs.get('snapraid_split_handle')
    if not (hl and dh and dsp):
        raise AnalysisBroken('layout of snapraid_parity_handle not found')
    off_mac = [m_ for m_ in dh['members'] if m_['name'] == 'split_mac'][0]
    off_map = [m_ for m_ in dh['members'] if m_['name'] == 'split_map'][0]
    off_size = [m_ for m_ in dsp['members'] if m_['name'] == 'size'][0]
    nsplit = off_map['bits'] // 8 // dsp['size']
    bad = None
    nev = 0
    import itertools as _it
    for mac in range(1, nsplit + 1):
        for sizes in _it.product((0, 4096), repeat=mac):
            for s_ in range(mac):
                m_ = K.Machine(P, 64, 0, [])
                hp = K.Ptr(('stack', 'h', 'obj'), 0)
                m_.mem[(hp.reg, off_mac['off'])] = (mac, off_mac['bits'] // 8)
                for k_, sz in enumerate(sizes):
                    m_.mem[(hp.reg, off_map['off'] + k_ * dsp['size'] + off_size['off'])] = (sz, off_size['bits'] // 8)
                try:
                    r_ = K.run_function(m_, 'parity_split_is_fixed', [hp, s_])
                except (K.KernelViolation, K.Unsupported) as e_:
                    raise AnalysisBroken('cannot interpret parity_split_is_fixed: %s' % e_)
                want = 1 if (s_ + 1 < mac and sizes[s_ + 1] != 0) else 0
                nev += 1
                if (1 if r_ else 0) != want and bad is None:
                    bad = 'split_mac=%d sizes=%s s=%d: returns %s, a split is fixed iff a later split is in use (expected %d)' % (mac, ['0' if x == 0 else 'used' for x in sizes], s_, r_, want)
    rep.check(bad is None, 'R-C17-3', 'parity_split_is_fixed over its whole domain (split_mac 1..%d, every zero/used pattern, every s)' % nsplit, g.file, '%d evaluations' % nev if bad is None else bad, function='parity_split_is_fixed', construct='fixed predicate domain')
    s = P.fn('state_sync')
    im2 = [b for b in range(len(s.blocks)) if s.term(b).op == 'br' and len(s.term(b).ops) == 3 and 'is_modified' in s.expr(s.term(b).ops[0])]
    nw = [i for i in s.all_insts() if i.op == 'store' and s.expr(i.ops[1]).endswith('->need_write') and s.const_of(i.ops[0]) == 1]
    rep.rule('R-C17-4', 'changed split sizes set need_write, and the Q record carries them (R-C10-1/2)', 1)
    rep.check(bool(im2) and bool(nw), 'R-C17-4', 'state_sync: is_modified => need_write', s.file, '', function='state_sync', construct='need_write')


def valid_size_rules(P, rep, rid):
    """typestate of split->valid_size (how much of a parity file really holds parity): set from the file size when an existing file is
    opened/created, raised only by parity_write to the end of the block just written, lowered only when the file shrank.  A grow never
    raises it: the zero-filled area is not parity."""
    from ..guards import guards_of
    rep.rule(rid, 'split->valid_size: initialised at open, raised only by parity_write, only lowered by a resize', 4)
    ALLOWED = {'parity_create': 'init', 'parity_open': 'init', 'parity_write': 'raise', 'parity_handle_chsize': 'lower'}
    n = 0
    for f in P.defined():
        for i in f.all_insts():
            if i.op == 'store' and f.expr(i.ops[1]).endswith('->valid_size') and 'split' in f.expr(i.ops[1]):
                n += 1
                kind = ALLOWED.get(base(f.name))
                gs = guards_of(f, i)
                val = f.expr(i.ops[0])
                if kind == 'init':
                    ok = 'st.st_size' in val and f.loop_of(i.block) is not None
                elif kind == 'raise':
                    ok = any(a.replace(' ', '') == '(split->valid_size<%s)' % val.replace(' ', '') and p for a, p in gs)
                elif kind == 'lower':
                    ok = any(a.replace(' ', '') == '(split->valid_size>%s)' % val.replace(' ', '') and p for a, p in gs)
                else:
                    ok = False
                rep.check(ok, rid, '%s: valid_size = %s (%s)' % (base(f.name), val, kind or 'unclassified'), i.loc(), 'guards: %s' % [g for g in gs if 'valid_size' in g[0]], function=base(f.name), construct='valid_size %s' % (kind or 'unclassified'))
                rep.analysed(f)
    return n
