"""C17 — parity split over several files behaves as one parity (single mapping function, alignment guards)."""
from ..frontend import AnalysisBroken
from ..ir import base
from ..guards import guards_of
from ..grammar import qual_member
from .C09 import dead_blocks, first_cond_branch, depends_on
from . import C04


def _canon_product(e):
    """`(a*b)` and `(b*a)` are the same offset expression: the factors of a top-level product are sorted"""
    t = e.strip()
    while t.startswith('(') and t.endswith(')') and t.count('(') == t.count(')') and '(' not in t[1:-1].split(')')[0][:0]:
        inner = t[1:-1]
        if inner.count('(') != inner.count(')'):
            break
        t = inner
        break
    if '*' in t and '(' not in t:
        return '(' + '*'.join(sorted(x.strip() for x in t.split('*'))) + ')'
    return e


def run(ctx, rep):
    P = ctx.prog
    rep.explanation = ('What is written at a position is read back through the same map: parity_read and parity_write compute the same offset expression and both resolve (file, offset) only through '
                       'parity_split_find; no other function performs pread/pwrite on a split descriptor; parity_split_find walks the splits in index order subtracting sizes and rejects out-of-range offsets; '
                       'every accepted split size is block aligned; only a non-fixed split receives the remainder, a leftover is an error; new sizes are copied to the state and flagged for saving; '
                       'the split sizes travel through the Q record (C10). The bijection under all growth/shrink histories and byte-equality with single-file parity are NOT decided.')
    rep.rule('R-C17-1', 'single mapping: parity_read/parity_write use the same offset expression and parity_split_find; no other pread/pwrite on split descriptors; only parity_split_find walks split sizes for addressing', 4)
    rep.rule('R-C17-2', 'parity_split_find interpreted over an exhaustive small domain (offset -> split, inner offset; null outside); valid_size raised on write and checked on read', 3)
    rep.rule('R-C17-3', 'parity_split_is_fixed over its whole domain: a split is fixed iff a later split is in use', 1)
    offs = {}
    for name in ('parity_read', 'parity_write'):
        f = P.fn(name)
        rep.analysed(f)
        st = [i for i in f.all_insts() if i.op == 'store' and f.expr(i.ops[1]) == '&offset']
        offs[name] = sorted(_canon_product(f.expr(i.ops[0])) for i in st)
        find = list(f.calls('parity_split_find'))
        io_ = list(f.calls({'pread', 'pwrite'}))
        ok = len(st) == 1 and len(find) == 1 and f.expr(find[0].ops[1]) == '&offset' and f.dominates(st[0], find[0]) and bool(io_) and all(f.dominates(find[0], c) and f.xexpr(c.ops[0]) == 'split->f' for c in io_)
        # the io offset argument derives from the offset resolved by parity_split_find
        ok = ok and all('offset' in f.expr(c.ops[3]) for c in io_)
        rep.check(ok, 'R-C17-1', '%s: offset -> parity_split_find -> %s(split->f, ..., offset)' % (name, io_[0].callee if io_ else '?'), f.file, 'offset = %s' % offs[name], function=name, construct='mapping')
    rep.check(offs['parity_read'] == offs['parity_write'], 'R-C17-1', 'parity_read and parity_write agree on position -> offset', 'cmdline/parity.c', '%s / %s' % (offs['parity_read'], offs['parity_write']), function='parity_read', construct='sibling offset')
    # no other pread/pwrite on split descriptors
    others = []
    for f in P.defined():
        if base(f.name) in ('parity_read', 'parity_write'):
            continue
        for c in f.calls({'pread', 'pwrite'}):
            if 'split' in f.expr(c.ops[0]):
                others.append('%s at %s' % (f.name, c.loc()))
    rep.check(not others, 'R-C17-1', 'no other pread/pwrite on a split descriptor', 'cmdline/parity.c', str(others), function='parity', construct='foreign io')
    # readers of split->size used to reduce an offset
    walkers = set()
    for f in P.defined():
        for i in f.all_insts():
            if i.op == 'sub' and qual_member(f, i.ops[1]) == 'snapraid_split_handle.size' and f.inst_of(i.ops[0]) is not None and f.inst_of(i.ops[0]).op == 'load':
                # an offset-like value reduced by the size of a split (the subtraction feeds a store through a pointer or an offset local)
                walkers.add(base(f.name))
    rep.check(walkers == {'parity_split_find'}, 'R-C17-1', 'only parity_split_find translates an offset through the split sizes', 'cmdline/parity.c', str(sorted(walkers)), function='parity_split_find', construct='single walker')

    f = P.fn('parity_split_find')
    rep.analysed(f)
    # the mapping offset -> (split, offset inside the split) is integer-only code over the split sizes: interpret it over an
    # exhaustive small domain (no expression-shape rule: any rewrite that keeps the mapping passes)
    from .. import region as RG
    dh_ = P.distructs.get('snapraid_parity_handle'); dsp_ = P.distructs.get('snapraid_split_handle')
    if not (dh_ and dsp_):
        raise AnalysisBroken('layout of snapraid_parity_handle not found')
    o_mac = [m_ for m_ in dh_['members'] if m_['name'] == 'split_mac'][0]['off']
    o_map = [m_ for m_ in dh_['members'] if m_['name'] == 'split_map'][0]['off']
    o_size = [m_ for m_ in dsp_['members'] if m_['name'] == 'size'][0]['off']
    import itertools as _it2
    badm = None; nm = 0
    for mac in range(1, 5):
        for sizes in _it2.product((0, 4, 8), repeat=mac):
            total = sum(sizes)
            for off_in in range(-2, total + 3):
                R = RG.Region(P)
                hp = RG.P_(('obj', 'handle'), 0)
                R.mem[(hp.reg, o_mac)] = mac
                for k_, sz in enumerate(sizes):
                    R.mem[(hp.reg, o_map + k_ * dsp_['size'] + o_size)] = sz
                op_ = R.array('offset', [off_in & ((1 << 64) - 1)], 8)
                try:
                    r_ = R.run(f, 0, [hp, op_])
                except RG.OutOfBounds as e_:
                    badm = badm or str(e_)
                    continue
                nm += 1
                # expected
                want = None; rem = off_in
                if off_in >= 0:
                    for k_, sz in enumerate(sizes):
                        if rem < sz:
                            want = k_
                            break
                        rem -= sz
                got = None
                if isinstance(r_, RG.P_):
                    got = (r_.off - o_map) // dsp_['size']
                outv = RG.signed(R.mem[(op_.reg, 0)], 64)
                if want is None:
                    okm = not isinstance(r_, RG.P_) and r_ == 0
                else:
                    okm = got == want and outv == rem
                if not okm and badm is None:
                    badm = 'split sizes %s, offset %d: resolved to split %s offset %s, expected %s' % (list(sizes), off_in, got, outv, 'no split (null)' if want is None else 'split %d offset %d' % (want, rem))
    rep.check(badm is None, 'R-C17-2', 'parity_split_find maps every offset to the split that contains it and to the offset inside that split; negative and past-the-end offsets give null (split_mac 1..4, sizes 0/4/8, every offset)', f.file, '%d evaluations' % nm if badm is None else badm, function='parity_split_find', construct='mapping domain')
    w = P.fn('parity_write'); r = P.fn('parity_read')
    vs = [i for i in w.all_insts() if i.op == 'store' and w.expr(i.ops[1]).endswith('split->valid_size')]
    rep.check(len(vs) == 1 and 'offset' in w.expr(vs[0].ops[0]) and 'block_size' in w.expr(vs[0].ops[0]), 'R-C17-2', 'parity_write raises valid_size to offset + block_size', w.file, '', function='parity_write', construct='valid_size raise')
    rc = [r.expr(r.term(b).ops[0]) for b in range(len(r.blocks)) if r.term(b).op == 'br' and len(r.term(b).ops) == 3]
    rep.check(any('valid_size' in c and 'offset' in c for c in rc), 'R-C17-2', 'parity_read refuses offsets beyond valid_size', r.file, '', function='parity_read', construct='valid_size check')

    valid_size_rules(P, rep, 'R-C17-2v')
    parity_read_valid_rule(P, rep, 'R-C17-2r')
    create_accepts_damaged_size_rule(P, rep, 'R-C17-2c')
    chsize_domain_rule(P, rep, 'R-C17-3d', ctx.tier)
    truncate_as_one_parity_rule(P, rep, 'R-C17-10')
    # a split shorter than recorded ends the usable parity: what lies in the following splits is at wrong positions
    from .C14 import parity_size_prefix_rule
    parity_size_prefix_rule(P, rep, 'R-C17-11')
    fix_keeps_layout_rule(P, rep, 'R-C17-9')
    grow_rule(P, rep, 'R-C17-5')
    offset_width_rule(P, rep, 'R-C17-1w')
    # parity_chsize itself is decided semantically by R-C17-3d (domain interpretation); no expression-shape rules on it
    g = P.fn('parity_split_is_fixed')
    rep.analysed(g)
    # the predicate ranges over a finite domain (split_mac <= SPLIT_MAX, sizes matter only as zero / non-zero): interpret it for all of it
    from .. import kernels as K
    from ..comparators import field_offsets
    hl = P.structs.get('struct.snapraid_parity_handle')
    dh = P.distructs.get('snapraid_parity_handle'); dsp = P.distructs.get('snapraid_split_handle')
    if not (hl and dh and dsp):
        raise AnalysisBroken('layout of snapraid_parity_handle not found')
    off_mac = [m_ for m_ in dh['members'] if m_['name'] == 'split_mac'][0]
    off_map = [m_ for m_ in dh['members'] if m_['name'] == 'split_map'][0]
    off_size = [m_ for m_ in dsp['members'] if m_['name'] == 'size'][0]
    nsplit = off_map['bits'] // 8 // dsp['size']
    dst_ = P.distructs.get('stat')
    off_st = None
    try:
        off_st = [m_ for m_ in dsp['members'] if m_['name'] == 'st'][0]['off'] + [m_ for m_ in dst_['members'] if m_['name'] == 'st_size'][0]['off']
    except Exception:
        pass
    off_valid = ([m_['off'] for m_ in dsp['members'] if m_['name'] == 'valid_size'] or [None])[0]
    bad = None
    nev = 0
    import itertools as _it
    for mac in range(1, nsplit + 1):
        for sizes in _it.product((0, 4096), repeat=mac):
            for s_ in range(mac):
                m_ = K.Machine(P, 64, 0, [])
                hp = K.Ptr(('stack', 'h', 'obj'), 0)
                m_.mem[(hp.reg, off_mac['off'])] = (mac, off_mac['bits'] // 8)
                for k_, sz in enumerate(sizes):
                    m_.mem[(hp.reg, off_map['off'] + k_ * dsp['size'] + off_size['off'])] = (sz, off_size['bits'] // 8)
                    # the answer depends on the RECORDED sizes only: every other integer of the split handle (the size found on
                    # disk, the valid size, the descriptor) is given the opposite emptiness, so that a predicate reading one of
                    # them instead answers wrongly somewhere in the domain
                    if off_st is not None:
                        m_.mem[(hp.reg, off_map['off'] + k_ * dsp['size'] + off_st)] = (0 if sz else 4096, 8)
                    if off_valid is not None:
                        m_.mem[(hp.reg, off_map['off'] + k_ * dsp['size'] + off_valid)] = (0 if sz else 4096, 8)
                try:
                    r_ = K.run_function(m_, 'parity_split_is_fixed', [hp, s_])
                except (K.KernelViolation, K.Unsupported) as e_:
                    raise AnalysisBroken('cannot interpret parity_split_is_fixed: %s' % e_)
                # a split is fixed when ANY later split is in use: a later split can be empty (it had no room when the following ones
                # were allocated) without making its predecessor the growing one (F31: the code looked at the next split only)
                want = 1 if any(sizes[k_] != 0 for k_ in range(s_ + 1, mac)) else 0
                nev += 1
                if (1 if r_ else 0) != want and bad is None:
                    bad = 'split_mac=%d sizes=%s s=%d: returns %s, a split is fixed iff a later split is in use (expected %d)' % (mac, ['0' if x == 0 else 'used' for x in sizes], s_, r_, want)
    rep.check(bad is None, 'R-C17-3', 'parity_split_is_fixed over its whole domain (split_mac 1..%d, every zero/used pattern, every s)' % nsplit, g.file, '%d evaluations' % nev if bad is None else bad, function='parity_split_is_fixed', construct='fixed predicate domain')
    s = P.fn('state_sync')
    im2 = [b for b in range(len(s.blocks)) if s.term(b).op == 'br' and len(s.term(b).ops) == 3 and 'is_modified' in s.expr(s.term(b).ops[0])]
    nw = [i for i in s.all_insts() if i.op == 'store' and s.expr(i.ops[1]).endswith('->need_write') and s.const_of(i.ops[0]) == 1]
    rep.rule('R-C17-4', 'changed split sizes set need_write, and the Q record carries them (R-C10-1/2)', 1)
    chsize_full_size_rule(P, rep, 'R-C17-3f')
    split_index_guard_rule(P, rep, 'R-C17-7')
    from .carried import level_loop_index_rule
    level_loop_index_rule(P, rep, 'R-C17-8')
    from .C08 import sticky_failure_rule
    sticky_failure_rule(P, rep, 'R-C17-6')
    rep.check(bool(im2) and bool(nw), 'R-C17-4', 'state_sync: is_modified => need_write', s.file, '', function='state_sync', construct='need_write')


def valid_size_rules(P, rep, rid):
    """typestate of split->valid_size (how much of a parity file really holds parity): set from the file size when an existing file is
    opened/created, raised only by parity_write to the end of the block just written, lowered only when the file shrank.  A grow never
    raises it: the zero-filled area is not parity."""
    from ..guards import guards_of
    rep.rule(rid, 'split->valid_size: initialised at open, raised only by parity_write, only lowered by a resize', 4)
    n = 0
    for f in P.defined():
        for i in f.all_insts():
            if i.op == 'store' and f.expr(i.ops[1]).endswith('->valid_size') and 'split' in f.expr(i.ops[1]):
                n += 1
                gs = guards_of(f, i)
                val = f.expr(i.ops[0])
                # raise / lower is read off the dominating comparison between split->valid_size and the stored value, whatever its
                # spelling (operand order, casts, >= vs <): the two sides are identified by evaluating them under random leaf values
                raised = lowered = False
                for b_ in range(len(f.blocks)):
                    t_ = f.term(b_)
                    if t_.op != 'br' or len(t_.ops) != 3:
                        continue
                    ci = f.inst_of(t_.ops[0])
                    if ci is None or ci.op != 'icmp' or ci.pred in ('eq', 'ne'):
                        continue
                    for edge_true, sb in ((True, t_.ops[2][1]), (False, t_.ops[1][1])):
                        if not f.edge_dominates(t_, sb, i):
                            continue
                        sides = [f.expr(o).endswith('->valid_size') for o in ci.ops]
                        if sides.count(True) != 1:
                            continue
                        other = ci.ops[1] if sides[0] else ci.ops[0]
                        if not all(_numeric(f, other, k_) == _numeric(f, i.ops[0], k_) for k_ in (1, 2, 3)):
                            continue
                        pairs = [(a_, b2) for a_ in range(4) for b2 in range(4) if _icmp(ci.pred, *((a_, b2) if sides[0] else (b2, a_))) == edge_true]
                        raised = raised or all(a_ < b2 for a_, b2 in pairs)
                        lowered = lowered or all(a_ > b2 for a_, b2 in pairs)
                opens = any(True for _ in f.calls({'open', 'open_noatime'}))
                writes = any(True for _ in f.calls('pwrite'))
                # the kind is read off the assignment itself (not off the function's name): an unguarded assignment is an initialisation
                # and belongs to the functions that open the file; a raise belongs to the write primitive; a lowering follows a resize
                if raised:
                    kind = 'raise'; ok = writes
                elif lowered:
                    kind = 'lower'; ok = not writes and not opens
                else:
                    kind = 'init'; ok = 'st.st_size' in val and opens and f.loop_of(i.block) is not None
                rep.check(ok, rid, '%s: valid_size = %s (%s)' % (base(f.name), val, kind or 'unclassified'), i.loc(), 'guards: %s' % [g for g in gs if 'valid_size' in g[0]], function=base(f.name), construct='valid_size %s' % (kind or 'unclassified'))
                rep.analysed(f)
    return n


def handle_valid_size_rules(P, rep, rid):
    """typestate of handle->valid_size (how much of a data file holds real data while fix rebuilds it): set to 0, to the size
    found by fstat or to the recorded size at open / create / truncate / close; every other assignment is a monotone raise
    (guarded by valid_size < new value).  A lowering assignment makes later blocks of a file that is present read as missing."""
    from ..guards import guards_of
    rep.rule(rid, 'handle->valid_size: (re)initialised from 0 / st_size / file->size, otherwise only raised (guarded valid_size < value)', 6)
    n = 0
    for f in P.defined():
        if not (f.file or '').endswith('handle.c'):
            continue
        for i in f.all_insts():
            if i.op == 'store' and f.expr(i.ops[1]).endswith('valid_size') and 'split' not in f.expr(i.ops[1]):
                n += 1
                val = f.expr(i.ops[0]).replace(' ', '')
                tgt = f.expr(i.ops[1]).lstrip('&').replace(' ', '')
                if f.const_of(i.ops[0]) == 0 or val.endswith('st.st_size') or val.endswith('->size'):
                    ok = True; kind = 'init'
                else:
                    kind = 'raise'
                    ok = _guarded_raise(f, i)
                rep.check(ok, rid, '%s: %s = %s (%s)' % (base(f.name), tgt, val, kind), i.loc(), '' if ok else 'assignment that can lower the valid size of an open data file', function=base(f.name), construct='handle valid_size %s' % kind)
                rep.analysed(f)
    return n


def truncate_as_one_parity_rule(P, rep, rid):
    """at the end of fix parity_truncate() cuts away what is known not to be valid parity.  For a single parity file that is the tail
    after the last block written or read back.  Split over several files the parity must behave as that one file: only the part
    AFTER the global valid end may go -- a split that lies before it keeps its recorded size even when its own last positions belong
    to no file and were never written (otherwise the file is shorter than the layout says: the next check reports `Missing data`,
    sync refuses the parity, and fix repeats the same thing).  parity_truncate is interpreted (ftruncate recorded) for every pattern
    of sizes {0,4,8} and valid sizes {0,4,size} of up to 3 splits."""
    from .. import region as RG
    import itertools
    rep.rule(rid, 'parity_truncate over an exhaustive small domain: each split before the one where the valid parity ends keeps its size, the one where it ends is cut at its valid size, the later ones at 0 (the split parity is truncated like one file)', 250)
    f = P.fn('parity_truncate')
    rep.analysed(f)
    dh = P.distructs.get('snapraid_parity_handle'); dsp = P.distructs.get('snapraid_split_handle')
    if not dh or not dsp:
        raise AnalysisBroken('parity layouts not found')
    def off(d, name):
        return [m for m in d['members'] if m['name'] == name][0]['off']
    H_MAC, H_MAP = off(dh, 'split_mac'), off(dh, 'split_map')
    S_SIZE, S_VALID, S_F = off(dsp, 'size'), off(dsp, 'valid_size'), off(dsp, 'f')
    bad = None
    nrun = 0
    for mac in (1, 2, 3):
        for sizes in itertools.product((0, 4, 8), repeat=mac):
            for valid in itertools.product(*[sorted({0, min(4, sz), sz}) for sz in sizes]):
                cuts = {}
                def ext(ins, args):
                    if ins.callee in ('ftruncate', 'ftruncate64'):
                        cuts[args[0]] = RG.signed(args[1], 64)
                        return (0,)
                    if ins.callee in ('log_fatal', 'log_error', 'strerror', '__errno_location'):
                        return (0,)
                    return None
                R = RG.Region(P, extern=ext)
                hp = RG.P_(('obj', 'handle'), 0)
                R.mem[(hp.reg, H_MAC)] = mac
                for k in range(mac):
                    b = H_MAP + k * dsp['size']
                    R.mem[(hp.reg, b + S_SIZE)] = sizes[k]
                    R.mem[(hp.reg, b + S_VALID)] = valid[k]
                    R.mem[(hp.reg, b + S_F)] = 100 + k
                try:
                    R.run(f, 0, [hp])
                except RG.Unsupported as e:
                    raise AnalysisBroken('cannot interpret parity_truncate: %s' % e)
                nrun += 1
                used = [k for k in range(mac) if valid[k] != 0]
                last = used[-1] if used else 0
                want = {100 + k: (sizes[k] if k < last else valid[k]) for k in range(mac)}
                if cuts != want and bad is None:
                    k = [k for k in range(mac) if cuts.get(100 + k) != want[100 + k]][0]
                    bad = 'split sizes %s, valid up to %s: split %d is cut to %s bytes, as one file the parity is valid up to split %d and this split must keep %d -- its last positions belong to no file, fix never writes them, and the file ends shorter than the recorded layout (check: Missing data; sync: parity smaller than expected; a second fix changes nothing)' % (
                        list(sizes), list(valid), k, cuts.get(100 + k), last, want[100 + k])
    if bad:
        rep.fail(rid, 'parity_truncate as one parity', f.file, bad, function='parity_truncate', construct='split cut inside the valid parity')
    else:
        for _ in range(nrun):
            rep.ok(rid, 'size pattern')


def fix_keeps_layout_rule(P, rep, rid):
    """fix never saves the content file: whatever layout parity_chsize() produces there lives in that run only.  When a lost split
    cannot be restored to its recorded size, parity_chsize lets the following splits absorb the rest -- legitimate in sync, which
    records the new sizes before writing -- and fix would rebuild parity at positions no later command looks at.  Rule: in
    state_check the result of the parity_chsize call is examined: a conditional branch that depends on the is_modified output or on
    the split sizes after the call has a side from which the function cannot continue (exit)."""
    from .C09 import dead_blocks
    rep.rule(rid, 'state_check (fix): the split sizes produced by parity_chsize are compared with the recorded ones (or is_modified is tested) and a different layout stops the command before anything is written', 1)
    f = P.fn('state_check')
    rep.analysed(f)
    cs = list(f.calls('parity_chsize'))
    if len(cs) != 1:
        raise AnalysisBroken('state_check: the parity_chsize call was not found')
    c = cs[0]
    dead = dead_blocks(f)
    lp = f.loop_of(c.block)
    after = f.reach([c], stop={f.blocks[lp][0].id} if lp is not None else ())      # the rest of this parity level's iteration
    ok = False
    how = ''
    # (a) is_modified output tested
    imo = f.strip(c.ops[2]) if len(c.ops) > 2 else None
    for b in range(len(f.blocks)):
        t = f.term(b)
        if t.op != 'br' or len(t.ops) != 3 or t.id not in after:
            continue
        if not (t.ops[1][1] in dead or t.ops[2][1] in dead):
            continue
        src = f.value_sources(t.ops[0]) if hasattr(f, 'value_sources') else []
        e = f.xexpr(t.ops[0])
        if imo is not None and imo[0] == 'i' and f.insts[imo[1]].op == 'alloca' and (f.insts[imo[1]].var or '?') in e:
            ok = True; how = 'is_modified tested at line %s' % t.line
        for x in src:
            if x[0] == 'call' and x[1] != c.callee and P.has(x[1]):
                g = P.fn(x[1])
                if any('split_map' in g.expr(i.ops[0]) and g.expr(i.ops[0]).endswith('.size') for i in g.all_insts() if i.op == 'load'):
                    ok = True; how = 'layout compared by %s() at line %s' % (x[1], t.line)
            if x[0] == 'mem' and 'split_map' in x[1] and x[1].endswith('.size'):
                ok = True; how = 'split sizes compared at line %s' % t.line
    rep.check(ok, rid, 'state_check: layout after parity_chsize vs the recorded one', c.loc(),
              how if ok else 'the call passes no is_modified and nothing after it looks at the split sizes: when a lost split gets less room than recorded, the rest of the parity is written into the following splits according to a layout that is never saved -- fix reports the parity recovered, every later command looks for it at the recorded positions and does not find it',
              function='state_check', construct='layout not compared after parity_chsize')


def chsize_domain_rule(P, rep, rid, tier='quick'):
    """parity_chsize is integer-only code around one effectful callee (parity_handle_chsize, which resizes one split file and
    refreshes split->st).  It is interpreted from the IR with that callee replaced by a model of the file system (a split can be
    lost or short, and can grow only up to a capacity), over an exhaustive small domain.  Post-condition on success: the new
    sizes add up to the requested size, are the real file sizes, are recorded in the state -- and a split that had a used
    successor keeps its size whenever the request still reaches beyond it (the boundaries of used splits never move)."""
    from .. import region as RG
    import itertools
    rep.rule(rid, 'parity_chsize over an exhaustive small domain (1..3 splits, recorded sizes 0/4/8, files intact / short / lost, growth capped): success implies block-aligned sizes that sum to the request, equal the real file sizes, are copied to the state, and no boundary of a used split moves', 2000)
    f = P.fn('parity_chsize')
    rep.analysed(f)
    dh = P.distructs.get('snapraid_parity_handle'); dsp = P.distructs.get('snapraid_split_handle'); dp = P.distructs.get('snapraid_parity'); ds = P.distructs.get('snapraid_split'); dst = P.distructs.get('stat')
    if not all((dh, dsp, dp, ds, dst)):
        raise AnalysisBroken('parity layouts not found')
    def off(d, name):
        return [m for m in d['members'] if m['name'] == name][0]['off']
    H_MAC, H_MAP = off(dh, 'split_mac'), off(dh, 'split_map')
    S_SIZE, S_ST, S_VALID = off(dsp, 'size'), off(dsp, 'st') + off(dst, 'st_size'), off(dsp, 'valid_size')
    P_MAP, P_MAC, PS_SIZE = off(dp, 'split_map'), off(dp, 'split_mac'), off(ds, 'size')
    BS = 4
    M64 = (1 << 64) - 1
    # the effectful callee that resizes one split file: the defined function called from parity_chsize whose first parameter is a split handle
    resize = {c.callee for c in f.calls() if c.callee_full in P.functions and not P.functions[c.callee_full].decl and P.functions[c.callee_full].args and 'snapraid_split_handle' in (P.functions[c.callee_full].args[0].get('ty') or '')}
    if len(resize) != 1:
        raise AnalysisBroken('parity_chsize: the per-split resize callee was not identified (%s)' % sorted(resize))
    resize_name = list(resize)[0]
    bad = None
    nrun = 0

    class Abort(Exception):
        pass

    full = 3 if tier == 'quick' else 4          # number of splits up to which lost/short files and capacities are enumerated in full
    for mac in ((1, 2, 3) if tier == 'quick' else (1, 2, 3, 4)):
        # recorded layouts: every pattern, also a zero-sized split in the middle (a split that had no room when the later ones were allocated)
        olds = list(itertools.product((0, 4, 8), repeat=mac))
        for o in olds:
            a_opts = [sorted({o[k], 0} | ({o[k] - 4} if (o[k] >= 4 and mac < full) else set())) for k in range(mac)]
            for a in itertools.product(*a_opts):
                c_opts = [sorted({a[k], 12} | ({a[k] + 4, a[k] + 6} if mac < full else set())) for k in range(mac)]
                for cap in itertools.product(*c_opts):
                    for req in range(0, sum(o) + 9, 4):
                        hp = RG.P_(('obj', 'handle'), 0); pp = RG.P_(('obj', 'parity'), 0)
                        def ext(ins, args):
                            cal = ins.callee
                            if cal in ('log_fatal', 'log_tag', 'log_error', 'msg_error'):
                                return (0,)
                            if cal == 'os_abort':
                                raise Abort()
                            if cal == resize_name:
                                sp, run = args[0], RG.signed(args[1], 64)
                                k = (sp.off - H_MAP) // dsp['size']
                                cur = R.mem[(sp.reg, sp.off + S_ST)]
                                new = min(run, max(cap[k], cur)) if cur < run else run
                                R.mem[(sp.reg, sp.off + S_ST)] = new
                                if R.mem[(sp.reg, sp.off + S_VALID)] > new:
                                    R.mem[(sp.reg, sp.off + S_VALID)] = new
                                return (0,)
                            return None
                        R = RG.Region(P, extern=ext)
                        R.mem[(hp.reg, H_MAC)] = mac
                        R.mem[(pp.reg, P_MAC)] = mac
                        for k in range(mac):
                            b = H_MAP + k * dsp['size']
                            R.mem[(hp.reg, b + S_SIZE)] = o[k]
                            R.mem[(hp.reg, b + S_ST)] = a[k]
                            R.mem[(hp.reg, b + S_VALID)] = a[k]
                            R.mem[(pp.reg, P_MAP + k * ds['size'] + PS_SIZE)] = o[k]
                        im = R.array('is_modified', [7], 4)
                        try:
                            rv = R.run(f, 0, [hp, pp, im, req, BS, 0, 0])
                        except Abort:
                            rv = -1
                        except RG.Unsupported as e:
                            raise AnalysisBroken('cannot interpret parity_chsize: %s' % e)
                        nrun += 1
                        if RG.signed(rv & 0xffffffff, 32) != 0:
                            continue
                        n = [R.mem[(hp.reg, H_MAP + k * dsp['size'] + S_SIZE)] for k in range(mac)]
                        real = [R.mem[(hp.reg, H_MAP + k * dsp['size'] + S_ST)] for k in range(mac)]
                        rec = [R.mem[(pp.reg, P_MAP + k * ds['size'] + PS_SIZE)] for k in range(mac)]
                        why = None
                        if any(x % BS for x in n):
                            why = 'a split size that is not a multiple of the block size is accepted: %s' % n
                        elif sum(n) != req:
                            why = 'the new split sizes %s do not add up to the requested %d' % (n, req)
                        elif n != real:
                            why = 'recorded sizes %s differ from the real file sizes %s' % (n, real)
                        elif rec != n:
                            why = 'sizes copied to the state %s differ from %s' % (rec, n)
                        elif (R.mem[(im.reg, 0)] != 0) != (n != list(o)):
                            why = 'is_modified = %s although sizes went %s -> %s' % (R.mem[(im.reg, 0)], list(o), n)
                        else:
                            rem = req
                            for k in range(mac):
                                if any(o[j_] != 0 for j_ in range(k + 1, mac)) and rem > o[k] and n[k] != o[k]:
                                    why = 'split %d had a used successor and the request reaches beyond it, but its size changed %d -> %d: every later position now maps to another file offset' % (k, o[k], n[k])
                                    break
                                rem -= n[k]
                        if why and bad is None:
                            bad = 'recorded sizes %s, files on disk %s, capacities %s, request %d: parity_chsize succeeds but %s' % (list(o), list(a), list(cap), req, why)
                        if bad is None:
                            rep.ok(rid, 'o=%s a=%s cap=%s req=%d' % (o, a, cap, req))
    if bad:
        rep.fail(rid, 'parity_chsize post-condition', f.file, bad, function='parity_chsize', construct='chsize domain')
    rep.extra['chsize_configurations'] = nrun


def grow_rule(P, rep, rid):
    """growing one split file: the non-allocating fallback (ftruncate) is used only when the file system cannot fallocate at all;
    every other failure of fallocate -- in particular lack of space -- makes the growth fail, which is what lets the caller stop
    at the limit of this split and continue in the next one.  parity_handle_grow interpreted with fallocate/ftruncate modelled."""
    from .. import region as RG
    rep.rule(rid, 'parity_handle_grow: fallocate success => success without ftruncate; EOPNOTSUPP / ENOSYS => ftruncate to the requested size; any other error (ENOSPC, EIO, EFBIG, EDQUOT, EINTR) => failure and no ftruncate', 8)
    f = P.fn('parity_handle_grow')
    rep.analysed(f)
    if not list(f.calls('fallocate')):
        rep.ok(rid, 'no fallocate in this build', 'the build has no fallocate: growth is ftruncate only')
        return
    UNSUPPORTED = {95: 'EOPNOTSUPP', 38: 'ENOSYS'}
    OTHER = {28: 'ENOSPC', 5: 'EIO', 27: 'EFBIG', 122: 'EDQUOT', 4: 'EINTR'}
    cases = [(0, None)] + [(-1, e) for e in list(UNSUPPORTED) + list(OTHER)]
    for rv, e in cases:
        calls = []
        def ext(ins, args, rv=rv, e=e):
            c = ins.callee
            if c == '__errno_location':
                return (RG.P_(('glob', 'errno'), 0),)
            if c == 'fallocate':
                calls.append(('fallocate', args[2], args[3]))
                if e is not None:
                    R.mem[(('glob', 'errno'), 0)] = e
                return (rv & 0xffffffff,)
            if c in ('ftruncate', 'ftruncate64'):
                calls.append(('ftruncate', RG.signed(args[1], 64)))
                return (0,)
            if c in ('log_fatal', 'log_tag'):
                return (0,)
            if c == 'strerror':
                return (RG.P_(('str', 'strerror'), 0),)
            return None
        R = RG.Region(P, extern=ext)
        R.mem[(('glob', 'errno'), 0)] = 0
        sp = RG.P_(('obj', 'split'), 0); R.zero_regions.add(sp.reg)
        try:
            r = R.run(f, 0, [sp, 4096, 12288, 0])
        except RG.Unsupported as ex:
            raise AnalysisBroken('cannot interpret parity_handle_grow: %s' % ex)
        r = RG.signed(r & 0xffffffff, 32)
        trunc = [c for c in calls if c[0] == 'ftruncate']
        if e is None:
            ok = r == 0 and not trunc; what = 'fallocate succeeds'
        elif e in UNSUPPORTED:
            ok = r == 0 and trunc == [('ftruncate', 12288)]; what = 'fallocate fails with %s' % UNSUPPORTED[e]
        else:
            ok = r != 0 and not trunc; what = 'fallocate fails with %s' % OTHER[e]
        rep.check(ok, rid, what, f.file, 'returns %d, calls %s' % (r, calls), function='parity_handle_grow', construct='grow: %s' % what)


def offset_width_rule(P, rep, rid):
    """file offsets are 64-bit quantities: in the block transfer primitives the offset handed to pread / pwrite must not come out of a
    32-bit multiplication (position * block size overflows at 4 GiB and is widened too late)"""
    rep.rule(rid, 'block transfer primitives compute position * block_size in 64 bits (no 32-bit multiply, add or shift widened afterwards feeds the offset of pread / pwrite)', 4)
    from .C05 import locate_in_helpers
    for fn, prim in (('handle_read', 'pread'), ('handle_write', 'pwrite'), ('parity_read', 'pread'), ('parity_write', 'pwrite')):
        root = P.fn(fn)
        f = locate_in_helpers(P, root, lambda g_: any(True for _ in g_.calls(prim))) or root
        rep.analysed(f)
        cs = list(f.calls(prim))
        if not cs:
            raise AnalysisBroken('%s: %s call not found' % (fn, prim))
        narrow = []
        seen = set()
        def walk(g, o, depth=0):
            if o[0] == 'a' and g is not root:
                # a parameter of the helper that performs the transfer: follow it to the call sites in the primitive
                for x in root.calls():
                    if x.callee_full == g.name and o[1] < len(x.ops):
                        walk(root, x.ops[o[1]], depth + 1)
                return
            if o[0] != 'i' or (g.name, o[1]) in seen or depth > 40:
                return
            seen.add((g.name, o[1]))
            i = g.insts[o[1]]
            if i.op in ('zext', 'sext'):
                src = g.inst_of(i.ops[0])
                if src is not None and src.op in ('mul', 'shl') and (src.ty or '') in ('i32', 'i16'):
                    narrow.append('%s computed as %s in %s and widened afterwards' % (g.expr(['i', i.id]), src.op, src.ty))
            if i.op == 'load':
                a = g.strip(i.ops[0])
                if a[0] == 'i' and g.insts[a[1]].op == 'alloca':
                    for u in g.users.get(a[1], ()):
                        if u.op == 'store' and g.strip(u.ops[1]) == a:
                            walk(g, u.ops[0], depth + 1)
                return
            if i.op == 'call':
                return
            for x in i.ops:
                walk(g, x, depth + 1)
        for c in cs:
            walk(f, c.ops[3])
        rep.check(not narrow, rid, '%s: offset of %s' % (fn, prim), cs[0].loc(), '64-bit arithmetic' if not narrow else narrow[0] + ': blocks beyond 4 GiB of a file are read / written at the wrong place', function=fn, construct='offset width')


def chsize_full_size_rule(P, rep, rid, fname='state_check'):
    """fix resizes every parity file to the size of the whole array (block_size x parity_allocated_size()); the requested block
    range (-S/-B) only bounds the stripes that are processed.  A size derived from the clipped range truncates the parity of every
    stripe behind the range (C06e-a / C12e-a).  Decided on the value flow of the size argument (reaching definitions), not on names."""
    rep.rule(rid, '%s: the size handed to parity_chsize is computed only from block_size and parity_allocated_size(), never from the requested block range' % fname, 1)
    f = P.fn(fname)
    rep.analysed(f)
    cs = list(f.calls('parity_chsize'))
    if not cs:
        raise AnalysisBroken('%s: parity_chsize call not found' % fname)
    for c in cs:
        szarg = c.ops[3]
        src = f.value_sources(szarg)
        want = {('mem', 'state->block_size'), ('call', 'parity_allocated_size')}
        extra = sorted(str(x) for x in src - want)
        ok = want <= src and not extra
        rep.check(ok, rid, '%s: parity_chsize(size) derives from parity_allocated_size() * block_size only' % fname, c.loc(),
                  'sources of the size argument: %s' % sorted(str(x) for x in src) if ok else 'the size argument also depends on %s (sources: %s): a ranged fix would shrink the parity files to the end of the range' % (extra or 'nothing else but misses %s' % sorted(str(x) for x in want - src), sorted(str(x) for x in src)),
                  function=fname, construct='parity_chsize size')


def _icmp(pred, a, b):
    return {'eq': a == b, 'ne': a != b, 'ult': a < b, 'ule': a <= b, 'ugt': a > b, 'uge': a >= b,
            'slt': a < b, 'sle': a <= b, 'sgt': a > b, 'sge': a >= b}[pred]


def split_index_guard_rule(P, rep, rid, fname='state_read_content'):
    """the loader stores the recorded path / uuid / size of split s of a parity level only when s is a configured split of that level
    (s < split_mac); a recorded split past the configuration must be refused (if in use) or dropped.  The rule finds every variable
    index into split_map[] and demands a dominating branch edge that implies index < split_mac of the same level -- decided by
    evaluating the comparison over small values, so any equivalent spelling of the test passes"""
    f = P.fn(fname)
    rep.analysed(f)
    rep.rule(rid, '%s: every split_map[s] access with a variable s is dominated by a test implying s < split_mac of the same parity level' % fname, 4)
    n = 0
    for g in f.all_insts():
        if g.op != 'getelementptr' or len(g.ops) != 3 or f.const_of(g.ops[2]) is not None:
            continue
        e = f.expr(['i', g.id])
        if not e.endswith(']') or '.split_map[' not in e:
            continue
        basee = e[1:e.rindex('.split_map[')] if e.startswith('&') else e[:e.rindex('.split_map[')]
        idx_src = f.xexpr(g.ops[2])
        n += 1
        ok = False
        seen_tests = []
        for b in range(len(f.blocks)):
            t = f.term(b)
            if t.op != 'br' or len(t.ops) != 3:
                continue
            ci = f.inst_of(t.ops[0])
            if ci is None or ci.op != 'icmp':
                continue
            l, r = f.xexpr(ci.ops[0]), f.xexpr(ci.ops[1])
            mac = basee + '.split_mac'
            if {l, r} != {idx_src, mac}:
                continue
            for edge_true, sb in ((True, t.ops[2][1]), (False, t.ops[1][1])):   # LLVM operand order: cond, false, true
                if not f.edge_dominates(t, sb, g):
                    continue
                implies = all((i_ < m_) for i_ in range(4) for m_ in range(4)
                              if _icmp(ci.pred, *((i_, m_) if l == idx_src else (m_, i_))) == edge_true)
                seen_tests.append('%s %s %s is %s' % (l, ci.pred, r, edge_true))
                ok = ok or implies
        rep.check(ok, rid, '%s: %s only for a configured split' % (fname, e.lstrip('&')), g.loc(),
                  'dominating test: %s' % seen_tests if ok else 'no dominating test implies %s < %s.split_mac (tests on the way: %s): the entry of a split that is not configured is overwritten / accepted' % (idx_src, basee, seen_tests or 'none'),
                  function=fname, construct='split_map index guard')
    if n == 0:
        raise AnalysisBroken('%s: no variable split_map[] access found' % fname)


def parity_read_valid_rule(P, rep, rid):
    """parity_read interpreted over an exhaustive small domain (one split of 4 blocks of 4 bytes, every valid_size 0..16, every
    position 0..4, the file itself long enough -- it was grown again by fix): the read succeeds only for a block that lies completely
    inside the valid range.  A block that straddles valid_size (parity file cut inside a block) must be refused, so that fix
    recomputes and rewrites it; otherwise the regrown zeros can match, nothing is written, valid_size stays at the cut and
    parity_truncate() cuts the file again (finding F12)."""
    from .. import region as RG
    f = P.fn('parity_read')
    rep.analysed(f)
    rep.rule(rid, 'parity_read over valid_size 0..16 x position 0..4 (block 4): success <=> the block lies completely inside [0, valid_size); no pread otherwise', 1)
    dh = P.distructs.get('snapraid_parity_handle'); dsp = P.distructs.get('snapraid_split_handle')
    if not (dh and dsp):
        raise AnalysisBroken('parity layouts not found')
    def off(d, name):
        return [m for m in d['members'] if m['name'] == name][0]['off']
    H_MAC, H_MAP = off(dh, 'split_mac'), off(dh, 'split_map')
    S_SIZE, S_VALID, S_F = off(dsp, 'size'), off(dsp, 'valid_size'), off(dsp, 'f')
    BS = 4
    bad = None; n = 0
    for valid in range(0, 17):
        for pos in range(0, 5):
            preads = []
            def ext(ins, args):
                cal = ins.callee
                if cal is None:
                    return (0,)          # the error printer passed as a function pointer
                if cal == 'pread':
                    preads.append((RG.signed(args[3], 64), args[2]))
                    return (args[2],)
                if cal in ('bw_limit', 'advise_read', 'strerror', '__errno_location', 'log_fatal', 'log_tag', 'log_error'):
                    return (0,) if cal != '__errno_location' else (R.array('errno', [0], 4),)
                return None
            R = RG.Region(P, extern=ext)
            hp = RG.P_(('obj', 'handle'), 0); R.zero_regions.add(hp.reg)
            R.mem[(hp.reg, H_MAC)] = 1
            R.mem[(hp.reg, H_MAP + S_SIZE)] = 16
            R.mem[(hp.reg, H_MAP + S_VALID)] = valid
            R.mem[(hp.reg, H_MAP + S_F)] = 3
            buf = R.array('buffer', [0] * BS, 1)
            try:
                rv = R.run(f, 0, [hp, pos, buf, BS, RG.P_(('fn', 'out'), 0)])
            except RG.Unsupported as e:
                raise AnalysisBroken('cannot interpret parity_read: %s' % e)
            n += 1
            rv = RG.signed(rv & 0xffffffff, 32)
            inside = pos * BS + BS <= valid
            okk = (rv == BS and preads and preads[0][0] == pos * BS) if inside else (rv == -1 and not preads)
            if not okk and bad is None:
                bad = 'valid_size %d, position %d (bytes %d..%d): parity_read returns %d after %s -- %s' % (valid, pos, pos * BS, pos * BS + BS - 1, rv, 'pread at %s' % [p_[0] for p_ in preads] if preads else 'no pread',
                      'a block inside the valid range is refused' if inside else 'a block that is not completely inside the valid range is accepted: after a parity file was cut inside a block and regrown by fix, the zero-filled part can match, the block is not rewritten, and parity_truncate() cuts the file again')
    rep.check(bad is None, rid, 'parity_read accepts exactly the blocks completely inside the valid range', f.file, '%d evaluations' % n if bad is None else bad, function='parity_read', construct='valid range test')


def create_accepts_damaged_size_rule(P, rep, rid):
    """fix opens the parity files with parity_create().  A parity file that lost its tail can have any size; when the content file
    does not record the split sizes (a single parity file: the usual configuration) the size on disk is all there is.  parity_create
    must therefore not fail because of that size alone -- else fix stops with "Without an accessible Parity file" and a parity file
    cut inside a block can never be repaired (finding F13).  Rule: no branch of parity_create whose condition is computed only from
    the size of the existing file (split->size / st.st_size), the block size and constants has a side that cannot reach success."""
    f = P.fn('parity_create')
    rep.analysed(f)
    rep.rule(rid, 'parity_create: no failing exit is decided by the on-disk size of an existing parity file alone', 1)
    succ_st = [i for i in f.all_insts() if i.op == 'store' and f.expr(i.ops[1]) == '&retval' and f.const_of(i.ops[0]) == 0]
    rets = succ_st or []
    if not rets:
        # single return value local: take the returns and find the constant-0 definitions that reach them
        raise AnalysisBroken('parity_create: success return not recognised')
    can_succeed = set()
    # blocks from which a success store is reachable
    for b in range(len(f.blocks)):
        r = f.reach([f.blocks[b][0]], include_start=True)
        if any(s.id in r for s in succ_st):
            can_succeed.add(b)
    nbr = 0; bad = None
    for b in range(len(f.blocks)):
        t = f.term(b)
        if t.op != 'br' or len(t.ops) != 3 or b not in can_succeed:
            continue
        failing = [s for s in t.succ if s not in can_succeed]
        if not failing:
            continue
        nbr += 1
        src = f.value_sources(t.ops[0])
        kinds = set()
        for x in src:
            if x[0] == 'const':
                continue
            if x[0] == 'arg':
                kinds.add('arg:%s' % ((f.args[x[1]].get('name') if x[1] < len(f.args) else None) or x[1]))
            elif x[0] == 'mem' and (x[1].endswith('->size') or x[1].endswith('st.st_size') or x[1].endswith('.st_size')):
                kinds.add('size')
            else:
                kinds.add('other')
        if 'size' in kinds and 'other' not in kinds and bad is None:
            bad = (t, sorted(str(x) for x in src))
    if nbr == 0:
        raise AnalysisBroken('parity_create: no failing branch found')
    rep.check(bad is None, rid, 'parity_create does not refuse a parity file for its size', bad[0].loc() if bad else f.file,
              '%d failing branches examined, none decided by the file size alone' % nbr if bad is None else 'the failing branch at line %s depends only on %s: a parity file whose size is not a multiple of the block size (cut inside a block) makes fix stop with "Without an accessible Parity file", the lost parity is never rebuilt' % (bad[0].line, bad[1]),
              function='parity_create', construct='size-only refusal')


def _numeric(f, o, salt, depth=0):
    """value of an integer expression under a pseudo-random valuation of its leaves (loads, arguments, calls named by their
    access path): two spellings of the same sum / product evaluate alike for every salt"""
    import zlib
    M = (1 << 61) - 1
    o = f.strip(o)
    c = f.const_of(o)
    if c is not None:
        return c % M
    if o[0] == 'i' and depth < 12:
        i = f.insts[o[1]]
        if i.op in ('add', 'mul', 'sub', 'or', 'and', 'xor', 'shl'):
            a, b = _numeric(f, i.ops[0], salt, depth + 1), _numeric(f, i.ops[1], salt, depth + 1)
            return {'add': a + b, 'mul': a * b, 'sub': a - b, 'or': a | b, 'and': a & b, 'xor': a ^ b, 'shl': a << (b % 8)}[i.op] % M
    return zlib.crc32(('%d:%s' % (salt, f.xexpr(o))).encode()) % 1000003 + 7


def _guarded_raise(f, st):
    """True iff the store `X->valid_size = v` is dominated by a branch edge that implies (old valid_size) < v -- the comparison is
    found by evaluating both sides (any operand order / spelling) and its meaning by enumeration over small values"""
    for b_ in range(len(f.blocks)):
        t_ = f.term(b_)
        if t_.op != 'br' or len(t_.ops) != 3:
            continue
        ci = f.inst_of(t_.ops[0])
        if ci is None or ci.op != 'icmp' or ci.pred in ('eq', 'ne'):
            continue
        for edge_true, sb in ((True, t_.ops[2][1]), (False, t_.ops[1][1])):
            if not f.edge_dominates(t_, sb, st):
                continue
            sides = [f.expr(o).endswith('valid_size') for o in ci.ops]
            if sides.count(True) != 1:
                continue
            other = ci.ops[1] if sides[0] else ci.ops[0]
            if not all(_numeric(f, other, k_) == _numeric(f, st.ops[0], k_) for k_ in (1, 2, 3)):
                continue
            pairs = [(a_, b2) for a_ in range(4) for b2 in range(4) if _icmp(ci.pred, *((a_, b2) if sides[0] else (b2, a_))) == edge_true]
            if pairs and all(a_ < b2 for a_, b2 in pairs):
                return True
    return False
