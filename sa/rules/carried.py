"""loop-carried flags: a constant-only int local that is raised inside a loop and read inside the same loop, with a path from the loop
header to the read that passes no assignment, carries its value from one iteration to the next.  In this code base such flags are
per-item verdicts (file_is_unsynced, fragmented, ...) that are reset at the top of the iteration; the few that are meant to be carried
are listed with the reason.  A reset hoisted out of its loop (or a declaration moved to the enclosing scope) makes the verdict of one
item depend on the items processed before it -- in the i/o engines: on the completion order of the reader threads."""
from ..frontend import AnalysisBroken
from ..ir import base

# (function, flag): reason -- confirmed by reading the pinned tree
CARRIED_OK = {
    ('filter_alloc_file', 'token_is_filled'): 'tokenizer state across characters',
    ('filter_alloc_file', 'token_is_valid'): 'tokenizer state across characters',
    ('state_diffscan', 'done'): 'the interlock header is printed once for all disks',
    ('validate_smartctl', 'arg'): 'option parser state',
    ('smartctl_attribute', 'inside'): 'parser state across lines',
}


def carried(f):
    out = {}
    examined = 0
    for a_ in f.all_insts():
        if a_.op != 'alloca' or a_.id in f.arg_allocas() or not a_.var:
            continue
        us = f.users.get(a_.id, ())
        if not us or not all(u.op == 'load' or (u.op == 'store' and f.strip(u.ops[1]) == ['i', a_.id] and f.const_of(u.ops[0]) is not None) for u in us):
            continue
        stores = [u for u in us if u.op == 'store']
        loads = [u for u in us if u.op == 'load']
        if not any(f.const_of(s.ops[0]) != 0 for s in stores):
            continue
        for h, body in f.loops.items():
            blocks = set(body) | {h}
            ls = [l for l in loads if l.block in blocks]
            ss = [s for s in stores if s.block in blocks]
            if not ls or not any(f.const_of(s.ops[0]) != 0 for s in ss):
                continue
            examined += 1
            outside = [f.blocks[b][0].id for b in range(len(f.blocks)) if b not in blocks]
            r = f.reach([f.blocks[h][0]], stop={s.id for s in ss} | set(outside), include_start=True)
            hit = [l for l in ls if l.id in r]
            if hit:
                out.setdefault(a_.var, hit[0])
    return out, examined


def carried_flags_rule(P, rep, rid, prefix='cmdline/', only=None, min_examined=10):
    rep.rule(rid, 'no per-item flag carries its value from one loop iteration to the next (every flag raised and read inside a loop is assigned on every path from the loop header to the read), except the listed parser / print-once flags', 1)
    tot = 0
    bad = []
    for f in P.defined():
        if not (f.file or '').startswith(prefix):
            continue
        if only is not None and base(f.name) not in only:
            continue
        c, n = carried(f)
        tot += n
        if n:
            rep.analysed(f)
        for var, ld in c.items():
            if (base(f.name), var) in CARRIED_OK:
                continue
            bad.append((f, var, ld))
    if tot < min_examined:
        raise AnalysisBroken('loop flags not recognised (%d examined)' % tot)
    for f, var, ld in bad:
        rep.check(False, rid, '%s: `%s` is assigned in every iteration before it is read' % (base(f.name), var), ld.loc(),
                  'the flag `%s` is raised and read inside a loop but a path from the loop header reaches the read at line %s without any assignment: the value of the previous iteration (previous disk / file / entry) is used' % (var, ld.line),
                  function=base(f.name), construct='loop-carried %s' % var)
    if not bad:
        rep.check(True, rid, 'flags raised and read inside loops', 'cmdline', '%d (flag, loop) pairs examined, carried ones are all listed exceptions' % tot, function='*', construct='loop-carried flags')


def level_loop_index_rule(P, rep, rid, prefix='cmdline/'):
    """every loop over the parity levels (`for (l = 0; l < state->level; ++l)`) that touches the per-level arrays (state->parity[],
    parity_handle[], parity_ptr[]) indexes them with a loop counter: a constant index inside such a loop applies the decision of one
    level to all of them (e.g. the content format chosen from the first level only: the split sizes of a split higher level are then
    never recorded)."""
    import re
    rep.rule(rid, 'loops bounded by state->level index state->parity[] / parity_handle[] / parity_ptr[] with a loop counter, never with a constant', 40)
    n = 0
    bad = []
    for f in P.defined():
        if not (f.file or '').startswith(prefix):
            continue
        counters = {}
        for h, body in f.loops.items():
            t = f.term(h)
            if t.op != 'br' or len(t.ops) != 3:
                continue
            ci = f.inst_of(t.ops[0])
            if ci is None or ci.op != 'icmp':
                continue
            e = [f.xexpr(o) for o in ci.ops]
            if not any(x.endswith('state->level') or x == 'level' for x in e):
                continue
            for o in ci.ops:
                cl = f.inst_of(o)
                if cl is not None and cl.op == 'load':
                    ca = f.strip(cl.ops[0])
                    if ca[0] == 'i' and f.insts[ca[1]].op == 'alloca':
                        counters[h] = ca[1]
        if not counters:
            continue
        allc = set(counters.values())
        seen = False
        for h in counters:
            blocks = set(f.loops[h]) | {h}
            for i in f.all_insts():
                if i.block in blocks and i.op == 'getelementptr' and len(i.ops) == 3:
                    ex = f.expr(['i', i.id])
                    if not re.search(r'(parity|parity_handle|parity_ptr)\[[^\]]*\]$', ex):
                        continue
                    n += 1
                    seen = True
                    li = f.inst_of(i.ops[2])
                    ok = li is not None and li.op == 'load' and f.strip(li.ops[0])[0] == 'i' and f.strip(li.ops[0])[1] in allc
                    if not ok and f.const_of(i.ops[2]) is not None:
                        bad.append((f, i, ex))
        if seen:
            rep.analysed(f)
    if not bad:
        rep.check(True, rid, 'per-level arrays in level loops', 'cmdline', '%d accesses, all indexed by a loop counter' % n, function='*', construct='level loop index')
    for f, i, ex in bad:
        rep.check(False, rid, '%s: %s inside a loop over the levels' % (base(f.name), ex.lstrip('&')), i.loc(),
                  'the loop runs over every parity level but reads / writes the entry of one fixed level: the other levels do not take part in the decision', function=base(f.name), construct='constant level index in a level loop')
    if not bad:
        rep.rules[rid]['instances'] = max(rep.rules[rid]['instances'], n)
        rep.rules[rid]['ok'] = rep.rules[rid]['instances']


def nullable_array_rule(P, rep, rid, prefix='cmdline/'):
    """a local array of buffer pointers whose entries are set to null inside a loop to say "not available for this item" (the parity
    buffers read for one stripe: buffer_recov[l] = 0 after a read error or a mismatch) is filled again inside that same loop;
    initialised once before the loop, a null written for one stripe disables that parity level for every later stripe."""
    import re
    rep.rule(rid, 'pointer arrays whose entries are nulled inside a loop as a per-item "not available" mark are (re)filled inside the outermost such loop', 2)
    n = 0
    for f in P.defined():
        if not (f.file or '').startswith(prefix):
            continue
        for a in f.all_insts():
            if a.op != 'alloca' or not re.match(r'\[\d+ x i8\*\]', a.ty or '') or a.id in f.arg_allocas():
                continue
            stores = []; loads = []
            for g in f.users.get(a.id, ()):
                if g.op == 'getelementptr':
                    for u in f.users.get(g.id, ()):
                        if u.op == 'store' and f.strip(u.ops[1]) == ['i', g.id]:
                            stores.append(u)
                        elif u.op == 'load':
                            loads.append(u)
            nulls = [s for s in stores if f.const_of(s.ops[0]) == 0]
            inits = [s for s in stores if f.const_of(s.ops[0]) != 0]
            cands = [h for h, body in f.loops.items() if any(s.block in body or s.block == h for s in nulls) and any(l.block in body or l.block == h for l in loads)]
            if not cands:
                continue
            outer = max(cands, key=lambda h: len(f.loops[h]))
            blocks = set(f.loops[outer]) | {outer}
            # entries nulled unconditionally as part of the initialisation itself (the tail of the array) do not count as marks
            marks = [s for s in nulls if s.block in blocks and not any(f.loop_of(s.block) == f.loop_of(i_.block) or s.block == i_.block for i_ in inits)]
            inl = [s for s in inits if s.block in blocks]
            n += 1
            rep.analysed(f)
            ok = bool(inl)
            rep.check(ok, rid, '%s: %s[] is refilled in every iteration of the loop at line %s' % (base(f.name), a.var, f.blocks[outer][0].line), (inl or nulls)[0].loc(),
                      '%d filling store(s) inside the loop' % len(inl) if ok else '%s[] is filled once before the loop at line %s but its entries are nulled inside it (line %s): after the first item with an unavailable entry, that entry stays null for every later item (a parity level found wrong in one stripe is treated as missing in all the following ones)' % (a.var, f.blocks[outer][0].line, sorted({s.line for s in nulls if s.block in blocks})),
                      function=base(f.name), construct='%s filled outside the loop' % a.var)
    if n < 2:
        raise AnalysisBroken('nullable pointer arrays not recognised (%d)' % n)
