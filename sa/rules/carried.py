"""loop-carried flags: a constant-only int local that is raised inside a loop and read inside the same loop, with a path from the loop
header to the read that passes no assignment, carries its value from one iteration to the next.  In this code base such flags are
per-item verdicts (file_is_unsynced, fragmented, ...) that are reset at the top of the iteration; the few that are meant to be carried
are listed with the reason.  A reset hoisted out of its loop (or a declaration moved to the enclosing scope) makes the verdict of one
item depend on the items processed before it -- in the i/o engines: on the completion order of the reader threads."""
from ..frontend import AnalysisBroken
from ..ir import base

# (function, flag): reason -- confirmed by reading the pinned tree
CARRIED_OK = {
    ('filter_alloc_file', 'token_is_filled'): 'tokenizer state across characters',
    ('filter_alloc_file', 'token_is_valid'): 'tokenizer state across characters',
    ('state_diffscan', 'done'): 'the interlock header is printed once for all disks',
    ('validate_smartctl', 'arg'): 'option parser state',
    ('smartctl_attribute', 'inside'): 'parser state across lines',
}


def carried(f):
    out = {}
    examined = 0
    for a_ in f.all_insts():
        if a_.op != 'alloca' or a_.id in f.arg_allocas() or not a_.var:
            continue
        us = f.users.get(a_.id, ())
        if not us or not all(u.op == 'load' or (u.op == 'store' and f.strip(u.ops[1]) == ['i', a_.id] and f.const_of(u.ops[0]) is not None) for u in us):
            continue
        stores = [u for u in us if u.op == 'store']
        loads = [u for u in us if u.op == 'load']
        if not any(f.const_of(s.ops[0]) != 0 for s in stores):
            continue
        for h, body in f.loops.items():
            blocks = set(body) | {h}
            ls = [l for l in loads if l.block in blocks]
            ss = [s for s in stores if s.block in blocks]
            if not ls or not any(f.const_of(s.ops[0]) != 0 for s in ss):
                continue
            examined += 1
            outside = [f.blocks[b][0].id for b in range(len(f.blocks)) if b not in blocks]
            r = f.reach([f.blocks[h][0]], stop={s.id for s in ss} | set(outside), include_start=True)
            hit = [l for l in ls if l.id in r]
            if hit:
                out.setdefault(a_.var, hit[0])
    return out, examined


def carried_flags_rule(P, rep, rid, prefix='cmdline/', only=None, min_examined=10):
    rep.rule(rid, 'no per-item flag carries its value from one loop iteration to the next (every flag raised and read inside a loop is assigned on every path from the loop header to the read), except the listed parser / print-once flags', 1)
    tot = 0
    bad = []
    for f in P.defined():
        if not (f.file or '').startswith(prefix):
            continue
        if only is not None and base(f.name) not in only:
            continue
        c, n = carried(f)
        tot += n
        if n:
            rep.analysed(f)
        for var, ld in c.items():
            if (base(f.name), var) in CARRIED_OK:
                continue
            bad.append((f, var, ld))
    if tot < min_examined:
        raise AnalysisBroken('loop flags not recognised (%d examined)' % tot)
    for f, var, ld in bad:
        rep.check(False, rid, '%s: `%s` is assigned in every iteration before it is read' % (base(f.name), var), ld.loc(),
                  'the flag `%s` is raised and read inside a loop but a path from the loop header reaches the read at line %s without any assignment: the value of the previous iteration (previous disk / file / entry) is used' % (var, ld.line),
                  function=base(f.name), construct='loop-carried %s' % var)
    if not bad:
        rep.check(True, rid, 'flags raised and read inside loops', 'cmdline', '%d (flag, loop) pairs examined, carried ones are all listed exceptions' % tot, function='*', construct='loop-carried flags')
