"""C08 — I/O errors never turn into false protection."""
from ..stripe import StripeLoop
from ..frontend import AnalysisBroken
from ..ir import base
from .C09 import dead_blocks, first_cond_branch, depends_on

STORAGE = {'handle_open', 'handle_create', 'handle_read', 'handle_write', 'handle_close', 'handle_truncate', 'handle_utime',
           'parity_create', 'parity_open', 'parity_read', 'parity_write', 'parity_sync', 'parity_close', 'parity_chsize', 'parity_truncate'}


def writer_dispatch(f, L):
    """(state constant, entry block) of the dispatch on the state reported by the parity writers inside the stripe loop: the cases
    of a switch, or the equal sides of an if / else-if chain in the part of the loop entered when an entry of writer_error[] is set"""
    entries = []
    for b in L.body:
        t = f.term(b)
        if t.op == 'switch':
            entries += [(cv, cb) for cv, cb in t.cases]
    if entries:
        return entries
    tests = [f.term(b) for b in L.body if f.term(b).op == 'br' and len(f.term(b).ops) == 3 and 'writer_error[' in f.xexpr(f.term(b).ops[0])]
    for b in L.body:
        t2 = f.term(b)
        ci2 = f.inst_of(t2.ops[0]) if t2.op == 'br' and len(t2.ops) == 3 else None
        if ci2 is None or ci2.op != 'icmp' or ci2.pred not in ('eq', 'ne') or f.const_of(ci2.ops[1]) is None or f.const_of(ci2.ops[1]) >= 0:
            continue
        if not any(f.bdominates(tt.ops[2][1], b) or f.bdominates(tt.ops[1][1], b) for tt in tests):
            continue
        entries.append((f.const_of(ci2.ops[1]), t2.ops[2][1] if ci2.pred == 'eq' else t2.ops[1][1]))
    return entries


def task_state_stores(f):
    """constants stored into task->state by a worker callback"""
    res = []
    for i in f.all_insts():
        if i.op == 'store' and f.expr(i.ops[1]).endswith('task->state'):
            res.append((i, f.const_of(i.ops[0])))
    return res


def consumer_states(f, call):
    """constants the result task's state is compared with after a consumer call (until the next consumer call)"""
    # task pointer variable the call result is stored into
    ks = set()
    default_abort = False
    dead = dead_blocks(f)
    body = f.reach([call])
    for i in f.all_insts():
        if i.id in body and i.op == 'icmp' and f.expr(i.ops[0]).endswith('task->state'):
            k = f.const_of(i.ops[1])
            if k is not None:
                ks.add(k)
                for br in f.users.get(i.id, ()):
                    if br.op == 'br' and i.pred == 'ne' and br.ops[2][1] in dead:
                        default_abort = True
    return ks, default_abort


def callbacks_of(P, f):
    """worker callbacks a command installs: function-pointer arguments of its io_init call"""
    res = {'data': set(), 'parity': set(), 'writer': set()}
    for c in f.calls('io_init'):
        for k, name in ((4, 'data'), (7, 'parity'), (8, 'writer')):
            o = f.strip(c.ops[k])
            if o[0] == 'f':
                res[name].add(o[1])
    return res


def run(ctx, rep):
    P = ctx.prog
    rep.explanation = ('Error discipline of the stripe engines: producer/consumer exhaustiveness over task error states; every error counter increment in a stripe loop is tied to the per-stripe flag '
                       '(hence to "not committed"/"marked bad") or leaves through bail; the verdict depends on all counters; storage-layer results are always tested.')
    rep.rule('R-C08-1', 'every task state a worker callback can produce is handled by the consumer of that task; anything else aborts', 4)
    rep.rule('R-C08-1b', 'worker callbacks assign task->state on every path, and an error state on every failure path of the storage layer', 4)
    rep.rule('R-C08-2', 'every error-counter increment inside a stripe loop is followed by its per-stripe flag or by bail before the next stripe', 12)
    rep.rule('R-C08-2v', 'the failing return of a stripe engine (sync, scrub, the pre-hash of sync, dry, check/fix) depends on every error counter it increments', 5)
    rep.rule('R-C08-3', 'the state produced by a writer callback reaches the error accounting in both io implementations', 2)
    rep.rule('R-C08-4', 'writer errors accumulated after the last io_write_next are collected before the verdict', 1)
    rep.rule('R-C08-5', 'io error limit: the limit test follows the increment and leads to bail', 2)
    rep.rule('R-C08-6', 'results of the storage layer (handle_*/parity_*) are always tested', 40)

    for fname in ('state_sync_process', 'state_scrub_process'):
        L = StripeLoop(P, fname)
        f = L.f
        rep.analysed(f)
        cbs = callbacks_of(P, f)
        # R-C08-1 readers
        for slot, kind in (('io_data_read', 'data'), ('io_parity_read', 'parity')):
            for call in L.slot_calls(slot):
                produced = set()
                for cb in cbs[kind]:
                    g = P.fn(cb)
                    rep.analysed(g)
                    produced |= {k for _, k in task_state_stores(g)}
                produced.discard(None)
                handled, default_abort = consumer_states(f, call)
                missing = {k for k in produced if k not in handled}
                rep.check(not missing and default_abort and bool(produced), 'R-C08-1', '%s: consumer of %s' % (fname, slot), call.loc(), 'producers %s store states %s; consumer compares %s; unknown state aborts: %s' % (sorted(cbs[kind]), sorted(produced), sorted(handled), default_abort), function=fname, construct='%s states' % slot)
        # writer side: the switch over writer_error indices
        if cbs['writer']:
            produced = set()
            for cb in cbs['writer']:
                g = P.fn(cb)
                rep.analysed(g)
                produced |= {k for _, k in task_state_stores(g) if k is not None and k < 0}
            wd = writer_dispatch(f, L)
            handled = {cv for cv, _ in wd}
            rep.check(produced <= handled and bool(produced), 'R-C08-1', '%s: consumer of writer errors' % fname, f.blocks[wd[0][1]][0].loc() if wd else f.file, 'writer produces %s, switch handles %s' % (sorted(produced), sorted(handled)), function=fname, construct='writer states')
        # R-C08-1b callbacks
        for kind in ('data', 'parity', 'writer'):
            for cb in sorted(cbs[kind]):
                g = P.fn(cb)
                stores = [s for s, _ in task_state_stores(g)]
                rets = g.returns()
                allret = all(g.must_pass(r, stores) for r in rets)
                dg = dead_blocks(g)
                okerr = True
                det = ''
                for c in g.calls(STORAGE):
                    br = first_cond_branch(g, c)
                    if br is None or len(br.ops) != 3 or not depends_on(g, br.ops[0], c.id):
                        okerr = False; det = 'result of %s not tested' % c.callee
                        continue
                    ci = g.inst_of(br.ops[0])
                    # error side: the edge taken when result == -1 (eq -1 true edge; slt 0 true edge; ne 0 true edge)
                    k = g.const_of(ci.ops[1])
                    err = br.ops[2][1] if (ci.pred, k) in (('eq', -1), ('slt', 0), ('ne', 0)) else br.ops[1][1] if (ci.pred, k) in (('ne', -1), ('sge', 0), ('eq', 0)) else None
                    if err is None:
                        okerr = False; det = 'unrecognised result test %s' % g.expr(['i', ci.id])
                        continue
                    # every state store reachable from the error edge without passing another storage call is negative
                    reach = g.reach([g.blocks[err][0]], stop={x.id for x in g.calls(STORAGE)}, include_start=True)
                    st = [(s, k2) for s, k2 in task_state_stores(g) if s.id in reach]
                    # only the stores in blocks dominated by the error edge belong to the failure path
                    st = [(s, k2) for s, k2 in st if g.bdominates(err, s.block)]
                    if not st or any(k2 is None or k2 >= 0 for _, k2 in st):
                        okerr = False; det = 'failure of %s at %s can end with states %s' % (c.callee, c.loc(), [k2 for _, k2 in st])
                rep.check(allret and okerr, 'R-C08-1b', cb, g.file, 'every return passes a task->state store: %s; failure paths store error states: %s %s' % (allret, okerr, det), function=cb, construct='task state assignment')
        # R-C08-2
        header_first = L.block_first(L.header)
        endb = [b for b, nme in enumerate(f.bname) if nme == 'end']
        # normal completion of the loop: the progress epilogue that both engines call right after the loop
        ends = list(f.calls('state_progress_end'))
        if not ends:
            raise AnalysisBroken('%s: state_progress_end not found' % fname)
        targets = [header_first] + ends
        for counter, flag in (('error', 'error_on_this_block'), ('io_error', 'io_error_on_this_block'), ('silent_error', 'silent_error_on_this_block')):
            stops = L.flag_stores(flag, 1) + [L.block_first(b) for b in L.bail]
            for inc in L.increments(counter):
                if inc.block not in L.body:
                    continue
                esc = L.escapes_without(inc, stops, targets)
                # which consumer region the increment belongs to (for the finding key)
                wd2 = [(cv, cb) for cv, cb in writer_dispatch(f, L) if f.bdominates(cb, inc.block)] if cbs['writer'] else []
                sws = wd2
                where = 'writer-error switch' if sws else 'reader side'
                if sws:
                    # only states the installed writer callback can produce matter
                    case = [cv for cv, cb in wd2]
                    prod = set()
                    for cb in cbs['writer']:
                        prod |= {k for _, k in task_state_stores(P.fn(cb))}
                    if case and case[0] not in prod:
                        rep.notes.append('%s: writer state %d is handled but never produced by %s' % (fname, case[0], sorted(cbs['writer'])))
                        continue
                rep.check(not esc, 'R-C08-2', '%s: ++%s (%s)' % (fname, counter, where), inc.loc(),
                          'followed by %s=1 or bail on every path' % flag if not esc else '++%s can reach the next stripe without %s=1: the stripe is neither left unsynced nor marked bad' % (counter, flag),
                          function=fname, construct='++%s in %s without %s' % (counter, where, flag))
        # R-C08-2s: scrub works on stripes that ARE recorded as synced and healthy: leaving the loop through `bail` (error limit reached,
        # fatal state) without a bad mark leaves the stripe that just failed recorded as healthy.  Every i/o or silent error counted in
        # the scrub loop must reach the bad mark on every path, including the one that stops the run.
        if fname == 'state_scrub_process':
            rep.rule('R-C08-2s', 'scrub: every counted i/o error of a stripe reaches info_set_bad of that stripe before the next stripe, bail or return (also when the error limit stops the run)', 2)
            marks = [c_ for c_ in f.calls('info_set_bad')]
            prod_r = set()
            for kind_ in ('data', 'parity'):
                for cb in cbs[kind_]:
                    prod_r |= {k for _, k in task_state_stores(P.fn(cb)) if k is not None}
            for inc in L.increments('io_error'):
                if inc.block not in L.body:
                    continue
                # increments under a task state no reader callback produces are dead code
                gsx = [f.xexpr(f.term(b_).ops[0]) for b_ in range(len(f.blocks)) if f.term(b_).op == 'br' and len(f.term(b_).ops) == 3 and f.edge_dominates(f.term(b_), f.term(b_).ops[2][1], inc) and 'task->state' in f.xexpr(f.term(b_).ops[0])]
                import re as _re2
                sts = [int(m_.group(1)) for g_ in gsx[-1:] for m_ in _re2.finditer(r'task->state==(-?\d+)', g_.replace(' ', ''))]
                if sts and sts[0] not in prod_r:
                    rep.notes.append('%s: reader state %d is handled but never produced' % (fname, sts[0]))
                    continue
                # setting the per-stripe flag is as good as the mark: R-C04-4 shows that every tuple with the flag set flows to the mark
                r_ = f.reach([inc], stop={m_.id for m_ in marks} | {x.id for x in L.flag_stores('io_error_on_this_block', 1)})
                leaves = [x for x in [header_first] + ends + [L.block_first(b) for b in L.bail] + f.returns() if x.id in r_]
                rep.check(not leaves, 'R-C08-2s', '%s: ++io_error at line %s reaches the bad mark' % (fname, inc.line), inc.loc(),
                          'bad mark on every path' if not leaves else 'the i/o error counted here can leave the stripe loop (%s) without info_set_bad: the stripe that failed stays recorded as synced and healthy (status: no error, fix -e: nothing to do)' % sorted({'line %s' % x.line for x in leaves}),
                          function=fname, construct='++io_error without bad mark')
        # R-C08-2w: a writer error concerns a stripe that was already committed as synced when its write was queued: leaving through
        # `bail` does not undo that (the content file is still saved with what was committed).  Every error state the writer callback can
        # produce must therefore reach a bad mark before the loop goes on or the function leaves.
        if cbs['writer'] and fname == 'state_sync_process':
            rep.rule('R-C08-2w', 'sync: every error state a parity writer can report leads to a bad mark (info_set_bad) of the stripe before the next stripe / bail / return -- the stripe was committed before its write', 1)
            prodw = set()
            for cb in cbs['writer']:
                prodw |= {k for _, k in task_state_stores(P.fn(cb)) if k is not None and k < 0}
            marks = [c_ for c_ in f.calls('info_set_bad')]
            entries = writer_dispatch(f, L)
            for _one in [0]:
                for cv, cb in entries:
                    if cv not in prodw:
                        continue
                    first = f.blocks[cb][0]
                    r_ = f.reach([first], stop={m_.id for m_ in marks}, include_start=True)
                    leaves = [x for x in [header_first] + ends + [L.block_first(b) for b in L.bail] + f.returns() if x.id in r_]
                    rep.check(not leaves, 'R-C08-2w', '%s: writer state %d marks the stripe bad' % (fname, cv), first.loc(),
                              'bad mark on every path' if not leaves else 'a parity write error (state %d) reaches %s without any bad mark: the stripe, already recorded as synced, is saved as synced and healthy' % (cv, sorted({'line %s' % x.line for x in leaves})),
                              function=fname, construct='writer state %d without bad mark' % cv)
        # R-C08-4: writer results accumulated after the last io_write_next must be collected once the writers finished
        if cbs['writer']:
            readers_of_we = set()
            for g in P.defined():
                for i in g.all_insts():
                    if i.op == 'load' and 'writer_error[' in g.expr(['i', i.id]):
                        readers_of_we.add(g.name)
            post = []
            for e0 in ends:
                after = f.reach([e0])
                for c in f.calls():
                    if c.id in after and c.block not in L.body:
                        tg = P.call_targets(f, c)
                        if tg & readers_of_we:
                            post.append(c)
            rep.check(bool(post), 'R-C08-4', '%s: writer errors collected after the loop' % fname, ends[0].loc(),
                      'collected by %s' % [c.loc() for c in post] if post else 'no call after the stripe loop reads io->writer_error: errors of the last queued stripes never reach the verdict',
                      function=fname, construct='writer errors after the last io_write_next are never collected')
        verdict_rule(P, rep, 'R-C08-2v', fname)
        # R-C08-5
        for inc in L.increments('io_error'):
            if inc.block not in L.body:
                continue
        lim = []
        for b in L.body:
            t = f.term(b)
            if t.op == 'br' and len(t.ops) == 3:
                e = f.expr(t.ops[0])
                if 'io_error_limit' in e and 'io_error' in e:
                    ci = f.inst_of(t.ops[0])
                    tb = t.ops[2][1]
                    okb = ci.pred in ('uge', 'ugt') and any(x in L.bail for x in _reach_blocks(f, tb, L))
                    lim.append((t, okb))
        rep.check(bool(lim) and all(ok for _, ok in lim), 'R-C08-5', '%s: io_error >= io_error_limit leads to bail' % fname, f.file, '%d limit tests' % len(lim), function=fname, construct='error limit')

    # R-C08-3: writer result consumption in both implementations of the io_parity_write / writer thread
    g = P.fn('io_writer_thread')
    rep.analysed(g)
    st = list(g.calls('io_writer_step'))
    ok = bool(st) and any('latest_state' in g.expr(c.ops[1]) for c in st) and any(i.op == 'store' and g.expr(i.ops[1]) == '&latest_state' and g.expr(i.ops[0]).endswith('task->state') for i in g.all_insts())
    rep.check(ok, 'R-C08-3', 'thread mode: task->state after the writer callback is passed to io_writer_step', g.file, '', function='io_writer_thread', construct='writer state hand-over')
    # the state handed to io_writer_step must be produced in the same iteration: no path from one call to the next without a new assignment
    lst = [i for i in g.all_insts() if i.op == 'store' and g.expr(i.ops[1]) == '&latest_state' and g.loop_of(i.block) is not None]
    fresh = bool(st) and bool(lst) and not any(c.id in g.reach([c], stop={x.id for x in lst}) for c in st)
    rep.check(fresh, 'R-C08-3', 'thread mode: every iteration of the writer thread assigns the state it reports (no stale state counted twice)', g.file, '%d assignments in the loop' % len(lst), function='io_writer_thread', construct='stale writer state')
    ws = P.fn('io_writer_step')
    rep.analysed(ws)
    inc = [i for i in ws.all_insts() if i.op == 'store' and 'writer_error[' in ws.expr(i.ops[1])]
    if not inc:
        # the accounting may live in a helper called from io_writer_step (one level)
        for c_ in ws.calls():
            h_ = P.functions.get(c_.callee_full) if c_.callee_full else None
            if h_ is not None and not h_.decl:
                inc += [i for i in h_.all_insts() if i.op == 'store' and 'writer_error[' in h_.expr(i.ops[1])]
    rep.check(bool(inc), 'R-C08-3', 'thread mode: io_writer_step accumulates the state into io->writer_error', ws.file, '%d stores' % len(inc), function='io_writer_step', construct='accumulate')
    m = P.fn('io_parity_write_mono')
    rep.analysed(m)
    reads_state_after = False
    calls = [c for c in m.calls() if c.indirect]
    for c in calls:
        after = m.reach([c])
        for i in m.all_insts():
            if i.id in after and i.op == 'load' and m.expr(['i', i.id]).endswith('task->state'):
                reads_state_after = True
    rep.check(reads_state_after, 'R-C08-3', 'mono mode: task->state after the writer callback reaches io->writer_error', m.file,
              'state read after the callback: %s' % reads_state_after if reads_state_after else 'io_parity_write_mono calls the writer callback and never reads task->state: parity write errors are dropped in single-thread mode', function='io_parity_write_mono', construct='writer state dropped')
    # every variable subscript of io->writer_error[] is bounded by the array size (read from the type)
    from .C09 import value_bounded
    arr = P.distructs['snapraid_io']
    n = [mm for mm in arr['members'] if mm['name'] == 'writer_error'][0]['bits'] // 32
    for fn in ('io_parity_write_mono', 'io_write_next_mono', 'io_writer_step', 'io_write_next_thread', 'io_start_thread', 'io_start_mono'):
        if not P.has(fn):
            continue
        g = P.fn(fn)
        dg = dead_blocks(g)
        for i in g.all_insts():
            if i.op == 'getelementptr' and g.expr(['i', i.id]).startswith('&io->writer_error['):
                idx = i.ops[-1]
                if g.const_of(idx) is not None:
                    continue
                ok, det = value_bounded(g, idx, n - 1, i, dg)
                rep.check(ok, 'R-C08-3', '%s: io->writer_error[%s] within its %d entries' % (fn, g.expr(idx), n), i.loc(), det, function=fn, construct='writer_error indexed by worker' if not ok else 'writer_error index')
    # R-C08-6
    for f in P.defined():
        if not (f.file or '').startswith('cmdline/') or base(f.name) in STORAGE:
            continue
        for c in f.calls(STORAGE):
            tgt = P.functions.get(c.callee_full)
            if tgt is None or tgt.ret == 'void':
                continue
            br = first_cond_branch(f, c)
            ok = br is not None and br.op == 'br' and len(br.ops) == 3 and depends_on(f, br.ops[0], c.id)
            if not ok:
                # result returned to the caller directly?
                ok = any(u.op == 'ret' or (u.op == 'store' and f.expr(u.ops[1]) == '&retval') for u in f.users.get(c.id, ()))
            rep.check(ok, 'R-C08-6', '%s: %s' % (base(f.name), c.callee), c.loc(), 'result tested' if ok else 'result of %s is ignored' % c.callee, function=base(f.name), construct='ignored %s' % c.callee)
            rep.analysed(f)

    for fname in ('state_hash_process', 'state_dry_process', 'state_check_process'):
        verdict_rule(P, rep, 'R-C08-2v', fname)
    full_transfer_rule(P, rep)
    sticky_failure_rule(P, rep)
    errno_class_rule(P, rep, 'R-C08-10')
    writer_error_scan_rule(P, rep, 'R-C08-1w')
    from .C13 import writer_error_clear_after_report_rule
    writer_error_clear_after_report_rule(P, rep, 'R-C08-3c')
    writer_report_unconditional_rule(P, rep, 'R-C08-3r')
    from .C04 import scrub_marking_rule
    rep.rule('R-C08-4m', 'scrub marking: a stripe with an i/o (or silent) error is marked bad whatever other errors it has; refresh only when clean', 3)
    scrub_marking_rule(P, rep, 'R-C08-4m')
    from .C15 import dirty_bit_rule
    dirty_bit_rule(P, rep, 'R-C08-9', 'state_scrub_process', {'info_set'})

def full_transfer_rule(P, rep, rid='R-C08-7'):
    """partial transfers are never success: a block write is accepted only when the byte count returned equals the
    count requested; a block read treats <0 and 0 as errors and loops until the wanted size is accumulated"""
    rep.rule(rid, 'block transfer primitives: a write succeeds only if the returned count equals the requested count; a read fails on <0 and on 0 and accumulates until the wanted size', 7)
    def local_of(f, call):
        for u in f.users.get(call.id, ()):
            if u.op == 'store':
                return f.expr(u.ops[1]).lstrip('&')
        return None
    def succ_true(t): return t.ops[2][1]
    def succ_false(t): return t.ops[1][1]
    for fn, prim, kind in (('handle_write', 'pwrite', 'w'), ('parity_write', 'pwrite', 'w'), ('sflush', 'write', 'w'), ('handle_read', 'pread', 'r'), ('parity_read', 'pread', 'r')):
        root = P.fn(fn)
        from .C05 import locate_in_helpers
        f = locate_in_helpers(P, root, lambda g_: any(True for _ in g_.calls(prim))) or root
        rep.analysed(f)
        cs = list(f.calls(prim))
        if len(cs) != 1:
            raise AnalysisBroken('%s: expected one %s call, found %d' % (fn, prim, len(cs)))
        if f is not root:
            # the transfer loop was split out into a static helper: its failure must be tested where it is called
            hc = [x for x in root.calls() if x.callee_full == f.name]
            tested = bool(hc) and all(any(u.op in ('icmp', 'store') for u in root.users.get(x.id, ())) for x in hc)
            rep.check(tested, rid, '%s: the result of the helper %s is used' % (fn, base(f.name)), (hc[0] if hc else root.blocks[0][0]).loc(), 'helper result kept / tested' if tested else 'the helper that performs the transfer reports failures, its caller drops them', function=fn, construct='helper result')
            fn = base(f.name)
        c = cs[0]
        var = local_of(f, c)
        if var is None:
            rep.fail(rid, '%s: result of %s' % (fn, prim), c.loc(), 'the byte count returned by %s is not kept' % prim, function=fn, construct='%s result' % prim)
            continue
        want = f.expr(c.ops[2])
        brs = []
        for b in range(len(f.blocks)):
            t = f.term(b)
            if t.op == 'br' and len(t.ops) == 3:
                ci = f.inst_of(t.ops[0])
                if ci is not None and ci.op == 'icmp' and var in (f.expr(ci.ops[0]), f.expr(ci.ops[1])) and c.id in f.reach([f.entry()], include_start=True) and t.id in f.reach([c]):
                    brs.append((t, ci))
        if kind == 'w':
            ok = False; det = 'no comparison of %s with the requested count %s' % (var, want)
            for t, ci in brs:
                other = f.expr(ci.ops[1]) if f.expr(ci.ops[0]) == var else f.expr(ci.ops[0])
                if other == want and ci.pred in ('eq', 'ne'):
                    bad_edge = succ_true(t) if ci.pred == 'ne' else succ_false(t)
                    good_edge = succ_false(t) if ci.pred == 'ne' else succ_true(t)
                    # the unequal outcome never continues as success: it cannot reach the success continuation
                    r = f.reach([f.blocks[bad_edge][0]], include_start=True)
                    ok = f.blocks[good_edge][0].id not in r and bad_edge != good_edge
                    det = '%s %s %s; unequal outcome %s' % (var, ci.pred, want, 'fails' if ok else 'continues as success')
            rep.check(ok, rid, '%s: %s returning a short count is an error' % (fn, prim), c.loc(), det, function=fn, construct='short %s' % prim)
        else:
            acc = [i for i in f.all_insts() if i.op == 'store' and f.inst_of(i.ops[0]) is not None and f.inst_of(i.ops[0]).op == 'add' and var in f.expr(i.ops[0])]
            # tests of the result against 0, whatever their spelling (== 0, !x, < 0, >= 0 with the branches swapped): the edge taken
            # by a negative result and the edge taken by 0 are found by evaluating the comparison
            from .C17 import _icmp
            def edge_of(t, ci, v):
                return succ_true(t) if _icmp(ci.pred, v, 0) else succ_false(t)
            tests = [(t, ci) for t, ci in brs if f.const_of(ci.ops[1]) == 0 and ci.pred in ('eq', 'ne', 'slt', 'sle', 'sgt', 'sge')]
            neg = [(t, ci) for t, ci in tests if edge_of(t, ci, -1) != edge_of(t, ci, 1)]
            zero = [(t, ci) for t, ci in tests if edge_of(t, ci, 0) != edge_of(t, ci, 1)]
            okn = bool(acc) and bool(neg) and any(acc[0].id not in f.reach([f.blocks[edge_of(t, ci, -1)][0]], include_start=True, stop={c.id}) for t, ci in neg)
            okz = bool(acc) and bool(zero) and any(acc[0].id not in f.reach([f.blocks[edge_of(t, ci, 0)][0]], include_start=True, stop={c.id}) for t, ci in zero)
            rep.check(okn and okz, rid, '%s: %s < 0 and == 0 are errors (never accumulated)' % (fn, prim), c.loc(), 'negative handled: %s; end of file handled: %s' % (okn, okz), function=fn, construct='%s error results' % prim)
            h = f.loop_of(c.block)
            okl = False; det = 'the read is not inside a loop'
            if h is not None and acc:
                cnt = f.expr(acc[0].ops[1]).lstrip('&')
                for b in f.loops[h]:
                    t = f.term(b)
                    if t.op == 'br' and len(t.ops) == 3 and h in (succ_true(t), succ_false(t)) or (t.op == 'br' and len(t.ops) == 3 and any(s_ not in f.loops[h] for s_ in (succ_true(t), succ_false(t)))):
                        ci = f.inst_of(t.ops[0])
                        if ci is None or ci.op != 'icmp':
                            continue
                        # `count < wanted` in any spelling: wanted > count, !(count >= wanted) with the branches swapped
                        a_, b_ = f.expr(ci.ops[0]), f.expr(ci.ops[1])
                        pred = ci.pred
                        if b_ == cnt and a_ != cnt:
                            a_, b_ = b_, a_
                            pred = {'ult': 'ugt', 'ugt': 'ult', 'slt': 'sgt', 'sgt': 'slt', 'ule': 'uge', 'uge': 'ule', 'sle': 'sge', 'sge': 'sle'}.get(pred, pred)
                        if a_ != cnt:
                            continue
                        if pred in ('ult', 'slt'):
                            cont = succ_true(t)
                        elif pred in ('uge', 'sge'):
                            cont = succ_false(t)
                        else:
                            continue
                        okl = cont in f.loops[h]
                        det = 'loop continues while %s < %s' % (cnt, b_)
            rep.check(okl, rid, '%s: reads are accumulated until the wanted size' % fn, c.loc(), det, function=fn, construct='%s loop' % prim)


def _reach_blocks(f, b, L):
    seen = set()
    st = [b]
    while st:
        x = st.pop()
        if x in seen:
            continue
        seen.add(x)
        if x in L.bail:
            continue
        st.extend(f.succ[x])
    return seen


def sticky_failure_rule(P, rep, rid='R-C08-8'):
    """functions that apply one operation to every split file of a parity level (fsync, ftruncate, close): a failure on any split
    makes the function fail -- either it returns at once, or it records the failure in a variable that only ever receives
    constants (so a later success cannot erase it) and that is what the function returns"""
    rep.rule(rid, 'per-split operations (parity_sync / parity_truncate / parity_close): a failure on any split file reaches the return value and cannot be overwritten by a later success', 3)
    table = (('parity_sync', 'fsync'), ('parity_truncate', 'ftruncate'), ('parity_close', 'close'))
    for fn, prim in table:
        f = P.fn(fn)
        rep.analysed(f)
        calls = [c for c in f.calls(prim) if f.loop_of(c.block) is not None]
        if not calls:
            raise AnalysisBroken('%s: no %s call inside a loop over the splits' % (fn, prim))
        for c in calls:
            h = f.loop_of(c.block)
            brs = cond_branches(f, c)
            if not brs:
                rep.fail(rid, '%s: result of %s' % (fn, prim), c.loc(), 'the result of %s is not tested' % prim, function=fn, construct='%s unchecked' % prim)
                continue
            br, ci = brs[0]
            fail_edge = br.ops[2][1] if ci.pred == 'ne' else br.ops[1][1]
            # accumulators: int locals (and retval) whose every store is a constant
            acc = {}
            for i in f.all_insts():
                if i.op == 'store':
                    tgt = f.strip(i.ops[1])
                    if tgt[0] == 'i' and f.insts[tgt[1]].op == 'alloca':
                        acc.setdefault(tgt[1], []).append(i)
            sticky = {a for a, sts in acc.items() if all(f.const_of(x.ops[0]) is not None for x in sts)}
            # what the function returns: retval directly, or a load of a sticky local stored into retval
            returned = set()
            for a, sts in acc.items():
                if (f.insts[a].var or f.insts[a].name or '') == 'retval':
                    returned.add(a)
                    for x in sts:
                        v = f.inst_of(x.ops[0])
                        if v is not None and v.op == 'load':
                            al = f.strip(v.ops[0])
                            if al[0] == 'i':
                                returned.add(al[1])
            if not returned:
                # single return of a loaded local without a retval slot
                for r_ in f.returns():
                    v = f.inst_of(r_.ops[0]) if r_.ops else None
                    if v is not None and v.op == 'load' and f.strip(v.ops[0])[0] == 'i':
                        returned.add(f.strip(v.ops[0])[1])
            marks = [x for a in returned for x in acc.get(a, []) if (f.const_of(x.ops[0]) or 0) != 0 and (a in sticky or (f.insts[a].var or f.insts[a].name or '') == 'retval')]
            esc = f.reach([f.blocks[fail_edge][0]], stop={x.id for x in marks}, include_start=True)
            lost = []
            if f.blocks[h][0].id in esc:
                lost.append('the next split')
            if any(r_.id in esc for r_ in f.returns()):
                lost.append('the return')
            overwritable = [f.insts[a].var for a in returned if a not in sticky and (f.insts[a].var or '') != 'retval']
            ok = not lost and not overwritable
            rep.check(ok, rid, '%s: a failing %s makes the function fail' % (fn, prim), c.loc(),
                      'failure recorded in a constant-only accumulator or returned at once' if ok else ('the failure can reach %s unrecorded' % ' and '.join(lost) if lost else 'the returned variable %s is also assigned non-constant values in the loop: a later success overwrites an earlier failure' % overwritable),
                      function=fn, construct='%s failure sticky' % prim)


def cond_branches(f, call):
    """conditional branches steered by a comparison of the call result (directly or through the local it is stored in) with 0"""
    res = []
    cands = {call.id}
    names = set()
    for u in f.users.get(call.id, ()):
        if u.op == 'store':
            t = f.strip(u.ops[1])
            if t[0] == 'i':
                names.add(t[1])
    for b in range(len(f.blocks)):
        t = f.term(b)
        if t.op == 'br' and len(t.ops) == 3:
            ci = f.inst_of(t.ops[0])
            if ci is not None and ci.op == 'icmp' and ci.pred in ('ne', 'eq') and f.const_of(ci.ops[1]) == 0:
                v = f.inst_of(ci.ops[0])
                if v is not None and (v.id in cands or (v.op == 'load' and f.strip(v.ops[0])[0] == 'i' and f.strip(v.ops[0])[1] in names)) and t.id in f.reach([call]):
                    res.append((t, ci))
    return res


# counters that are not failures of the run: a block fix repaired is reported, not failed; partial_recover_error is added to error
NOT_A_FAILURE = {'recovered_error', 'partial_recover_error'}


def verdict_rule(P, rep, rid, fname):
    """every error counter the engine increments (locals named *error that are incremented by one) takes part in a branch that
    decides the failing return: a counter left out of the verdict turns that class of errors into exit status 0"""
    import re as _re
    f = P.fn(fname)
    rep.analysed(f)
    counters = set()
    for a_ in f.all_insts():
        if a_.op != 'alloca' or a_.id in f.arg_allocas() or not a_.var or not _re.search(r'(^|_)error$', a_.var) or a_.var in NOT_A_FAILURE:
            continue
        for u in f.users.get(a_.id, ()):
            if u.op == 'store' and f.strip(u.ops[1]) == ['i', a_.id]:
                v = f.inst_of(u.ops[0])
                if v is not None and v.op == 'add' and f.const_of(v.ops[1]) == 1 and f.inst_of(v.ops[0]) is not None and f.inst_of(v.ops[0]).op == 'load' and f.strip(f.inst_of(v.ops[0]).ops[0]) == ['i', a_.id]:
                    counters.add(a_.var)
    if not counters:
        raise AnalysisBroken('%s: no error counter found' % fname)
    rets = [i for i in f.all_insts() if i.op == 'store' and f.expr(i.ops[1]) == '&retval' and f.const_of(i.ops[0]) == -1]
    used = set()
    conds = []
    for b in range(len(f.blocks)):
        t = f.term(b)
        if t.op == 'br' and len(t.ops) == 3 and any(f.bdominates(s_, r.block) for r in rets for s_ in t.succ):
            conds.append(t.ops[0])
    # `return cond ? -1 : 0;`: the returned value is a select (or the phi of a short conditional) with -1 on one arm
    for r_ in [x for x in f.all_insts() if (x.op == 'ret' and x.ops) or (x.op == 'store' and f.expr(x.ops[1]) == '&retval')]:
        v = f.inst_of(r_.ops[0])
        if v is not None and v.op == 'select' and -1 in (f.const_of(v.ops[1]), f.const_of(v.ops[2])):
            conds.append(v.ops[0]); rets.append(r_)
        elif v is not None and v.op == 'phi' and any(f.const_of(o_) == -1 for o_ in v.ops):
            rets.append(r_)
            for pb in v.inc:
                for q in [pb] + list(f.pred[pb]):
                    tq = f.term(q)
                    if tq.op == 'br' and len(tq.ops) == 3:
                        conds.append(tq.ops[0])
    for c_ in conds:
        e = f.xexpr(c_)
        for cn in counters:
            if _re.search(r'(?<![a-z_])%s(?![a-z_])' % cn, e):
                used.add(cn)
    rep.check(used == counters and bool(rets), rid, '%s: return -1 depends on %s' % (fname, ', '.join(sorted(counters))), rets[0].loc() if rets else f.file,
              'counters in the verdict: %s' % sorted(used) if used == counters and rets else 'the failing return does not depend on %s (it tests %s): those errors end with a successful exit status' % (sorted(counters - used), sorted(used)),
              function=fname, construct='verdict')


ERRNO_NEUTRAL = {'strerror', '__errno_location', 'llvm.dbg.declare', 'llvm.dbg.value', 'llvm.va_start', 'llvm.va_end'}
# libc calls whose failure IS the error being reported (their errno is the one the caller must see)
IO_CALLS = {'pread', 'pwrite', 'read', 'write', 'open', 'open_noatime', 'fstat', 'close', 'lseek', 'fsync', 'ftruncate', 'fallocate', 'posix_fadvise'}


def errno_transparent(g):
    """g saves errno on entry and restores it before every return, with no call after the restoring store"""
    saved = None
    for i in g.blocks[0] if g.blocks else []:
        if i.op == 'store':
            v = g.inst_of(i.ops[0])
            if v is not None and v.op == 'load':
                c = g.inst_of(v.ops[0])
                a = g.inst_of(i.ops[1])
                if c is not None and c.op == 'call' and c.callee == '__errno_location' and a is not None and a.op == 'alloca':
                    saved = a.id
    if saved is None:
        return False
    restores = []
    for i in g.all_insts():
        if i.op == 'store':
            v = g.inst_of(i.ops[0]); c = g.inst_of(i.ops[1])
            if v is not None and v.op == 'load' and g.strip(v.ops[0]) == ['i', saved] and c is not None and c.op == 'call' and c.callee == '__errno_location':
                restores.append(i)
    if not restores:
        return False
    for r in g.returns():
        if not g.must_pass(r, restores):
            return False
    # nothing is called after a restore
    after = g.reach(restores)
    return not any(c.id in after and (c.callee or '') not in ERRNO_NEUTRAL and not (c.callee or '').startswith('llvm.') for c in g.calls())


def errno_class_rule(P, rep, rid):
    """the reader / writer callbacks classify a failure of the storage layer as i/o error (stripe marked bad) or generic error by
    testing errno == EIO AFTER handle_read / handle_open / parity_read / parity_write returned.  Between the failing system call and
    the return those functions report the error through the logging functions: if a logging function can change errno (log file on a
    full file-system: ENOSPC), the EIO is lost, the error is counted as a generic file error and the stripe is not marked bad.  Rule:
    every function called in the storage function after its i/o call, on a path to a return, is errno-neutral or saves and restores
    errno."""
    rep.rule(rid, 'storage functions whose failure is classified by errno in the callers: everything they call between the failing i/o call and the return preserves errno', 4)
    # the storage functions concerned: defined callees whose result precedes an `errno == EIO` test in a caller
    S = {}
    for f in P.defined():
        if not (f.file or '').startswith('cmdline/'):
            continue
        for i in f.all_insts():
            if i.op != 'icmp' or f.const_of(i.ops[1]) != 5:
                continue
            li = f.inst_of(i.ops[0])
            c = f.inst_of(li.ops[0]) if li is not None and li.op == 'load' else None
            if c is None or c.op != 'call' or c.callee != '__errno_location':
                continue
            cands = [x for x in f.calls() if x.callee_full in P.functions and not P.functions[x.callee_full].decl and f.dominates(x, i)]
            if cands:
                last = max(cands, key=lambda x: sum(1 for y in cands if f.dominates(y, x)))
                S.setdefault(last.callee_full, []).append((f, i))
    if len(S) < 4:
        raise AnalysisBroken('errno classification sites not recognised (%s)' % sorted(S))
    memo = {}
    for name in sorted(S):
        F = P.functions[name]
        rep.analysed(F)
        ios = [c for c in F.calls() if (c.callee or '') in IO_CALLS]
        after_io = F.reach(ios) if ios else set()
        # the failure-only part of the function: blocks from which no assignment of a non-failing result is reachable
        okst = [i for i in F.all_insts() if i.op == 'store' and F.expr(i.ops[1]) == '&retval' and F.const_of(i.ops[0]) != -1]
        if not okst:
            raise AnalysisBroken('%s: success result not recognised' % name)
        fail_only = set()
        for b in range(len(F.blocks)):
            r_ = F.reach([F.blocks[b][0]], include_start=True)
            if not any(x.id in r_ for x in okst):
                fail_only.add(b)
        offenders = []
        for c in F.calls():
            if c.id not in after_io or c.block not in fail_only or not any(r.id in F.reach([c]) for r in F.returns()):
                continue
            cal = c.callee or ''
            if cal in ERRNO_NEUTRAL or cal.startswith('llvm.') or cal in IO_CALLS:
                continue
            targets = [P.functions[c.callee_full]] if c.callee_full in P.functions else []
            if c.callee is None:
                targets = [P.functions[t] for t in P.indirect_targets(F, c) if t in P.functions]
                if not targets:
                    # function pointer parameter: every function whose address is passed for it by the callers
                    ai = F.strip(c.target) if c.target else None
                    targets = []
                    for g_, _ in S[name]:
                        for cc in g_.calls():
                            if cc.callee_full == name:
                                for o in cc.ops:
                                    so = g_.strip(o)
                                    if so[0] == 'f' and so[1] in P.functions:
                                        targets.append(P.functions[so[1]])
            if not targets:
                offenders.append((c, cal or 'indirect call'))
                continue
            for t in targets:
                if t.decl:
                    offenders.append((c, base(t.name)))
                    continue
                if t.name not in memo:
                    memo[t.name] = errno_transparent(t)
                if not memo[t.name]:
                    offenders.append((c, base(t.name)))
        who = sorted({base(g_.name) for g_, _ in S[name]})
        errno_defined_at_failure(P, rep, rid + 'd', F, who, S)
        rep.check(not offenders, rid, '%s (errno tested by %s)' % (base(name), ', '.join(who)), (offenders[0][0] if offenders else F.blocks[0][0]).loc(),
                  '%d i/o calls; every later call on a path to a return preserves errno' % len(ios) if not offenders else 'after the i/o call, %s is called (line %s) and does not preserve errno: when it fails itself (log on a full file-system) the caller sees its errno instead of EIO, counts a generic error and does not mark the stripe bad' % (offenders[0][1], offenders[0][0].line),
                  function=base(name), construct='errno preserved until the caller tests it')


def errno_defined_at_failure(P, rep, rid, F, who, S):
    """the callers read errno after a -1 result whatever made the function fail: a failing return that is reached without any system
    call and without an assignment to errno (`the file is shorter than recorded`, a logical failure) leaves in errno what an EARLIER,
    unrelated call of the same thread put there.  After one real EIO anywhere on the disk every later short file is classified as an
    input/output error and its stripes are marked bad although only the file changed.  Rule: every path from the entry to a failing
    result passes a system call of the storage layer, a storage function that obeys the same rule, or a store to errno."""
    if rid not in rep.rules:
        rep.rule(rid, 'storage functions whose failure is classified by errno in the callers: every path to a failing result passes an i/o system call or an assignment to errno (no stale errno is handed to the caller)', 4)
    fails = [i for i in F.all_insts() if i.op == 'store' and F.expr(i.ops[1]) == '&retval' and F.const_of(i.ops[0]) == -1]
    if not fails:
        raise AnalysisBroken('%s: failing result not recognised' % F.name)
    from .C09 import depends_on
    cg = P.callgraph()
    RW = {'pread', 'pwrite', 'read', 'write', 'lseek'}

    def sets_errno_on_failure(c):
        cal = c.callee or ''
        if cal in IO_CALLS:
            return True
        if c.callee_full in P.functions and not P.functions[c.callee_full].decl:
            # a function of the program that ends in a system call (advise_read, parity_split_find is not one): assumed to follow the
            # errno convention of the storage layer when its failure is a failed system call
            return any(base(x) in IO_CALLS for x in P.reachable([c.callee_full], cg))
        return False
    calls = [c for c in F.calls() if sets_errno_on_failure(c)]
    cut = set()
    for b_ in range(len(F.blocks)):
        t = F.term(b_)
        if t.op != 'br' or len(t.ops) != 3:
            continue
        ci = F.inst_of(t.ops[0])
        if ci is None or ci.op != 'icmp':
            continue
        k = F.const_of(ci.ops[1])
        src = [c for c in calls if depends_on(F, ci.ops[0], c.id)]
        if not src or k is None:
            continue
        status_only = all((c.callee or '') not in RW for c in src)
        fe = None                       # the edge taken when the call failed (ops[1] = false target, ops[2] = true target)
        if ci.pred == 'slt' and k == 0 or ci.pred == 'eq' and k in (-1, 0xffffffff, 0xffffffffffffffff):
            fe = t.ops[2][1]
        elif ci.pred == 'sge' and k == 0 or ci.pred == 'ne' and k in (-1, 0xffffffff, 0xffffffffffffffff):
            fe = t.ops[1][1]
        elif status_only and ci.pred == 'ne' and k == 0:
            fe = t.ops[2][1]
        elif status_only and ci.pred == 'eq' and k == 0:
            fe = t.ops[1][1]
        if fe is not None:
            cut.add((t.id, fe))
    stops = set()
    for i in F.all_insts():
        if i.op == 'store':
            t = F.inst_of(i.ops[1])
            if t is not None and t.op == 'call' and t.callee == '__errno_location':
                stops.add(i.id)
    r_ = F.reach([F.entry()], stop=stops, cut_edges=cut, include_start=True)
    bad = [x for x in fails if x.id in r_]
    bad.sort(key=lambda x: x.line or 0)
    rep.check(not bad, rid, '%s (errno tested by %s): errno is defined at every failing result' % (base(F.name), ', '.join(who)), (bad[0] if bad else fails[0]).loc(),
              '%d failing results, each behind a system call or an errno assignment' % len(fails) if not bad else 'the failing result(s) at line %s are reached without a failed system call and without assigning errno (a logical failure: file shorter than recorded / position beyond the valid size): the caller classifies it with the errno left by an earlier, unrelated call -- after one EIO on the disk every file changed since the sync is counted as an input/output error and its stripes are marked bad' % ', '.join(str(x.line) for x in bad),
              function=base(F.name), construct='stale errno at a failing result')


def writer_error_scan_rule(P, rep, rid):
    """io_write_next reports the errors of the parity writers in an array indexed by error KIND (IO_WRITER_ERROR_MAX entries).  The
    loop of the engine that reads it must visit every entry: bounded by anything smaller (the number of parity levels, say), the kinds
    behind the bound -- a parity write failing with ENOSPC -- are never looked at and sync ends "Everything OK"."""
    import re
    f = P.fn('state_sync_process')
    rep.analysed(f)
    rep.rule(rid, 'state_sync_process: the loop over the writer error array visits all its entries (bound = length of the array) and tests nothing but the entry and the counter on the way to the error counters', 2)
    wn = [c for c in f.calls() if c.callee == 'io_write_next' or (c.callee is None and c.target and f.expr(c.target) == 'io_write_next')]
    arr = [a for a in f.all_insts() if a.op == 'alloca' and a.id not in f.arg_allocas() and any(any(f.strip(o) == ['i', a.id] or (f.inst_of(o) is not None and f.inst_of(o).op == 'getelementptr' and f.strip(f.inst_of(o).ops[0]) == ['i', a.id]) for o in c.ops) for c in wn)]
    arr = [a for a in arr if re.match(r'\[(\d+) x i32\]', a.ty or '')]
    if len(arr) != 1:
        raise AnalysisBroken('state_sync_process: writer error array not found')
    n = int(re.match(r'\[(\d+) x', arr[0].ty).group(1))
    # loops whose body reads arr[counter]
    from .C17 import _icmp
    checked = 0
    for h, body in f.loops.items():
        reads = [i for i in f.all_insts() if i.block in body and i.op == 'getelementptr' and f.strip(i.ops[0]) == ['i', arr[0].id] and len(i.ops) == 3 and f.const_of(i.ops[2]) is None]
        if not reads or any(h2 != h and h2 in body and any(r.block in f.loops[h2] for r in reads) for h2 in f.loops):
            continue
        t = f.term(h)
        ci = f.inst_of(t.ops[0]) if t.op == 'br' and len(t.ops) == 3 else None
        if ci is None or ci.op != 'icmp':
            continue
        checked += 1
        k = f.const_of(ci.ops[1])
        if k is None:
            rep.check(False, rid, 'bound of the loop over the writer errors', t.loc(), 'the loop is bounded by %s, not by the length %d of the array: error kinds behind that bound are never examined (with 1-3 parity levels a parity write failing with ENOSPC is ignored and sync exits 0)' % (f.xexpr(ci.ops[1]), n), function='state_sync_process', construct='writer error loop bound')
            continue
        stay_true = t.ops[2][1] in body or t.ops[2][1] == h
        visited = [v for v in range(0, n + 3) if _icmp(ci.pred, v, k) == stay_true]
        rep.check(visited == list(range(n)), rid, 'bound of the loop over the writer errors', t.loc(), 'visits entries %s of %d' % (visited, n), function='state_sync_process', construct='writer error loop bound')
        # what the writers report belongs to EARLIER stripes (the queue is io_max deep): whether the present stripe writes parity or
        # not, has errors or not, says nothing about them.  Inside the loop the way to the error counters may depend only on the
        # array entry and on the loop counter
        li = f.inst_of(ci.ops[0])
        cnt = f.insts[f.strip(li.ops[0])[1]] if li is not None and li.op == 'load' and f.strip(li.ops[0])[0] == 'i' else None
        names = [x for x in ((arr[0].var or ''), (cnt.var if cnt is not None else '') or '') if x]
        foreign = []
        for b in body:
            if b == h:
                continue
            tb = f.term(b)
            if tb.op != 'br' or len(tb.ops) != 3:
                continue
            e = f.xexpr(tb.ops[0])
            if any(re.search(r'\b%s\b' % re.escape(nm), e) for nm in names):
                continue
            # a local that holds a function of the counter (`unsigned kind = j + BASE; if (kind == ...)`)
            roots = {arr[0].id} | ({cnt.id} if cnt is not None else set())
            def from_roots(o, depth=0, seen_=None):
                seen_ = seen_ if seen_ is not None else set()
                o = f.strip(o)
                if o[0] != 'i' or depth > 12 or o[1] in seen_:
                    return False
                seen_.add(o[1])
                i_ = f.insts[o[1]]
                if i_.op == 'load':
                    a_ = f.strip(i_.ops[0])
                    if a_[0] == 'i' and a_[1] in roots:
                        return True
                    if a_[0] == 'i' and f.insts[a_[1]].op == 'getelementptr':
                        return from_roots(f.insts[a_[1]].ops[0], depth + 1, seen_)
                    if a_[0] == 'i' and f.insts[a_[1]].op == 'alloca':
                        return any(u.op == 'store' and f.strip(u.ops[1]) == a_ and from_roots(u.ops[0], depth + 1, seen_) for u in f.users.get(a_[1], ()))
                    return False
                if i_.op in ('call', 'alloca'):
                    return i_.op == 'alloca' and i_.id in roots
                return any(from_roots(x, depth + 1, seen_) for x in i_.ops)
            if from_roots(tb.ops[0]):
                continue
            # does it decide whether a counter of the loop is reached?
            incs = [i for i in f.all_insts() if i.block in body and i.op == 'store' and f.inst_of(i.ops[0]) is not None and f.inst_of(i.ops[0]).op == 'add' and f.expr(i.ops[1]).lstrip('&') in ('io_error', 'error', 'silent_error')]
            if any(sum(1 for s_ in tb.succ if f.edge_dominates(tb, s_, i)) == 1 for i in incs):
                foreign.append((tb, e))
        rep.check(not foreign, rid, 'the writer errors are examined whatever the present stripe does', (foreign[0][0] if foreign else t).loc(),
                  'inside the loop only the array entry and the counter are tested' if not foreign else 'the errors reported by the writers are looked at only when %s: they belong to stripes queued earlier, and when they surface at a stripe for which the condition is false they are consumed by io_write_next and dropped -- sync ends "Everything OK" after a failed parity write' % foreign[0][1][:80],
                  function='state_sync_process', construct='writer errors examined conditionally')
    if not checked:
        raise AnalysisBroken('state_sync_process: loop over the writer error array not found')


def writer_error_counted_rule(P, rep, rid):
    """io_write_next hands over, per error kind, HOW MANY parity writes failed since the previous call.  Single-threaded that can only
    be the present stripe; with write-behind threads it covers every stripe the writers completed meanwhile.  Adding 1 per
    collection makes the error total -- and with it the stop at the -L limit -- depend on the interleaving.  Rule: in the loop over
    the writer errors every counter is advanced by the array entry."""
    import re
    f = P.fn('state_sync_process')
    rep.analysed(f)
    rep.rule(rid, 'state_sync_process: the error counters are advanced by the number of failed writes reported (writer_error[j]), not by one per collection', 2)
    wn = [c for c in f.calls() if c.callee == 'io_write_next' or (c.callee is None and c.target and f.expr(c.target) == 'io_write_next')]
    arr = [a for a in f.all_insts() if a.op == 'alloca' and a.id not in f.arg_allocas() and any(any(f.strip(o) == ['i', a.id] or (f.inst_of(o) is not None and f.inst_of(o).op == 'getelementptr' and f.strip(f.inst_of(o).ops[0]) == ['i', a.id]) for o in c.ops) for c in wn)]
    arr = [a for a in arr if re.match(r'\[(\d+) x i32\]', a.ty or '')]
    if len(arr) != 1:
        raise AnalysisBroken('state_sync_process: writer error array not found')
    n = 0
    for h, body in f.loops.items():
        reads = [i for i in f.all_insts() if i.block in body and i.op == 'getelementptr' and f.strip(i.ops[0]) == ['i', arr[0].id] and len(i.ops) == 3 and f.const_of(i.ops[2]) is None]
        if not reads or any(h2 != h and h2 in body and any(r.block in f.loops[h2] for r in reads) for h2 in f.loops):
            continue
        for i in f.all_insts():
            if i.block not in body or i.op != 'store':
                continue
            v = f.inst_of(i.ops[0])
            tgt = f.expr(i.ops[1]).lstrip('&')
            if v is None or v.op != 'add' or tgt not in ('io_error', 'error', 'silent_error'):
                continue
            n += 1
            step = [o for o in v.ops if f.expr(o) != tgt]
            by_entry = bool(step) and all((arr[0].var or 'writer_error') + '[' in f.xexpr(o) for o in step)
            rep.check(by_entry, rid, '%s advanced by the reported count' % tgt, i.loc(),
                      '%s += %s' % (tgt, f.xexpr(step[0]) if step else '?') if by_entry else '%s is advanced by %s for a collection that may report several failed writes: two failed stripes count as 2 single-threaded and as 1 when the writer thread completes both before the next collection; the stop at the error limit (-L) is taken or not depending on the interleaving' % (tgt, f.xexpr(step[0]) if step else '?'),
                      function='state_sync_process', construct='%s per collection' % tgt)
    if n < 2:
        raise AnalysisBroken('state_sync_process: counters of the writer error loop not found (%d)' % n)


def writer_report_unconditional_rule(P, rep, rid):
    """io_write_next hands the errors of the parity writers to the engine (and clears them).  It must do so on every call, also for a
    stripe whose parity write is skipped: errors delivered only together with a scheduled write are lost when every stripe after the
    failing one is skipped (a new small file followed by stripes that only changed their time-stamp), and sync ends "Everything OK"."""
    rep.rule(rid, 'io_write_next (both engines): every path to the return reads io->writer_error[] into the caller\'s array, whatever `skip` is', 2)
    n = 0
    for f in P.defined():
        if not (f.file or '').endswith('io.c') or not base(f.name).startswith('io_write_next'):
            continue
        rd = [i for i in f.all_insts() if i.op == 'load' and 'io->writer_error[' in f.expr(['i', i.id])]
        if not rd:
            continue
        n += 1
        rep.analysed(f)
        # the reads sit in a copy loop: passing the header of that loop counts (a loop with a constant trip count is always entered)
        thru = list(rd) + [f.blocks[f.loop_of(r.block)][0] for r in rd if f.loop_of(r.block) is not None]
        miss = [r for r in f.returns() if not f.must_pass(r, thru)]
        rep.check(not miss, rid, '%s reports the writer errors on every path' % base(f.name), rd[0].loc(),
                  '%d reading sites, every return passes one' % len(rd) if not miss else 'a path reaches the return without reading io->writer_error[] (the report depends on whether this stripe schedules a write): the error of an earlier parity write is delivered only by a later call that writes, or never',
                  function=base(f.name), construct='writer errors reported conditionally')
    if n < 1:
        raise AnalysisBroken('io_write_next implementations that read io->writer_error not found')
