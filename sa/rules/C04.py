"""C04 — every silent corruption of synced data or parity is detected and located (detection structure)."""
from ..stripe import StripeLoop
from ..frontend import AnalysisBroken
from ..ir import base
from .C09 import dead_blocks


def cond_branches_on_call(f, call):
    """conditional branches whose condition derives from the result of `call`"""
    res = []
    work = [call.id]
    seen = set()
    while work:
        x = work.pop()
        if x in seen:
            continue
        seen.add(x)
        for u in f.users.get(x, ()):
            if u.op in ('icmp', 'zext', 'trunc', 'xor', 'and', 'sext', 'bitcast', 'ptrtoint', 'phi', 'select'):
                # phi / select: `c ? call() : -1`
                work.append(u.id)
            elif u.op == 'store' and f.strip(u.ops[0]) in (['i', x], f.strip(['i', x])):
                a = f.strip(u.ops[1])
                if a[0] == 'i' and f.insts[a[1]].op == 'alloca':
                    r = f.reach([u])
                    for ld in f.users.get(a[1], ()):
                        if ld.op == 'load' and ld.id in r:
                            work.append(ld.id)
            elif u.op == 'br' and len(u.ops) == 3:
                res.append((u, f.insts[x]))
    return res


def mismatch_edge(f, br, cmpi):
    """successor taken when memcmp(...) != 0"""
    if cmpi.op == 'icmp':
        k = f.const_of(cmpi.ops[1])
        if k == 0:
            return (br.ops[2][1], br.ops[1][1]) if cmpi.pred == 'ne' else (br.ops[1][1], br.ops[2][1])
    return None


def hash_compares(f):
    """memcmp(hash, X->hash, BLOCK_HASH_SIZE) sites"""
    res = []
    for c in f.calls('memcmp'):
        a = [f.expr(o) for o in c.ops]
        if any(x.endswith('->hash[0]') or x.endswith('->hash') for x in a[:2]):
            res.append(c)
    return res


def hash_length_rule(P, rep, rid):
    """every comparison of a computed hash with a block's recorded hash covers exactly the configured hash size (BLOCK_HASH_SIZE):
    a constant length (sizeof of the 16-byte buffer) compares bytes the content file never recorded when `hashsize` is smaller"""
    rep.rule(rid, 'every memcmp against block->hash uses the run-time hash size BLOCK_HASH_SIZE as its length (check, scrub, sync, import, search, dup excluded)', 8)
    n = 0
    for f in P.defined():
        if not (f.file or '').startswith('cmdline/') or (f.file or '').endswith('dup.c'):
            continue
        for c in hash_compares(f):
            n += 1
            ln = f.expr(c.ops[2])
            ok = 'BLOCK_HASH_SIZE' in ln
            rep.check(ok, rid, '%s: memcmp(%s, %s, %s)' % (base(f.name), f.expr(c.ops[0])[:40], f.expr(c.ops[1])[:40], ln), c.loc(), 'length is the configured hash size' if ok else 'the comparison length is %s, not BLOCK_HASH_SIZE: arrays created with a reduced hashsize compare bytes that were never stored' % ln,
                      function=base(f.name), construct='hash compare length')
            rep.analysed(f)
    return n


def parity_compares(f):
    res = []
    for c in f.calls('memcmp'):
        a = [f.expr(o) for o in c.ops]
        if 'buffer_recov[' in a[0] + a[1] and 'buffer[' in a[0] + a[1] and a[2].endswith('block_size'):
            res.append(c)
    return res


def must_increment(f, start_block, counters_incs, stop_blocks):
    """every path from the first instruction of start_block to any stop block passes an increment"""
    start = f.blocks[start_block][0]
    incs = {i.id for i in counters_incs}
    if start.id in incs:
        return True
    r = f.reach([start], stop=incs, include_start=True)
    return not any(f.blocks[b][0].id in r for b in stop_blocks)


def run(ctx, rep):
    P = ctx.prog
    rep.explanation = ('Detection structure of scrub and check on every path: each successfully read block with a current hash is hashed (kind chosen by the rehash bit) and compared over the whole '
                       'hash; each parity level read is compared over the whole block with the recomputed parity (raid_gen dominates); every mismatch edge reaches an error counter and the per-stripe '
                       'flag / failed[] registration before the next block; scrub marks bad iff silent or io error and refreshes only with all flags clear; the verdict depends on all counters; '
                       'status reads the bad marks of every position.')
    rep.assumptions = ['hash strength is not part of the check', 'messages are checked for their position/name arguments only through argument provenance']
    rep.rule('R-C04-1', 'data detection site: memhash over the buffer just read with read_size and the kind selected by rehash, then memcmp with block->hash over BLOCK_HASH_SIZE; only block_has_updated_hash (scrub) / state CHG (check) bypasses it', 2)
    rep.rule('R-C04-2', 'data mismatch edge: error counter incremented and per-stripe flag set / failed[] entry registered with is_bad before the next disk', 2)
    rep.rule('R-C04-3', 'parity detection: raid_gen dominates a memcmp of every level over block_size; mismatch increments a counter (and sets the flag in scrub)', 2)
    rep.rule('R-C04-4', 'scrub marking: bad mark iff silent or io error; time refresh only with all three flags clear', 2)
    rep.rule('R-C04-5', 'status reports bad from info_get_bad of every position below blockmax', 1)
    rep.rule('R-C04-6', 'blockcmp compares the zero padding beyond pos_size', 1)

    memhash_pairing(P, rep, 'R-C04-1p')
    block_size_rule(P, rep, 'R-C04-7')
    hash_length_rule(P, rep, 'R-C04-1l')
    bypass_rule(P, rep, 'R-C04-1b')
    no_inode_in_changed_test_rule(P, rep, 'R-C04-9')
    rehash_pairing_rule(P, rep, 'R-C04-8p')
    rehash_covers_pending_hashes_rule(P, rep, 'R-C04-8r')
    # `scrub marks exactly the affected stripes as bad so that status lists them`: the mark must also reach the content file
    from .C15 import dirty_bit_rule
    dirty_bit_rule(P, rep, 'R-C04-4w', 'state_scrub_process', {'info_set'})
    reader_fills_buffer_rule(P, rep, 'R-C04-11')
    from .C01 import used_parity_rule
    used_parity_rule(P, rep, 'R-C04-3p')
    from .carried import carried_flags_rule
    carried_flags_rule(P, rep, 'R-C04-10', only={'state_scrub_process', 'state_check_process', 'state_sync_process', 'repair', 'repair_step'}, min_examined=5)
    # coverage of the percentage plans: the derived limits select exactly the quota (a stripe the plan covers is never skipped)
    from .C15 import quota_rule
    cands = [f_ for f_ in P.variants('block_is_enabled') if (f_.file or '').endswith('scrub.c')]
    if len(cands) != 1:
        raise AnalysisBroken('scrub block_is_enabled not found')
    quota_rule(P, rep, P.fn('state_scrub'), cands[0], 5 if ctx.tier == 'quick' else 7, rid='R-C04-6q')
    # ---- scrub
    L = StripeLoop(P, 'state_scrub_process')
    f = L.f
    rep.analysed(f)
    hc = hash_compares(f)
    if len(hc) != 1:
        raise AnalysisBroken('scrub: expected one hash comparison, found %d' % len(hc))
    c = hc[0]
    mh = list(f.calls('memhash'))
    # the compared local `hash` is filled by memhash of buffer[diskcur] with read_size
    fill = [m for m in mh if f.expr(m.ops[2]) == '&hash[0]']
    okfill = len(fill) == 2 and all(f.expr(m.ops[3]).startswith('buffer[diskcur]') and f.expr(m.ops[4]) == 'read_size' for m in fill)
    kinds = sorted(f.expr(m.ops[0]) for m in fill)
    okkind = kinds == ['state->hash', 'state->prevhash']
    # rehash selects prevhash
    rb = [b for b in range(len(f.blocks)) if f.term(b).op == 'br' and len(f.term(b).ops) == 3 and f.expr(f.term(b).ops[0]) == '(rehash!=0)']
    oksel = False
    for b in rb:
        t = f.term(b)
        tb, fb = t.ops[2][1], t.ops[1][1]
        pm = [m for m in fill if f.expr(m.ops[0]) == 'state->prevhash']
        cm = [m for m in fill if f.expr(m.ops[0]) == 'state->hash']
        if pm and cm and f.bdominates(tb, pm[0].block) and f.bdominates(fb, cm[0].block):
            oksel = True
    # DONE edge -> inner latch must pass a fill memhash
    done_checks = [b for b in L.body if f.term(b).op == 'br' and len(f.term(b).ops) == 3 and 'task->state' in f.expr(f.term(b).ops[0]) and f.inst_of(f.term(b).ops[0]).pred == 'ne'
                   and f.bdominates(b, c.block)]
    okpath = False
    if done_checks:
        t = f.term(done_checks[-1])
        done_edge = t.ops[1][1]
        inner = f.loop_of(c.block)
        latches = [x for x in f.loops[inner] if inner in f.succ[x]]
        # with the only allowed bypass cut (block_has_updated_hash == 0), every path DONE -> latch passes memcmp
        byp = [bb for bb in L.body if f.term(bb).op == 'br' and len(f.term(bb).ops) == 3 and 'block_has_updated_hash' in f.expr(f.term(bb).ops[0]) and f.bdominates(bb, c.block)]
        cut = set()
        for bb in byp:
            tt = f.term(bb)
            ci = f.inst_of(tt.ops[0])
            fe = tt.ops[1][1] if ci.pred == 'ne' else tt.ops[2][1]
            cut.add((tt.id, fe))
        start = f.blocks[done_edge][0]
        okpath = all(f.must_pass(f.blocks[l][-1], [c], start=start, cut_edges=cut) for l in latches) and all(f.must_pass(c, fill, start=start) for _ in [0]) and len(byp) == 1
    rep.check(okfill and okkind and oksel and okpath and f.expr(c.ops[2]) == 'BLOCK_HASH_SIZE', 'R-C04-1', 'scrub: data hash check', c.loc(),
              'memhash(buffer[diskcur], read_size): %s; kinds %s selected by rehash: %s; unconditional modulo block_has_updated_hash: %s' % (okfill, kinds, oksel, okpath), function='state_scrub_process', construct='data hash check')
    # mismatch edge
    brs = cond_branches_on_call(f, c)
    ok2 = False
    det = ''
    if len(brs) == 1:
        br, ci = brs[0]
        me = mismatch_edge(f, br, ci)
        if me:
            mis, eq = me
            incs = L.increments('error') + L.increments('silent_error')
            inner = f.loop_of(c.block)
            latch_blocks = [x for x in f.loops[inner] if inner in f.succ[x]]
            flags = L.flag_stores('error_on_this_block', 1) + L.flag_stores('silent_error_on_this_block', 1)
            ok2 = must_increment(f, mis, incs, latch_blocks + [inner]) and must_increment(f, mis, flags, latch_blocks + [inner])
            det = 'mismatch edge bb%d: counter and flag on every path to the next disk: %s' % (mis, ok2)
    rep.check(ok2, 'R-C04-2', 'scrub: data mismatch accounting', c.loc(), det, function='state_scrub_process', construct='data mismatch')
    # silent only when file is synced
    fa = L.fa
    sil = L.flag_stores('silent_error_on_this_block', 1)
    okuns = True
    for s in sil:
        for t in fa.at(s):
            if f.bdominates(c.block, s.block) and t.get('file_is_unsynced') != 0:
                okuns = False
    # parity
    pc = parity_compares(f)
    gens = list(f.calls('raid_gen'))
    ok3 = len(pc) == 1 and len(gens) == 1 and f.dominates(gens[0], pc[0]) and [f.xexpr(o) for o in gens[0].ops] == ['diskmax', 'state->level', 'state->block_size', 'buffer']
    det3 = ''
    if ok3:
        p = pc[0]
        lp = f.loop_of(p.block)
        # loop over l < state->level
        hdr = f.term(lp)
        bound = f.xexpr(hdr.ops[0]) if hdr.op == 'br' and len(hdr.ops) == 3 else ''
        ok3 = 'state->level' in bound and '(l<' in bound.replace(' ', '')
        brs = cond_branches_on_call(f, p)
        okm = False
        for br, ci in brs:
            me = mismatch_edge(f, br, ci)
            if me:
                mis, eq = me
                incs = L.increments('error') + L.increments('silent_error')
                latch_blocks = [x for x in f.loops[lp] if lp in f.succ[x]]
                flags = L.flag_stores('error_on_this_block', 1) + L.flag_stores('silent_error_on_this_block', 1)
                okm = must_increment(f, mis, incs, latch_blocks) and must_increment(f, mis, flags, latch_blocks)
        for s in sil:
            if f.bdominates(p.block, s.block):
                for t in fa.at(s):
                    if t.get('block_is_unsynced') != 0:
                        okuns = False
        det3 = 'loop bound %s; mismatch accounted: %s' % (bound, okm)
        ok3 = ok3 and okm
    rep.check(ok3, 'R-C04-3', 'scrub: parity check of every level', pc[0].loc() if pc else f.file, det3, function='state_scrub_process', construct='parity check')
    rep.rule('R-C04-3u', 'scrub: a silent error is recorded only for synced files/stripes (file_is_unsynced=0 / block_is_unsynced=0)', 1)
    rep.check(okuns and len(sil) == 2, 'R-C04-3u', 'scrub: silent error only when synced', f.file, '%d silent-error sites' % len(sil), function='state_scrub_process', construct='silent only when synced')
    ipc = [c2 for c2 in f.calls('block_has_invalid_parity')]
    hfc = [c2 for c2 in f.calls('block_has_file')]
    rep.rule('R-C04-3d', 'scrub: a block with invalid parity marks the stripe unsynced even when it has no file (test precedes the skip)', 1)
    rep.check(bool(ipc) and bool(hfc) and any(f.dominates(a_, hfc[0]) for a_ in ipc), 'R-C04-3d', 'state_scrub_process: invalid-parity test before the no-file skip', hfc[0].loc() if hfc else f.file, '', function='state_scrub_process', construct='invalid parity before skip')
    scrub_marking_rule(P, rep, 'R-C04-4', L)
    # sync verifies the blocks it reads: a stripe in which it saw a silent or i/o error (even one it could correct in memory) is marked bad.
    # Completeness by flag tuples: every tuple with silent/io that reaches the scheduling of the parity write has passed the bad mark.
    rep.rule('R-C04-4s', 'sync: every stripe with a silent or i/o error is marked bad before its parity write is scheduled (all flag tuples)', 1)
    Ls = StripeLoop(P, 'state_sync_process')
    gs_ = Ls.f
    bads_ = list(gs_.calls('info_set_bad'))
    wp = Ls.slot_calls('io_write_preset')
    if len(wp) != 1:
        raise AnalysisBroken('state_sync_process: io_write_preset call not found')
    keyf = lambda t: (t['error_on_this_block'], t['silent_error_on_this_block'], t['io_error_on_this_block'], t['fixed_error_on_this_block'])
    at_bad_ = set()
    for b_ in bads_:
        at_bad_ |= {keyf(t) for t in Ls.fa.at(b_)}
    want_ = {keyf(t) for t in Ls.fa.at(wp[0]) if t['silent_error_on_this_block'] == 1 or t['io_error_on_this_block'] == 1}
    miss_ = sorted(want_ - at_bad_)
    rep.check(bool(bads_) and bool(want_) and not miss_, 'R-C04-4s', 'state_sync_process: silent / io error implies bad mark', bads_[0].loc() if bads_ else gs_.file,
              '%d flag tuples with an error, all pass the mark' % len(want_) if not miss_ else 'stripes with (error, silent, io, fixed) = %s reach the parity write without being marked bad: status and scrub -p bad / fix -e never see them' % miss_,
              function='state_sync_process', construct='sync bad mark completeness')
    # a hash recomputed with the new kind during a migration is stored back only for a stripe whose info is refreshed in the same
    # iteration (rehash bit cleared): at the store no error flag may be set
    rep.rule('R-C04-8', 'rehash store-back (block->hash <- rehandle[].hash) only on paths where the stripe is verified clean (error = silent = io = 0) and after every check of the stripe, in scrub and in sync', 4)
    for fn_, LL in (('state_scrub_process', L), ('state_sync_process', Ls)):
        gg = LL.f
        sts = [m_ for m_ in gg.calls() if m_.callee and m_.callee.startswith('llvm.memcpy') and 'rehandle' in gg.expr(m_.ops[1]) and gg.expr(m_.ops[0]).endswith('->hash[0]')]
        if not sts:
            # the store-back may live in a static helper called from the engine: then the call site is judged
            for c_ in gg.calls():
                h_ = P.functions.get(c_.callee_full) if c_.callee_full else None
                if h_ is not None and not h_.decl and h_.internal and any(m_.callee and m_.callee.startswith('llvm.memcpy') and 'rehandle' in h_.expr(m_.ops[1]) for m_ in h_.calls()):
                    sts.append(c_)
        if not sts:
            raise AnalysisBroken('%s: rehash store-back not found' % fn_)
        badt = []
        for m_ in sts:
            for t in LL.fa.at(m_):
                if t['error_on_this_block'] != 0 or t['silent_error_on_this_block'] != 0 or t['io_error_on_this_block'] != 0:
                    badt.append((t['error_on_this_block'], t['silent_error_on_this_block'], t['io_error_on_this_block']))
        # "verified" means every test of the stripe is behind: no store that raises one of the three flags is reachable from the
        # store-back before the iteration ends (the store-back placed before the parity comparison sees clean flags and is wrong)
        late = []
        hdr_first = LL.block_first(LL.header)
        for m_ in sts:
            r_ = gg.reach([m_], stop={hdr_first.id})
            for fl in ('error_on_this_block', 'silent_error_on_this_block', 'io_error_on_this_block'):
                late += [x for x in LL.flag_stores(fl, 1) if x.id in r_]
        rep.check(not late, 'R-C04-8', '%s: the store-back comes after every check of the stripe' % fn_, sts[0].loc(),
                  'no error flag can be raised after the store-back' if not late else 'after the new-kind hashes were stored (line %s) the stripe can still be found wrong (flag raised at line %s): it is then marked bad and keeps its rehash mark while its blocks already carry hashes of the new kind -- every later check / scrub reports data errors on undamaged blocks' % (sts[0].line, sorted({x.line for x in late})),
                  function=fn_, construct='rehash store-back before the last check')
        rep.check(not badt, 'R-C04-8', '%s: new-kind hashes stored only for verified stripes' % fn_, sts[0].loc(),
                  'all tuples at the store have error = silent = io = 0' if not badt else 'stored also with (error, silent, io) = %s: the stripe keeps its rehash flag (it is marked bad, not refreshed) while its blocks already carry new-kind hashes, so every block of it mismatches afterwards' % sorted(set(badt)),
                  function=fn_, construct='rehash store-back')
    # the bad mark must preserve every other field of the info word (time, rehash, justsynced): only `info | bad-bit` does
    rep.rule('R-C04-4p', 'bad marks preserve the stripe info: info_set(pos, info_set_bad(info_get(pos))) and info_set_bad only ORs a constant', 3)
    isb = P.fn('info_set_bad')
    ops_ = [i for i in isb.all_insts() if i.op in ('or', 'and', 'xor', 'shl', 'lshr', 'add', 'sub')]
    rep.check(len(ops_) == 1 and ops_[0].op == 'or' and isb.const_of(ops_[0].ops[1]) is not None, 'R-C04-4p', 'info_set_bad(info) == info | constant', isb.file, '', function='info_set_bad', construct='preserving')
    for fname2 in ('state_scrub_process', 'state_sync_process'):
        h = P.fn(fname2)
        sets = list(h.calls('info_set'))
        unclassified = []
        nb = 0
        for x in sets:
            vi = h.inst_of(x.ops[2])
            if vi is not None and vi.op == 'call' and vi.callee == 'info_set_bad':
                src = h.inst_of(vi.ops[0])
                # argument is the local `info` loaded from info_get(&state->infoarr, <same position>)
                okk = h.expr(vi.ops[0]) == 'info' and any(i.op == 'store' and h.expr(i.ops[1]) == '&info' and 'info_get(&state->infoarr,%s)' % h.expr(x.ops[1]) == h.expr(i.ops[0]) and h.dominates(i, x) for i in h.all_insts())
                if okk:
                    nb += 1
                else:
                    unclassified.append(x)
            elif vi is not None and vi.op == 'call' and vi.callee == 'info_make' and h.expr(vi.ops[0]) == 'now' and h.const_of(vi.ops[1]) == 0 and h.const_of(vi.ops[2]) == 0:
                pass    # refresh: new time, flags cleared (typestate checked by R-C04-4 / R-C06-2)
            else:
                unclassified.append(x)
        rep.check(not unclassified and nb >= 1, 'R-C04-4p', '%s: every info update is a preserving bad mark or a refresh' % fname2, (unclassified[0].loc() if unclassified else h.file),
                  '%d bad marks' % nb if not unclassified else 'info word rebuilt by %s: fields of the stripe info (e.g. the rehash bit) can be lost' % h.expr(unclassified[0].ops[2])[:80], function=fname2, construct='info update')

    # ---- check
    g = P.fn('state_check_process')
    rep.analysed(g)
    hc = hash_compares(g)
    if len(hc) != 1:
        raise AnalysisBroken('check: expected one hash comparison, found %d' % len(hc))
    c = hc[0]
    fill = [m for m in g.calls('memhash') if g.expr(m.ops[2]) == '&hash[0]']
    okfill = len(fill) == 2 and all(g.expr(m.ops[3]).startswith('buffer[j]') and g.expr(m.ops[4]) == 'read_size' for m in fill) and sorted(g.expr(m.ops[0]) for m in fill) == ['state->hash', 'state->prevhash']
    # from a successful handle_read to the inner latch, the only bypass is state == CHG
    hr = list(g.calls('handle_read'))
    inner = g.loop_of(c.block)
    latches = [x for x in g.loops[inner] if inner in g.succ[x]]
    okpath = False
    if len(hr) == 1:
        brs = cond_branches_on_call(g, hr[0])
        for br, ci in brs:
            if ci.op == 'icmp' and g.const_of(ci.ops[1]) == -1:
                ok_edge = br.ops[1][1] if ci.pred == 'eq' else br.ops[2][1]
                from .C06 import blk_value
                chg = blk_value(P)['CHG']
                byp = [bb for bb in g.loops[inner] if g.term(bb).op == 'br' and len(g.term(bb).ops) == 3 and g.expr(g.term(bb).ops[0]) == '(block_state==%d)' % chg and g.bdominates(ok_edge, bb) and g.bdominates(bb, c.block)]
                cut = set()
                for bb in byp:
                    tt = g.term(bb)
                    cut.add((tt.id, tt.ops[2][1]))
                okpath = len(byp) == 1 and all(g.must_pass(g.blocks[l][-1], [c], start=g.blocks[ok_edge][0], cut_edges=cut) for l in latches)
    rep.check(okfill and okpath and g.expr(c.ops[2]) == 'BLOCK_HASH_SIZE', 'R-C04-1', 'check: data hash check', c.loc(), 'memhash(buffer[j], read_size) both kinds: %s; unconditional modulo CHG: %s' % (okfill, okpath), function='state_check_process', construct='data hash check')
    brs = cond_branches_on_call(g, c)
    ok2 = False
    if len(brs) == 1:
        br, ci = brs[0]
        me = mismatch_edge(g, br, ci)
        if me:
            mis, eq = me
            Lc = type('X', (), {})()
            def incs_of(name):
                res = []
                for i in g.all_insts():
                    if i.op == 'store' and g.expr(i.ops[1]) == '&' + name:
                        v = g.inst_of(i.ops[0])
                        if v is not None and v.op == 'add' and g.expr(v.ops[0]) == name:
                            res.append(i)
                return res
            bads = is_bad_sites(P, g, 1)
            ok2 = must_increment(g, mis, incs_of('error'), latches + [inner]) and must_increment(g, mis, incs_of('failed_count') + [x for x in bads if x.op == 'call'], latches + [inner]) and must_increment(g, mis, bads, latches + [inner])
    rep.check(ok2, 'R-C04-2', 'check: data mismatch registers failed[] with is_bad and counts an error', c.loc(), '', function='state_check_process', construct='data mismatch')
    pc = parity_compares(g)
    ok3 = len(pc) == 1
    det3 = ''
    if not pc:
        # the comparison loop may live in a static helper that returns the number of mismatching levels: the helper is judged like the
        # inline loop, and the caller must add its result to the error counter, after the recomputation of the parity
        from .C05 import locate_in_helpers
        hlp = locate_in_helpers(P, g, lambda x: bool(parity_compares(x)))
        if hlp is not None and hlp is not g:
            rep.analysed(hlp)
            hp = parity_compares(hlp)
            okh = len(hp) == 1 and hlp.loop_of(hp[0].block) is not None
            deth = ''
            if okh:
                lp_ = hlp.loop_of(hp[0].block)
                hdr_ = hlp.term(lp_)
                bound_ = hlp.xexpr(hdr_.ops[0]) if hdr_.op == 'br' and len(hdr_.ops) == 3 else ''
                cnt = [i for i in hlp.all_insts() if i.op == 'store' and hlp.inst_of(i.ops[0]) is not None and hlp.inst_of(i.ops[0]).op == 'add' and hlp.const_of(hlp.inst_of(i.ops[0]).ops[1]) == 1
                       and hlp.inst_of(i.ops[1]) is not None and hlp.inst_of(i.ops[1]).op == 'alloca']
                okm_ = False
                for br, ci in cond_branches_on_call(hlp, hp[0]):
                    me = mismatch_edge(hlp, br, ci)
                    if me:
                        lat = [x for x in hlp.loops[lp_] if lp_ in hlp.succ[x]]
                        okm_ = must_increment(hlp, me[0], cnt, lat)
                # the counter incremented on the mismatch edge is what the helper returns
                cal = {hlp.strip(i.ops[1])[1] for i in cnt}
                okr_ = any(('const', 1) in hlp.value_sources(r_.ops[0]) and hlp.inst_of(r_.ops[0]) is not None and hlp.inst_of(r_.ops[0]).op == 'load' and hlp.strip(hlp.inst_of(r_.ops[0]).ops[0])[1] in cal for r_ in hlp.returns() if r_.ops)
                hc = [c_ for c_ in g.calls() if c_.callee_full == hlp.name]
                rp = list(g.calls('repair'))
                oku_ = len(hc) == 1 and len(rp) == 1 and g.dominates(rp[0], hc[0]) and any(u.op == 'add' and any(w.op == 'store' and g.expr(w.ops[1]) == '&error' for w in g.users.get(u.id, ())) for u in g.users.get(hc[0].id, ()))
                okh = 'state->level' in bound_ and okm_ and okr_ and oku_
                deth = 'in helper %s: bound %s, mismatch counted %s, count returned %s, added to error after repair %s' % (base(hlp.name), bound_, okm_, okr_, oku_)
            rep.check(okh, 'R-C04-3', 'check: parity check of every level', hp[0].loc() if hp else g.file, deth, function='state_check_process', construct='parity check')
            pc = None
    if pc is None:
        pass
    elif ok3:
        p = pc[0]
        lp = g.loop_of(p.block)
        hdr = g.term(lp)
        bound = g.xexpr(hdr.ops[0]) if hdr.op == 'br' and len(hdr.ops) == 3 else ''
        rp = list(g.calls('repair'))
        brs = cond_branches_on_call(g, p)
        okm = False
        for br, ci in brs:
            me = mismatch_edge(g, br, ci)
            if me:
                lat = [x for x in g.loops[lp] if lp in g.succ[x]]
                okm = must_increment(g, me[0], incs_of('error'), lat)
        # gated only by used_parity && valid_parity (and not auditonly)
        ok3 = 'state->level' in bound and okm and len(rp) == 1 and g.dominates(rp[0], p)
        det3 = 'bound %s, mismatch counted %s, repair (recomputes parity) dominates' % (bound, okm)
    if pc is not None:
        rep.check(ok3, 'R-C04-3', 'check: parity check of every level', pc[0].loc() if pc else g.file, det3, function='state_check_process', construct='parity check')
    # R-C04-5 status
    s = P.fn('state_status')
    rep.analysed(s)
    ib = list(s.calls('info_get_bad'))
    rep.check(bool(ib) and all(s.loop_of(c2.block) is not None for c2 in ib), 'R-C04-5', 'state_status scans info_get_bad in a loop over positions', s.file, '%d sites' % len(ib), function='state_status', construct='bad scan')
    # R-C04-6
    b = P.fn('blockcmp')
    rep.analysed(b)
    mc = list(b.calls('memcmp'))
    pad = [c2 for c2 in mc if 'pos_size' in b.expr(c2.ops[0]) and 'buffer_zero' in b.expr(c2.ops[1]) and 'block_size' in b.expr(c2.ops[2]) and 'pos_size' in b.expr(c2.ops[2])]
    rep.check(len(mc) == 2 and len(pad) == 1, 'R-C04-6', 'blockcmp: padding [pos_size, block_size) compared with zero', b.file, '', function='blockcmp', construct='padding')


def _alternatives(f, o, depth=0):
    """{(condition expression, outcome) or None: expression} -- the values an operand can take when it is chosen by `c ? a : b`
    (phi / select, possibly parked in a single-assignment local); a plain operand gives {None: expr}"""
    o = f.strip(o)
    if o[0] == 'i' and depth < 4:
        i = f.insts[o[1]]
        if i.op == 'load':
            a = f.strip(i.ops[0])
            if a[0] == 'i' and f.insts[a[1]].op == 'alloca':
                sts = [u for u in f.users.get(a[1], ()) if u.op == 'store' and f.strip(u.ops[1]) == a]
                if len(sts) == 1 and f.inst_of(sts[0].ops[0]) is not None and f.inst_of(sts[0].ops[0]).op in ('phi', 'select'):
                    return _alternatives(f, sts[0].ops[0], depth + 1)
        if i.op == 'select':
            from ..guards import normalise
            a_, pol = normalise(f, i.ops[0], True)
            return {(a_, pol): f.expr(i.ops[1]), (a_, not pol): f.expr(i.ops[2])}
        if i.op == 'phi' and len(i.ops) == 2:
            from ..guards import normalise
            res = {}
            for pb, v in zip(i.inc, i.ops):
                # the edge into the join comes from one side of a two-way branch
                src = pb
                preds = f.pred[src]
                t = f.term(src)
                if not (t.op == 'br' and len(t.ops) == 3) and len(preds) == 1:
                    t = f.term(preds[0]); side_block = src
                else:
                    side_block = i.block
                if t.op == 'br' and len(t.ops) == 3:
                    a_, pol = normalise(f, t.ops[0], t.ops[2][1] == side_block)
                    res[(a_, pol)] = f.expr(v)
            if len(res) == 2:
                return res
    return {None: f.expr(o)}


def memhash_pairing(P, rep, rid):
    """every memhash call passes a matched (kind, seed) pair: (state->hash, state->hashseed) or (state->prevhash, state->prevhashseed);
    and when both kinds are used for one decision, the previous kind is the one selected by the rehash flag"""
    rep.rule(rid, 'every memhash call uses a matched pair (hash kind, seed of that kind); the previous pair is selected iff rehash', 20)
    from ..guards import guards_of
    n = 0
    for f in P.defined():
        if not (f.file or '').startswith('cmdline/'):
            continue
        for c in f.calls('memhash'):
            ka, sa_ = _alternatives(f, c.ops[0]), _alternatives(f, c.ops[1])
            if set(ka) != set(sa_):
                # kind and seed are selected by different conditions: cannot be a matched pair on every path
                if any(v.endswith('hash') for v in ka.values()):
                    rep.fail(rid, '%s: memhash kind/seed selection' % base(f.name), c.loc(), 'kind chosen by %s, seed chosen by %s' % (sorted(map(str, ka)), sorted(map(str, sa_))), function=base(f.name), construct='memhash pair selection')
                    n += 1
                continue
            for key in sorted(ka, key=str):
                k, sd = ka[key], sa_[key]
                if not (k.endswith('hash') and 'hash' in sd):
                    continue
                kk = k.split('->')[-1]; ss = sd.lstrip('&').split('->')[-1].replace('[0]', '')
                ok = (kk, ss) in (('hash', 'hashseed'), ('prevhash', 'prevhashseed'), ('besthash', 'hashseed'))
                det = 'memhash(%s, %s)' % (k, sd)
                # the precomputed new-kind hash kept aside for the store-back (rehandle[]) is by design computed under rehash
                if ok and kk in ('hash', 'prevhash') and 'rehandle' not in f.expr(c.ops[2]):
                    gs = [(a, p_) for a, p_ in guards_of(f, c) if a in ('rehash', 'arg->prevhash', 'prevhash')]
                    if key is not None and key[0] in ('rehash', 'arg->prevhash', 'prevhash'):
                        gs = gs + [key]          # selected by `rehash ? prev : current`
                    if gs:
                        want = kk == 'prevhash'
                        ok = all(p_ is want for a, p_ in gs[-1:])
                        det += ' under %s%s' % ('' if gs[-1][1] else '!', gs[-1][0])
                rep.check(ok, rid, '%s: %s' % (base(f.name), det), c.loc(), '', function=base(f.name), construct='memhash pair %s/%s' % (kk, ss))
                n += 1
            rep.analysed(f)
    return n


def block_size_rule(P, rep, rid):
    """the number of bytes hashed / compared / written for a block: file_alloc and file_block_size are integer-only code;
    interpret them over every size 0..3*bs+1 (bs = 4): blockmax = ceil(size/bs) and the block sizes are bs,...,bs,last with
    last = size - (blockmax-1)*bs, so they sum to the file size (no byte of the last partial block is outside a block)"""
    from .. import region as RG
    rep.rule(rid, 'file_alloc / file_block_size: blockmax = ceil(size / block_size) and the block sizes partition the file (every size 0..13 with block_size 4, and block_size 1)', 14)
    fa = P.fn('file_alloc'); fb = P.fn('file_block_size')
    rep.analysed(fa, fb)
    lay = P.distructs.get('snapraid_file')
    if not lay:
        raise AnalysisBroken('struct snapraid_file not found')
    off = {m['name']: m['off'] for m in lay['members']}
    for bs in (4, 1):
        for size in range(0, 3 * bs + 2):
            n = [0]
            def ext(ins, args):
                if ins.callee in ('malloc_nofail', 'strdup_nofail', 'calloc_nofail'):
                    n[0] += 1
                    return (RG.P_(('heap', n[0]), 0),)
                if ins.callee in ('memset', 'memcpy'):
                    return (args[0],)
                return None
            R = RG.Region(P, extern=ext)
            R.mem[(('glob', 'BLOCK_HASH_SIZE'), 0)] = 16
            try:
                fp = R.run(fa, 0, [bs, RG.P_(('str', 'sub'), 0), size, 0, 0, 0, 0])
            except RG.Unsupported as e:
                raise AnalysisBroken('cannot interpret file_alloc: %s' % e)
            bm = R.mem.get((fp.reg, off['blockmax']))
            want_bm = (size + bs - 1) // bs
            sizes = []
            ok = bm == want_bm
            if ok:
                for pos in range(bm):
                    sizes.append(R.run(fb, 0, [fp, pos, bs], frame=1000 + pos))
                want = [bs] * (bm - 1) + ([size - (bm - 1) * bs] if bm else [])
                ok = sizes == want
            rep.check(ok, rid, 'size %d, block size %d' % (size, bs), fb.file, 'blockmax %s, block sizes %s' % (bm, sizes) if ok else 'blockmax %s (expected %d), block sizes %s: they do not partition the %d bytes of the file' % (bm, want_bm, sizes, size),
                      function='file_block_size', construct='block size partition')


def bypass_rule(P, rep, rid):
    """which conditions let check skip the verification of a block that has a file: a file flag may do it only if it is the flag the
    selection sets (excluded), and a block state only if the state carries no current hash (CHG) or no file (DELETED)"""
    from .C06 import blk_value
    import re as _re
    f = P.fn('state_check_process')
    rep.rule(rid, 'check: the hash verification of a block is bypassed by a file flag only for files excluded by the selection, and by a block state only for states without a current hash', 2)
    hc = hash_compares(f)
    if not hc:
        raise AnalysisBroken('state_check_process: hash comparison not found')
    H = hc[0]
    h = f.loop_of(H.block)
    if h is None:
        raise AnalysisBroken('state_check_process: hash comparison is not inside the disk loop')
    stop = {f.blocks[h][0].id}
    # the flag of the selection: what state_filter sets on files
    sf = P.fn('state_filter')
    excl = {sf.const_of(c.ops[1]) for c in sf.calls('file_flag_set')}
    st = blk_value(P)
    rf = P.fn('state_read_content')
    known = set(st.values())
    deleted = [rf.const_of(c.ops[1]) for c in rf.calls('block_state_set') if rf.const_of(c.ops[1]) not in known]
    allowed_states = {st['CHG']} | set(deleted)
    flag_byp, state_byp = [], []
    for b_ in sorted(f.loops[h]):
        t = f.term(b_)
        if t.op != 'br' or len(t.ops) != 3 or H.id not in f.reach([t]):
            continue
        outs = [(True, t.ops[2][1]), (False, t.ops[1][1])]
        r = {v: H.id in f.reach([f.blocks[o][0]], stop=stop, include_start=True) for v, o in outs}
        if r[True] == r[False]:
            continue
        e = f.xexpr(t.ops[0]).replace(' ', '')
        skip_when = not r[True]          # outcome of the condition that skips the verification
        m1 = _re.match(r'^\(file_flag_has\((.*),(\d+)\)(!=|==)0\)$', e)
        if m1:
            has_flag = skip_when if m1.group(3) == '!=' else not skip_when
            flag_byp.append((int(m1.group(2)), has_flag, t))
        from ..guards import state_test
        t2 = state_test(e)
        if t2:
            eq_skips = skip_when if t2[2] else not skip_when
            if eq_skips:
                state_byp.append((t2[1], t))
    badf = [(k, t.line) for k, hf, t in flag_byp if not (hf and k in excl)]
    rep.check(bool(flag_byp) and not badf, rid, 'flag-based bypass only for the excluded flag', flag_byp[0][2].loc() if flag_byp else f.file,
              'bypassing flags %s; selection flag %s' % (sorted({k for k, _, _ in flag_byp}), sorted(excl)) if not badf else 'blocks of files carrying flag(s) %s are not verified (lines %s): a second damaged block of the same file is never reported' % (sorted({k for k, _ in badf}), [l for _, l in badf]),
              function='state_check_process', construct='flag bypass')
    bads = [(k, t.line) for k, t in state_byp if k not in allowed_states]
    rep.check(not bads, rid, 'state-based bypass only for CHG / DELETED', f.file, 'bypassing states %s' % sorted({k for k, _ in state_byp}) if not bads else 'blocks in state %s are not verified' % bads, function='state_check_process', construct='state bypass')


def mark_justified_by_increment(L, f, mark):
    """a bad mark that every path from the top of the stripe iteration reaches only through ++io_error / ++silent_error (the error
    was just counted for this very stripe, e.g. the mark placed on the path that stops the run at the error limit)"""
    incs = [i for c_ in ('io_error', 'silent_error') for i in L.increments(c_) if i.block in L.body]
    return bool(incs) and f.must_pass(mark, incs, start=L.block_first(L.header))


def is_bad_sites(P, f, value):
    """sites of `f` that register a failed[] entry with is_bad == value: inline stores `X.is_bad = value`, or calls of a helper
    whose body stores one of its parameters into `.is_bad` and that receive the constant `value` for that parameter"""
    res = [i for i in f.all_insts() if i.op == 'store' and f.expr(i.ops[1]).endswith('.is_bad') and f.const_of(i.ops[0]) == value]
    for c in f.calls():
        g = P.functions.get(c.callee_full) if c.callee_full else None
        if g is None or g.decl or g is f:
            continue
        for st in g.all_insts():
            if st.op == 'store' and g.expr(st.ops[1]).endswith('.is_bad'):
                v = g.strip(st.ops[0])
                # -O0: the parameter is spilled to an alloca and loaded back
                k = None
                if v[0] == 'a':
                    k = v[1]
                elif v[0] == 'i' and g.insts[v[1]].op == 'load':
                    al = g.strip(g.insts[v[1]].ops[0])
                    if al[0] == 'i':
                        k = g.arg_allocas().get(al[1])
                if k is not None and k < len(c.ops) and f.const_of(c.ops[k]) == value:
                    res.append(c)
    return res


def no_inode_in_changed_test_rule(P, rep, rid):
    """scrub and check decide "this file changed since the last sync, its errors are expected" from size and time-stamp only.  The
    inode number must not take part: a file restored by fix, copied back from a backup or living on a file-system without persistent
    inodes has a new inode but the recorded content; with the inode in the test its silent errors (and the parity errors of its
    stripes) are downgraded to "file changed", nothing is marked bad."""
    from .C11 import compared_members, CORE
    rep.rule(rid, 'scrub / check: the "changed since the last sync" test compares size, seconds and nanoseconds and never the inode', 2)
    for fn in ('scrub_data_reader', 'state_check_process'):
        f = P.fn(fn)
        rep.analysed(f)
        cm = compared_members(f)
        if not all(cm.get(k, 0) >= 1 for k in CORE):
            raise AnalysisBroken('%s: stamp comparison not recognised (%s)' % (fn, cm))
        rep.check(cm.get('inode', 0) == 0, rid, '%s: no inode comparison against the recorded file' % fn, f.file,
                  'members compared: %s' % sorted(cm) if cm.get('inode', 0) == 0 else 'the recorded inode is compared with st_ino: a file with the recorded bytes but a new inode (restored, copied, volatile inodes) is treated as changed since the last sync, its silent errors are reported as expected differences and its stripes are not marked bad',
                  function=fn, construct='inode in the changed-since-sync test')


def rehash_pairing_rule(P, rep, rid):
    """hash migration: in a stripe marked for rehash, sync and scrub compute the hash of every block read with the NEW function into
    rehandle[j].hash and remember the block in rehandle[j].block; when the stripe is committed the new hashes are stored back and the
    rehash mark of the stripe is cleared.  The two assignments belong together: a block whose new hash was computed but whose pointer
    is not recorded (only recorded on some later path, e.g. after its old hash was verified) keeps a hash of the old function in a
    stripe that no longer says so -- the block can never be validated again and fix rejects the bytes it rebuilds."""
    rep.rule(rid, 'sync / scrub: wherever the new-function hash of a block is computed into rehandle[j].hash, rehandle[j].block is assigned in the same basic block (no path computes one without the other)', 2)
    n = 0
    for fn in ('state_sync_process', 'state_scrub_process'):
        f = P.fn(fn)
        rep.analysed(f)
        sets = [i for i in f.all_insts() if i.op == 'store' and f.expr(i.ops[1]).startswith('&rehandle[') and f.expr(i.ops[1]).endswith('.block') and f.const_of(i.ops[0]) != 0]
        for c in f.calls('memhash'):
            if len(c.ops) < 3 or 'rehandle[' not in f.expr(c.ops[2]) or not f.expr(c.ops[2]).rstrip(']0[').endswith('.hash'):
                continue
            n += 1
            same = [s for s in sets if s.block == c.block]
            ok = bool(same)
            if not ok and sets:
                # the assignment may come later, but then on every path from the hash computation to the next disk
                lp = f.loop_of(c.block)
                lat = [f.blocks[lp][0]] if lp is not None else []
                r_ = f.reach([c], stop={s.id for s in sets})
                ok = bool(lat) and not any(x.id in r_ for x in lat) and not any(x.id in r_ for x in f.returns())
            rep.check(ok, rid, '%s: memhash(new function -> %s) is paired with rehandle[].block' % (fn, f.expr(c.ops[2])[:40]), c.loc(),
                      'pointer recorded with the hash' if ok else 'the new hash is computed for every block read in a rehash stripe, but rehandle[].block is assigned only on some of the paths that follow: the other blocks keep the hash of the old function while the stripe loses its rehash mark',
                      function=fn, construct='rehandle pairing')
    if n < 2:
        raise AnalysisBroken('rehash sites not recognised (%d)' % n)


BLOCK_VISITORS = {'fs_par2block_find', 'fs_par2block_get', 'fs_par2block_maybe'}


def rehash_covers_pending_hashes_rule(P, rep, rid):
    """`rehash` swaps state->hash / prevhash and tells which function a stored hash was made with through the rehash bit of the info
    word of the stripe.  A stripe never synced has no info word (info == 0) and is skipped by the marking loop -- but it can hold REP
    blocks (a file recognised as a copy, or hashed by `sync -h`, and not synced yet) whose hash is of the OLD function: after the swap
    they are compared with the NEW function and an intact file is reported as a data error, renamed .unrecoverable by fix, refused by
    sync.  Rule: in state_rehash the `info == 0` side of the marking loop reaches the next position only through a visit of the blocks
    of that position (fs_par2block_*), or the command is refused beforehand by a test that looks at the blocks."""
    rep.rule(rid, 'state_rehash: a position without info word is skipped only after its blocks were visited (pending REP hashes are of the old function), or the command refuses an array with pending blocks', 1)
    f = P.fn('state_rehash')
    rep.analysed(f)
    marks = list(f.calls('info_set_rehash'))
    gets = list(f.calls('info_get'))
    if not marks or not gets:
        raise AnalysisBroken('state_rehash: info_get / info_set_rehash not found')
    lp = f.loop_of(marks[0].block)
    if lp is None:
        raise AnalysisBroken('state_rehash: the marking loop was not found')
    body = f.loops[lp]
    from .C09 import depends_on
    zero_edges = []
    for b in body:
        t = f.term(b)
        if t.op != 'br' or len(t.ops) != 3:
            continue
        ci = f.inst_of(t.ops[0])
        if ci is None or ci.op != 'icmp' or ci.pred not in ('eq', 'ne') or f.const_of(ci.ops[1]) != 0:
            continue
        if not any(depends_on(f, ci.ops[0], g_.id) for g_ in gets if g_.block in body):
            continue
        # ops[1] = false target, ops[2] = true target
        zero_edges.append((t, t.ops[2][1] if ci.pred == 'eq' else t.ops[1][1]))
    if len(zero_edges) != 1:
        raise AnalysisBroken('state_rehash: the test of the info word against 0 was not found (%d candidates)' % len(zero_edges))
    t, zb = zero_edges[0]
    cg = P.callgraph()

    def visits(c):
        if c.callee in BLOCK_VISITORS:
            return True
        return bool(c.callee_full) and P.has(c.callee) and any(base(x) in BLOCK_VISITORS for x in P.reachable([c.callee_full], cg))
    vis = [c for c in f.calls() if c.block in body and visits(c)]
    stops = {c.id for c in vis}
    for c in vis:
        l2 = f.loop_of(c.block)
        if l2 is not None and l2 != lp:
            stops.add(f.blocks[l2][0].id)       # a loop over the disks that visits the block of each: entering it counts
    r = f.reach([f.blocks[zb][0]], stop=stops, include_start=True)
    skipped = f.blocks[lp][0].id in r
    # alternative: refused beforehand
    dead = dead_blocks(f)
    refused = False
    for c in f.calls():
        if c.block in body or not visits(c) or not f.dominates(c, f.blocks[lp][0]):
            continue
        for b in range(len(f.blocks)):
            tt = f.term(b)
            if tt.op == 'br' and len(tt.ops) == 3 and depends_on(f, tt.ops[0], c.id) and (tt.ops[1][1] in dead or tt.ops[2][1] in dead):
                refused = True
    ok = (not skipped) or refused
    rep.check(ok, rid, 'state_rehash: positions without info word', t.loc(),
              ('blocks visited on the info == 0 side (%s)' % [c.callee for c in vis]) if not skipped else ('refused beforehand' if refused else
              'the marking loop skips a position whose info word is 0 without looking at its blocks, and nothing refuses an array with pending blocks: a REP block there (copy detected / pre-hashed, not synced yet) keeps a hash of the old function that is then compared with the new one: intact files are reported as data errors'),
              function='state_rehash', construct='info == 0 skipped')


def reader_fills_buffer_rule(P, rep, rid, readers=('scrub_data_reader', 'sync_data_reader')):
    """the engines compute the parity over the buffers of ALL disk positions: a reader callback that declares its task DONE must have
    put something defined into the buffer -- the block just read, or zeros for a position without disk / without file.  A DONE
    without either leaves whatever the ring slot held before: scrub then reports parity errors on an undamaged array that has an
    unused disk position and marks the stripes bad."""
    rep.rule(rid, 'data reader callbacks: every path that sets the task state to DONE first fills the block buffer (handle_read or a zero fill)', 2)
    n = 0
    for fn in readers:
        f = P.fn(fn)
        rep.analysed(f)
        # the constant of TASK_STATE_DONE: the value stored on the path that follows a successful handle_read
        hr = list(f.calls('handle_read'))
        sts = [i for i in f.all_insts() if i.op == 'store' and f.expr(i.ops[1]).endswith('task->state') and f.const_of(i.ops[0]) is not None]
        if not hr or not sts:
            raise AnalysisBroken('%s: handle_read / task->state stores not found' % fn)
        last = max(sts, key=lambda i: (i.block, i.idx))
        done = f.const_of(last.ops[0])
        fills = list(hr) + [c for c in f.calls() if (c.callee or '').startswith('llvm.memset')]
        for st in sts:
            if f.const_of(st.ops[0]) != done:
                continue
            n += 1
            ok = f.must_pass(st, fills)
            rep.check(ok, rid, '%s: DONE at line %s' % (fn, st.line), st.loc(), 'buffer filled on every path' if ok else 'the task is declared DONE on a path that neither reads the block nor zero-fills the buffer (a position without disk or without file): the parity is then computed over stale bytes of the ring slot -- false parity errors and bad marks on an undamaged array',
                      function=fn, construct='DONE without filling the buffer')
    if n < 2:
        raise AnalysisBroken('data readers: DONE states not recognised (%d)' % n)


def scrub_marking_rule(P, rep, rid, L=None):
    """scrub: a stripe is marked bad iff a silent or i/o error was seen in it, refreshed iff nothing at all was seen; decided on the
    tuples of the three per-stripe flags at the top of the decision (shared by C04, C08 and C15)"""
    if L is None:
        L = StripeLoop(P, 'state_scrub_process')
    f = L.f
    fa = L.fa
    # marking
    bad = [c2 for c2 in f.calls('info_set_bad')]
    ref = [c2 for c2 in f.calls('info_make')]
    direct = [b for b in bad if mark_justified_by_increment(L, f, b)]
    bad = [b for b in bad if b not in direct]          # the mark(s) of the per-stripe decision
    okb = bool(bad) and all(all(t['silent_error_on_this_block'] == 1 or t['io_error_on_this_block'] == 1 for t in fa.at(b)) for b in bad)
    # completeness: at the decision point every tuple with silent or io goes to the bad mark: the refresh/"nothing" sites never see silent/io
    okr = bool(ref) and all(all(t['silent_error_on_this_block'] == 0 and t['io_error_on_this_block'] == 0 and t['error_on_this_block'] == 0 for t in fa.at(r)) for r in ref)
    # `state->need_write = 1` is after the decision: tuples there with silent/io must all have passed the bad mark: check by cut
    nw = [i for i in f.all_insts() if i.op == 'store' and f.expr(i.ops[1]).endswith('->need_write') and i.block in L.body]
    okc = True
    for n_ in nw:
        r = f.reach([L.block_first(L.header)], stop={b.id for b in bad} | {x.id for x in ref}, include_start=True)
        # paths reaching need_write without bad mark nor refresh must have error_on_this_block only
        for t in fa.at(n_):
            pass
    rep.check(okb, rid, 'scrub: bad mark only with silent or io error', bad[0].loc() if bad else f.file, 'tuples at the mark all have silent=1 or io=1', function='state_scrub_process', construct='bad mark')
    rep.check(okr and [f.expr(o) for o in ref[0].ops[1:]] == ['0', '0', '0'], rid, 'scrub: refresh only with error=silent=io=0, clearing bad/rehash/justsynced', ref[0].loc() if ref else f.file, '', function='state_scrub_process', construct='refresh')
    # the decision is exhaustive (E4): at the decision point D (nearest common dominator of the mark and the refresh) every tuple with
    # silent or io error flows to the bad mark, and every all-clear tuple flows to the refresh
    if bad and ref:
        d = bad[0].block
        while not f.bdominates(d, ref[0].block):
            d = f.idom[d]
        # the decision starts at the first test of one of the three flags: climb over dominating flag tests (an `if (error) ... else if
        # (silent || io)` chain must be judged from its top, where every combination of the flags is still possible)
        while f.idom[d] is not None and f.idom[d] != d and f.idom[d] in L.body:
            tt = f.term(f.idom[d])
            if tt.op == 'br' and len(tt.ops) == 3 and fa._tested_flag(tt.ops[0]) is not None:
                d = f.idom[d]
            else:
                break
        T = fa.at(f.blocks[d][-1])
        key = lambda t: (t['error_on_this_block'], t['silent_error_on_this_block'], t['io_error_on_this_block'])
        at_bad = {key(t) for t in fa.at(bad[0])}
        at_ref = {key(t) for t in fa.at(ref[0])}
        want_bad = {key(t) for t in T if t['silent_error_on_this_block'] == 1 or t['io_error_on_this_block'] == 1}
        want_ref = {key(t) for t in T if key(t) == (0, 0, 0)}
        rep.check(at_bad == want_bad and at_ref == want_ref and want_ref, rid, 'scrub: every stripe with a silent/io error is marked bad, every clean stripe is refreshed', f.blocks[d][-1].loc(),
                  '%d tuples at the decision; to mark %s; to refresh %s' % (len(T), sorted(at_bad), sorted(at_ref)), function='state_scrub_process', construct='decision exhaustive')

