"""C16 — arrays written by the reference version stay readable and repairable (partial).
Coefficients/tables = definitions; on-disk grammar frozen against ref/content_grammar.json; layout constants;
hash schedule (constants/rotations at -O1) frozen against ref/hash_schedule.json.  Digests bit-for-bit: NOT decided."""
import json, os
from .. import grammar, hashsched
from ..frontend import AnalysisBroken, VERIF
from . import C02, C09, C10


def tupseq(lst):
    return tuple((t[0], t[1] if t[1] != '' else None, None) for t in lst)


def _canon_product(e):
    """`(a*b)` and `(b*a)` are the same offset expression: the factors of a top-level product are sorted"""
    t = e.strip()
    while t.startswith('(') and t.endswith(')') and t.count('(') == t.count(')') and '(' not in t[1:-1].split(')')[0][:0]:
        inner = t[1:-1]
        if inner.count('(') != inner.count(')'):
            break
        t = inner
        break
    if '*' in t and '(' not in t:
        return '(' + '*'.join(sorted(x.strip() for x in t.split('*'))) + ')'
    return e


def run(ctx, rep):
    P = ctx.prog
    rep.explanation = ('Bit-stability is decided for what has a finite definition: GF tables and generator matrices (exhaustive, shared with C02), CRC tables, varint/LE32 codecs; '
                       'the on-disk record grammar of the current writer and reader is compared with the grammar extracted from the reference (pinned) version; parity position->offset mapping, '
                       'last-block size rule, hash dispatch and CRC IV are checked structurally; the magic constants and rotation schedule of the three hash functions (from -O1 IR) are compared with '
                       'the reference schedule. Hash digests themselves are not proven equal.')
    rep.assumptions = ['the pinned tree is the reference version', 'hash schedule equality is a necessary condition only (operation order is not compared)']
    # R-C16-1 tables
    C02.check_tables(ctx.raid, rep)
    rep.rule('R-C09-7', 'CRC-32C tables equal the reflected Castagnoli polynomial slicing tables', 4)
    C09.rule_crc_tables(P, rep)
    # R-C16-2 grammar freeze
    rep.rule('R-C16-2r', 'current reader accepts every record sequence and header the reference writer can produce', 30)
    rep.rule('R-C16-2w', 'current writer emits only record sequences and headers the reference reader accepts', 30)
    ref = json.load(open(os.path.join(VERIF, 'ref', 'content_grammar.json')))
    rg, rh, rf, wg, wh, wf, pruned = C10.codec_grammars(P)
    rep.analysed(rf, wf)
    for h in ref['writer_headers'] + [h for h in ref['reader_headers'] if h not in ref['writer_headers']]:
        rep.check(h in rh, 'R-C16-2r', 'header %s' % h[1:9], rf.file, 'reference header accepted: %s' % (h in rh), function='state_read_content', construct='header %s' % h[1:9])
    for tag, seqs in sorted(ref['writer'].items()):
        for s in seqs:
            ws = tupseq(s)
            acc = grammar.seq_accepts(rg.get(tag, ()), ws)
            rep.check(acc is not None, 'R-C16-2r', "ref record '%s': %s" % (tag, C10.fmt(ws)), rf.file, 'accepted' if acc else 'current reader has no path for this reference sequence', function='state_read_content', construct="ref record %s: %s" % (tag, C10.fmt(ws)))
    # deprecated records the reference reader understood must still be understood (m, n, P ...)
    for tag, seqs in sorted(ref['reader'].items()):
        cur = {grammar.shape(x) for x in rg.get(tag, ())}
        for s in seqs:
            sh = tuple((t[0], t[1] if t[1] != '' else None) for t in s)
            rep.check(sh in cur, 'R-C16-2r', "ref reader alternative '%s': %s" % (tag, ' '.join(a + (':' + b if b else '') for a, b in sh)), rf.file, 'still accepted' if sh in cur else 'alternative accepted by the reference reader is gone', function='state_read_content', construct="ref alt %s: %s" % (tag, sh))
    refreader = {tag: {tupseq(s) for s in seqs} for tag, seqs in ref['reader'].items()}
    for h in wh:
        rep.check(h in ref['reader_headers'], 'R-C16-2w', 'header %s' % h[1:9], wf.file, 'accepted by the reference reader: %s' % (h in ref['reader_headers']), function='state_write_thread', construct='header')
    for tag in sorted(wg):
        for s in sorted(wg[tag], key=lambda x: (len(x), str(x))):
            acc = grammar.seq_accepts(refreader.get(tag, ()), s)
            rep.check(acc is not None, 'R-C16-2w', "record '%s': %s" % (tag, C10.fmt(s)), wf.file, 'accepted by the reference reader' if acc else 'the reference reader has no path for this sequence (format change)', function='state_write_thread', construct="record %s: %s" % (tag, C10.fmt(s)))
    # R-C16-3 layout constants
    rep.rule('R-C16-3', 'layout: parity offset = pos*block_size on both sides (sibling agreement); hash dispatch; CRC IV', 5)
    offs = {}
    for name in ('parity_read', 'parity_write'):
        f = P.fn(name)
        rep.analysed(f)
        st = [i for i in f.all_insts() if i.op == 'store' and f.expr(i.ops[1]) == '&offset']
        offs[name] = sorted(_canon_product(f.expr(i.ops[0])) for i in st)
        find = list(f.calls('parity_split_find'))
        rep.check(len(st) == 1 and '*' in offs[name][0] and 'pos' in offs[name][0] and 'block_size' in offs[name][0] and len(find) == 1 and f.expr(find[0].ops[1]) == '&offset' and f.dominates(st[0], find[0]),
                  'R-C16-3', '%s: offset = pos*block_size resolved through parity_split_find' % name, f.file, 'offset stores %s' % offs[name], function=name, construct='offset')
    rep.check(offs['parity_read'] == offs['parity_write'], 'R-C16-3', 'parity_read and parity_write map a position to the same offset expression', 'cmdline/parity.c', '%s vs %s' % (offs['parity_read'], offs['parity_write']), function='parity_read', construct='sibling offset')
    f = P.fn('memhash')
    rep.analysed(f)
    sw = [f.term(b) for b in range(len(f.blocks)) if f.term(b).op == 'switch']
    disp = {}
    if sw:
        for cv, cb in sw[0].cases:
            for i in f.blocks[cb]:
                if i.op == 'call' and i.callee and not i.callee.startswith('llvm'):
                    disp[cv] = (i.callee, [f.expr(o) for o in i.ops])
    want = {P.enums.get('HASH_MURMUR3', 1): 'MurmurHash3_x86_128', P.enums.get('HASH_SPOOKY2', 2): 'SpookyHash128', P.enums.get('HASH_METRO', 3): 'MetroHash128'}
    # hash kinds are macros; their values are recovered from hash_config_name's switch + strings
    hn = P.fn('hash_config_name')
    kinds = {}
    for b in range(len(hn.blocks)):
        t = hn.term(b)
        if t.op == 'switch':
            for cv, cb in t.cases:
                for i in hn.blocks[cb]:
                    if i.op == 'store':
                        kinds[hn.expr(i.ops[0]).strip('"')] = cv
    want = {kinds.get('murmur3'): 'MurmurHash3_x86_128', kinds.get('spooky2'): 'SpookyHash128', kinds.get('metro'): 'MetroHash128'}
    ok = all(k in disp and disp[k][0] == v and disp[k][1] == ['src', 'size', 'seed', 'digest'] for k, v in want.items()) and None not in want
    rep.check(ok, 'R-C16-3', 'memhash dispatch kind -> function, arguments passed unchanged', f.file, str(disp), function='memhash', construct='dispatch')
    for name in ('crc32c_gen', 'crc32c_x86'):
        if not P.has(name):
            continue
        f = P.fn(name)
        rep.analysed(f)
        x = [f.const_of(i.ops[1]) & 0xffffffff for i in f.all_insts() if i.op == 'xor' and f.const_of(i.ops[1]) is not None]
        rep.check(x == [0xffffffff, 0xffffffff], 'R-C16-3', '%s: IV and final xor 0xffffffff' % name, f.file, str([hex(v) for v in x]), function=name, construct='iv')
    C02.check_mode_order(ctx, rep, 'R-C16-5')
    C02.mode_selection_rule(ctx, rep, 'R-C16-5m')
    from .C04 import rehash_pairing_rule
    rehash_pairing_rule(ctx.prog, rep, 'R-C16-4p')
    # R-C16-4 hash schedule
    rep.rule('R-C16-4', 'hash schedule (multiply/add/xor magic constants, rotation amounts, at -O1) equals the reference schedule', 3)
    rep.rule('R-C16-4g', 'hash multiplier globals are never written', 1)
    from .C17 import offset_width_rule
    offset_width_rule(P, rep, 'R-C16-3o')
    from .C04 import memhash_pairing, hash_length_rule
    hash_length_rule(P, rep, 'R-C16-3l')
    memhash_pairing(P, rep, 'R-C16-3h')
    from .C10 import primitive_roundtrip_rule
    primitive_roundtrip_rule(P, rep, 'R-C16-3p')
    # an array written with a reduced hash size is repaired like one with the full size (the reference version did so)
    from .C05 import chg_decision_rules
    chg_decision_rules(P, rep, rid_size='R-C16-7')
    refs = json.load(open(os.path.join(VERIF, 'ref', 'hash_schedule.json')))
    cur = hashsched.all_schedules(ctx.util_O1)
    for fn in hashsched.FUNCS:
        if fn not in refs:
            raise AnalysisBroken('reference schedule of %s missing' % fn)
        if fn not in cur:
            raise AnalysisBroken('hash function %s not found in the -O1 unit' % fn)
        a, b = refs[fn], cur[fn]
        diff = {k: (a.get(k, 0), b.get(k, 0)) for k in set(a) | set(b) if a.get(k, 0) != b.get(k, 0)}
        rep.check(not diff, 'R-C16-4', fn, 'cmdline/util.c', '%d schedule items equal' % len(a) if not diff else 'schedule differs (reference count, current count): %s' % dict(list(diff.items())[:6]), function=fn, construct='schedule')
    gl = {k.split(':')[1] for fn in refs for k in refs[fn] if k.startswith('glob:')}
    writers = []
    for f in P.defined():
        for i in f.all_insts():
            if i.op == 'store' and i.ops[1][0] == 'g' and i.ops[1][1] in gl:
                writers.append('%s at %s' % (f.name, i.loc()))
    rep.check(not writers, 'R-C16-4g', 'stores to %s' % sorted(gl), 'cmdline/murmur3.c', 'no store in the whole program' if not writers else 'written by %s' % writers, function='murmur3 multipliers', construct='store')
    rep.extra['note'] = 'hash digests are not proven bit-for-bit; parity bytes follow from C02; see level_note'
