"""C09 — damaged content files are rejected; content replacement is atomic (necessary structure).
E3 (must-pass-through), E4 (flags), E6 (decoded-value bounds), E1 (CRC tables), E5 (load has no write effect)."""
import re
from .. import gf, effects
from ..flags import FlagAnalysis, NORETURN
from ..frontend import AnalysisBroken
from ..ir import base, CASTS

DECODE = {'sgetb32', 'sgetb64', 'sgetble32', 'sgetbs', 'sread'}
INTDEC = {'sgetb32', 'sgetb64', 'sgetble32'}


def dead_blocks(f):
    """blocks from which no `ret` is reachable (every path ends in exit/abort): the error sinks"""
    n = len(f.blocks)
    cut = set()
    for b in range(n):
        if any(i.op == 'call' and i.callee in NORETURN for i in f.blocks[b]):
            cut.add(b)
    canret = set(b for b in range(n) if f.term(b).op == 'ret' and b not in cut)
    changed = True
    while changed:
        changed = False
        for b in range(n):
            if b in canret or b in cut:
                continue
            if any(s in canret for s in f.succ[b]):
                canret.add(b)
                changed = True
    return set(range(n)) - canret


def first_cond_branch(f, ins):
    """first conditional branch reached from ins following straight-line code and unconditional jumps"""
    b, idx = ins.block, ins.idx
    for _ in range(8):
        blk = f.blocks[b]
        t = blk[-1]
        if t.op == 'br' and len(t.ops) == 3:
            return t
        if t.op == 'br' and len(t.ops) == 1:
            b = t.ops[0][1]
            continue
        return t
    return None


def depends_on(f, o, target_id, allocas_written_by=None, depth=0):
    """does operand o derive from instruction target_id (through casts, arithmetic, and a
    store/load of a local that holds target's value)?"""
    if depth > 10:
        return False
    o = f.strip(o)
    if o[0] != 'i':
        return False
    if o[1] == target_id:
        return True
    i = f.insts[o[1]]
    if i.op == 'load':
        a = f.strip(i.ops[0])
        if a[0] == 'i' and f.insts[a[1]].op == 'alloca':
            for u in f.users.get(a[1], ()):
                if u.op == 'store' and f.strip(u.ops[1]) == a and (f.strip(u.ops[0]) == ['i', target_id] or _value_from(f, u.ops[0], target_id)):
                    # the store must reach this load
                    if f.dominates(u, i) or i.id in f.reach([u]):
                        return True
        elif a[0] == 'i' and f.insts[a[1]].op == 'getelementptr':
            # value parked in a struct member (task->read_size = handle_read(...); if (task->read_size == -1))
            e = f.expr(a)
            for u in f.users.get(target_id, ()):
                if u.op == 'store' and f.strip(u.ops[0]) == ['i', target_id] and f.expr(u.ops[1]) == e and f.dominates(u, i):
                    return True
        return False
    if i.op in ('icmp', 'and', 'or', 'xor', 'add', 'sub', 'zext', 'sext', 'trunc', 'select', 'phi'):
        return any(depends_on(f, x, target_id, None, depth + 1) for x in i.ops)
    return False


def _value_from(f, o, target_id, depth=0):
    """is the stored value the call result merged with other values (`c ? call() : -1` gives a phi / select)?"""
    o = f.strip(o)
    if o[0] != 'i' or depth > 4:
        return False
    if o[1] == target_id:
        return True
    i = f.insts[o[1]]
    if i.op in ('phi', 'select', 'zext', 'sext', 'trunc'):
        return any(_value_from(f, x, target_id, depth + 1) for x in i.ops)
    return False


def rule_error_discipline(P, rep, fname, min_calls):
    f = P.fn(fname)
    rep.analysed(f)
    dead = dead_blocks(f)
    n = 0
    for c in f.calls(DECODE):
        n += 1
        br = first_cond_branch(f, c)
        ok = False
        det = ''
        if br is not None and br.op == 'br' and len(br.ops) == 3 and depends_on(f, br.ops[0], c.id):
            tb, fb = br.ops[2][1], br.ops[1][1]
            ok = tb in dead or fb in dead
            det = 'result tested at %s; failing side %s' % (br.loc(), 'cannot return' if ok else 'CAN RETURN to the decoder')
        else:
            det = 'result of %s is not tested before the decoder continues' % c.callee
        rep.check(ok, 'R-C09-3', '%s: %s(%s)' % (fname, c.callee, f.expr(c.ops[1])[:40]), c.loc(), det, function=fname, construct='%s result of %s' % (c.callee, f.expr(c.ops[1])[:40]))
    if n < min_calls:
        raise AnalysisBroken('%s: only %d decode call sites (expected >= %d)' % (fname, n, min_calls))
    # unknown tags: every switch over a decoded sub-tag has a default that cannot return; the record dispatch chain ends in one
    for b in range(len(f.blocks)):
        t = f.term(b)
        if t.op == 'switch':
            src = f.expr(t.ops[0])
            if src == 'c':
                rep.check(t.default in dead, 'R-C09-3', '%s: switch(sub-tag) default' % fname, t.loc(), 'unknown sub-tag %s' % ('aborts' if t.default in dead else 'falls through'), function=fname, construct='switch default')
    return f, dead


def array_bound_of_gep(ins, k):
    """N if step k of the GEP indexes a fixed-size array [N x T], else None"""
    ty = ins.src
    # walk the type string along the steps
    cur = ty
    for j, st in enumerate(ins.steps):
        if j == 0:
            continue
        m = re.match(r'^\[(\d+) x (.*)\]$', cur)
        if st[0] == 'a' and m:
            if j == k:
                return int(m.group(1))
            cur = m.group(2)
        elif st[0] == 's':
            # cannot follow struct field types from the string alone; use the extractor's struct table
            return None if j == k else _struct_field_type(ins, cur, st)
        else:
            return None
    return None


def gep_array_bound(P, ins, k):
    """element count N if step k of the GEP subscripts a fixed-size array, else None (pointer arithmetic)"""
    cur = ins.src
    for j, st in enumerate(ins.steps):
        if j == 0:
            continue
        m = re.match(r'^\[(\d+) x (.*)\]$', cur)
        if st[0] == 'a':
            if not m:
                return None
            if j == k:
                return int(m.group(1))
            cur = m.group(2)
        else:
            stname = cur.lstrip('%')
            ls = P.structs.get(stname)
            if ls is None:
                return None
            cur = ls['fields'][st[3]]['ty']
    return None


def guard_implies_lt(f, t, ci, alloca_id, bound, dead, sink):
    """does surviving the guard imply  decoded < B  (B = compared operand; for fixed arrays B must be a constant <= N)?
    equality guards (x == K) are accepted for constants below the bound"""
    tb, fb = t.ops[2][1], t.ops[1][1]
    l, r = f.strip(ci.ops[0]), f.strip(ci.ops[1])
    def is_var(o):
        return o[0] == 'i' and f.insts[o[1]].op == 'load' and f.strip(f.insts[o[1]].ops[0]) == ['i', alloca_id]
    p = ci.pred
    if is_var(r) and not is_var(l):
        p = {'ugt': 'ult', 'uge': 'ule', 'ult': 'ugt', 'ule': 'uge'}.get(p, p)
        other = l
    elif is_var(l):
        other = r
    else:
        return False
    c = f.const_of(other)
    # rejected on the dead edge
    if tb in dead:       # condition true => rejected ; survivors satisfy NOT p
        strict = p == 'uge' or (p == 'ugt' and c is not None)
        lim = c if p == 'uge' else (c + 1 if c is not None else None)
    elif fb in dead:     # condition false => rejected ; survivors satisfy p
        strict = p == 'ult' or (p == 'ule' and c is not None)
        lim = c if p == 'ult' else (c + 1 if c is not None else None)
    else:
        return False
    if not strict:
        return False
    if bound is not None:
        return lim is not None and lim <= bound
    return True


def rule_decoded_bounds(P, rep, f, dead):
    """R-C09-1a: a decoded integer that is used as an index is guarded by a dominating unsigned comparison whose failing side cannot return"""
    tainted = {}
    for c in f.calls(INTDEC):
        a = f.strip(c.ops[1])
        if a[0] == 'i' and f.insts[a[1]].op == 'alloca':
            tainted.setdefault(a[1], []).append(c)

    def taint_root(o, depth=0):
        """alloca ids of decoded variables the operand derives from (through casts and +/- constants)"""
        o = f.strip(o)
        if o[0] != 'i' or depth > 6:
            return set()
        i = f.insts[o[1]]
        if i.op == 'load':
            a = f.strip(i.ops[0])
            return {a[1]} if a[0] == 'i' and a[1] in tainted else set()
        if i.op in ('add', 'sub', 'mul', 'shl', 'zext', 'sext', 'trunc', 'and', 'or'):
            r = set()
            for x in i.ops:
                r |= taint_root(x, depth + 1)
            return r
        return set()

    # guards: conditional branches comparing a tainted variable (unsigned or equality), one side dead
    guards = {}
    for b in range(len(f.blocks)):
        t = f.term(b)
        if t.op != 'br' or len(t.ops) != 3:
            continue
        ci = f.inst_of(t.ops[0])
        if ci is None or ci.op != 'icmp':
            continue
        tb, fb = t.ops[2][1], t.ops[1][1]
        if not (tb in dead or fb in dead):
            continue
        for side, o in enumerate(ci.ops):
            oo = f.strip(o)
            # wrap-safety: the decoded value must enter the comparison without 32-bit arithmetic
            direct = oo[0] == 'i' and f.insts[oo[1]].op == 'load'
            for a in taint_root(o):
                guards.setdefault(a, []).append((t, ci, direct))
    sinks = []
    for i in f.all_insts():
        if i.op == 'getelementptr':
            for k, st in enumerate(i.steps):
                if st[0] == 'a' and k > 0 and f.const_of(i.ops[1 + k]) is None:
                    for a in taint_root(i.ops[1 + k]):
                        sinks.append((i, a, 'array subscript %s' % f.expr(['i', i.id])[:60]))
        elif i.op == 'call' and i.callee in ('tommy_array_get', 'tommy_array_ref', 'tommy_array_set', 'tommy_arrayblkof_ref') and len(i.ops) > 1:
            for a in taint_root(i.ops[1]):
                sinks.append((i, a, '%s index' % i.callee))
    for ins, a, what in sinks:
        var = f.insts[a].var
        gs = [(t, ci, d) for (t, ci, d) in guards.get(a, []) if f.dominates(t, ins) and ci.pred in ('ult', 'ule', 'ugt', 'uge', 'eq', 'ne')]
        bound = None
        if ins.op == 'getelementptr':
            bound = gep_array_bound(P, ins, [k for k, st in enumerate(ins.steps) if st[0] == 'a' and k > 0 and a in taint_root(ins.ops[1 + k])][0])
        safe = [g for g in gs if g[2] and guard_implies_lt(f, g[0], g[1], a, bound, dead, ins)]
        ok = bool(safe)
        det = ('guarded by %s at %s' % (f.expr(['i', safe[0][1].id]), safe[0][0].loc())) if ok else \
              ('no dominating guard implies index < bound (wrap-safe, strict): candidates %s' % [f.expr(['i', g[1].id]) for g in gs][:3] if gs else 'decoded value `%s` reaches %s without a dominating range check' % (var, what))
        rep.check(ok, 'R-C09-1a', '%s as %s' % (var, what), ins.loc(), det, function=f.name, construct='index by %s' % var)
    return tainted


def rule_bounded_fields(P, rep):
    """R-C09-1b: fields that bound loops over fixed-size arrays keep the invariant field <= N at every store in the program.
    N is read from the array type, not hard-coded."""
    targets = {('snapraid_parity', 'split_mac'): ('snapraid_parity', 'split_map'), ('snapraid_state', 'level'): ('snapraid_state', 'parity')}
    bounds = {}
    for (st, fld), (ast, afld) in targets.items():
        ds = P.distructs.get(ast)
        if not ds:
            raise AnalysisBroken('struct %s not found' % ast)
        mem = [m for m in ds['members'] if m['name'] == afld]
        if not mem:
            raise AnalysisBroken('member %s.%s not found' % (ast, afld))
        # element count from the LLVM struct layout
        ls = P.structs.get('struct.' + ast)
        n = None
        for fl in ls['fields']:
            if fl['off'] == mem[0]['off']:
                m = re.match(r'^\[(\d+) x ', fl['ty'])
                if m:
                    n = int(m.group(1))
        if n is None:
            raise AnalysisBroken('array bound of %s.%s not found' % (ast, afld))
        bounds[(st, fld)] = n
    count = 0
    # scope: stores performed by the functions that decode content files (the damaged-input path);
    # the configuration parser is not judged here
    decoders = [f for f in P.defined() if any(True for _ in f.calls(INTDEC))]
    for f in decoders:
        dead = None
        for i in f.all_insts():
            if i.op != 'store':
                continue
            gi = f.inst_of(i.ops[1])
            if gi is None or gi.op != 'getelementptr' or not gi.steps or gi.steps[-1][0] != 's':
                continue
            sname = re.sub(r'\.\d+$', '', re.sub(r'^struct\.', '', gi.steps[-1][2]))
            key = (sname, f.member(gi.steps[-1]))
            if key not in bounds:
                continue
            N = bounds[key]
            count += 1
            v = f.strip(i.ops[0])
            cv = f.const_of(v)
            inst = '%s: %s = %s' % (base(f.name), f.expr(i.ops[1])[1:60], f.expr(i.ops[0])[:40])
            if cv is not None:
                rep.check(0 <= cv <= N, 'R-C09-1b', inst, i.loc(), 'constant %d <= %d' % (cv, N), function=base(f.name), construct='%s.%s store' % key)
                continue
            if dead is None:
                dead = dead_blocks(f)
            ok, det = value_bounded(f, v, N, i, dead)
            rep.check(ok, 'R-C09-1b', inst, i.loc(), det, function=base(f.name), construct='%s.%s = %s' % (key[0], key[1], f.expr(i.ops[0])[:40]))
            rep.analysed(f)
    return count


def value_bounded(f, v, N, at, dead, depth=0):
    """is value v provably <= N at instruction `at`?  accepted forms: X+1 with X < N guarded; X guarded by X > N / X >= N+1 -> cannot return;
    copy of the same field (field invariant), increment guarded by a comparison with N"""
    v = f.strip(v)
    if depth > 4 or v[0] != 'i':
        return False, 'value is not a checked local'
    i = f.insts[v[1]]
    if i.op == 'add' and f.const_of(i.ops[1]) == 1:
        ok, det = value_bounded(f, i.ops[0], N - 1, at, dead, depth + 1)
        return ok, det
    if i.op in ('zext', 'trunc', 'sext'):
        return value_bounded(f, i.ops[0], N, at, dead, depth + 1)
    if i.op == 'load':
        a = f.strip(i.ops[0])
        src = f.expr(['i', i.id])
        # search dominating guards on the same location: branch whose dead side is taken when value > N (or >= N+1, etc.)
        for b in range(len(f.blocks)):
            t = f.term(b)
            if t.op != 'br' or len(t.ops) != 3 or not f.dominates(t, at):
                continue
            ci = f.inst_of(t.ops[0])
            if ci is None or ci.op != 'icmp':
                continue
            l, r = f.expr(ci.ops[0]), f.expr(ci.ops[1])
            c = f.const_of(ci.ops[1])
            tb, fb = t.ops[2][1], t.ops[1][1]
            if l == src and c is not None:
                # true edge dead: condition describes the rejected values
                if tb in dead and ((ci.pred in ('ugt', 'sgt') and c <= N) or (ci.pred in ('uge', 'sge') and c <= N + 1)):
                    return True, 'dominated by reject-if %s at %s' % (f.expr(['i', ci.id]), t.loc())
                if fb in dead and ((ci.pred in ('ult', 'slt') and c <= N + 1) or (ci.pred in ('ule', 'sle') and c <= N)):
                    return True, 'dominated by require %s at %s' % (f.expr(['i', ci.id]), t.loc())
                # loop/if guard (not dead) that still bounds the value on the path to `at`
                if ci.pred in ('ult', 'slt') and c <= N + 1 and f.bdominates(tb, at.block) and tb != fb and not _reaches_without(f, fb, at.block, tb):
                    return True, 'inside branch %s at %s' % (f.expr(['i', ci.id]), t.loc())
                if ci.pred in ('uge', 'sge', 'ugt', 'sgt') and ((ci.pred in ('uge', 'sge') and c <= N + 1) or (ci.pred in ('ugt', 'sgt') and c <= N)) and f.bdominates(fb, at.block) and not _reaches_without(f, tb, at.block, fb):
                    return True, 'inside else-branch of %s at %s' % (f.expr(['i', ci.id]), t.loc())
        return False, 'no dominating check bounds %s by %d' % (src, N)
    return False, 'unsupported value form %s' % i.op


def _reaches_without(f, start_b, target_b, avoid_b):
    """can target block be reached from start block without passing avoid block?"""
    seen = set()
    st = [start_b]
    while st:
        x = st.pop()
        if x in seen or x == avoid_b:
            continue
        seen.add(x)
        if x == target_b:
            return True
        st.extend(f.succ[x])
    return False


def rule_stream_primitives(P, rep):
    """R-C09-2: stream.c decoding primitives: string length guard is wrap-safe and dominates the terminator store and the read;
    varint shift amounts are bounded by the value width on every loop iteration"""
    f = P.fn('sgetbs')
    rep.analysed(f)
    dead_ret = None
    calls = list(f.calls('sgetb32'))
    if len(calls) != 1:
        raise AnalysisBroken('sgetbs: expected one sgetb32 call')
    lenal = f.strip(calls[0].ops[1])
    # the guard: conditional branch comparing load(len) with size; one side returns -1 without touching str
    guard = None
    for b in range(len(f.blocks)):
        t = f.term(b)
        if t.op == 'br' and len(t.ops) == 3:
            ci = f.inst_of(t.ops[0])
            if ci is not None and ci.op == 'icmp' and 'size' in f.expr(['i', ci.id]) and 'len' in f.expr(['i', ci.id]):
                guard = (t, ci)
    sinks = [i for i in f.all_insts() if (i.op == 'store' and 'str[' in f.expr(i.ops[1])) or (i.op == 'call' and i.callee == 'sread')]
    if guard is None:
        rep.fail('R-C09-2', 'sgetbs length guard', f.file, 'no comparison of the decoded length with the buffer size', function='sgetbs', construct='length guard')
    else:
        t, ci = guard
        l = f.strip(ci.ops[0]); r = f.strip(ci.ops[1])
        direct = any(o[0] == 'i' and f.insts[o[1]].op == 'load' and f.strip(f.insts[o[1]].ops[0]) == lenal for o in (l, r))
        strict = ci.pred in ('uge', 'ule', 'ugt', 'ult')
        # which edge continues to the sinks
        cont = [s for s in (t.ops[2][1], t.ops[1][1]) if any(f.bdominates(s, k.block) for k in sinks)]
        good_dir = False
        if direct and len(cont) == 1:
            # continuing edge must imply len < size
            on_true = cont[0] == t.ops[2][1]
            lhs_is_len = l[0] == 'i' and f.insts[l[1]].op == 'load' and f.strip(f.insts[l[1]].ops[0]) == lenal
            p = ci.pred
            # normalise to predicate on (len ? size)
            if not lhs_is_len:
                p = {'ugt': 'ult', 'uge': 'ule', 'ult': 'ugt', 'ule': 'uge'}.get(p, p)
            if on_true:
                good_dir = p == 'ult'
            else:
                good_dir = p == 'uge'
        rep.check(direct and strict and good_dir and all(f.dominates(t, k) for k in sinks) and len(sinks) >= 2, 'R-C09-2', 'sgetbs length guard', t.loc(),
                  'guard %s; decoded length enters the comparison %s; continuing edge implies len < size: %s; dominates %d sinks (str[len]=0, sread)' % (f.expr(['i', ci.id]), 'directly' if direct else 'through arithmetic that can wrap', good_dir, len(sinks)),
                  function='sgetbs', construct='length guard')
    for name, W in (('sgetb32', 32), ('sgetb64', 64)):
        g = P.fn(name)
        rep.analysed(g)
        # a damaged varint (continuation bytes without end) must be refused without ever shifting by the width or more:
        # the decoder is interpreted on 12 continuation bytes, on an over-long encoding and on the longest valid one
        from .. import region as RG
        lay = P.distructs.get('stream')
        so = {m['name']: m['off'] for m in lay['members']}
        def decode(data):
            R = RG.Region(P, extern=lambda ins, args: ((0xffffffff,) if ins.callee == 'sgetc_uncached' else None))
            sp = RG.P_(('obj', 'stream'), 0)
            rb = R.array('rbuf', list(data) + [0x55], 1)
            R.mem[(sp.reg, so['pos'])] = rb; R.mem[(sp.reg, so['end'])] = RG.P_(rb.reg, len(data))
            res = RG.P_(('obj', 'value'), 0)
            try:
                rv = R.run(g, 0, [sp, res])
            except RG.OutOfBounds as e:
                return 'ub', str(e), None
            except RG.Unsupported as e:
                raise AnalysisBroken('cannot interpret %s: %s' % (name, e))
            return RG.signed(rv & 0xffffffff, 32), R.mem.get((res.reg, 0)), R.mem[(sp.reg, so['pos'])].off
        ngroups = (W + 6) // 7
        cases = [('endless continuation', [0x00] * 12, 'reject'), ('one group too many', [0x01] * ngroups + [0x81], 'reject'),
                 ('longest valid encoding', [0x7f] * (ngroups - 1) + [0x80 | ((1 << (W - 7 * (ngroups - 1))) - 1)], 'accept')]
        bad_ = None
        for what, data, want in cases:
            rv, val_, used = decode(data)
            if rv == 'ub':
                bad_ = bad_ or '%s: %s' % (what, val_)
            elif want == 'reject' and rv == 0:
                bad_ = bad_ or '%s (%d bytes) is accepted with value %s' % (what, len(data), val_)
            elif want == 'accept' and (rv != 0 or val_ != (1 << W) - 1):
                bad_ = bad_ or '%s is not decoded to the maximum value (status %s, value %s)' % (what, rv, val_)
        rep.check(bad_ is None, 'R-C09-2', '%s: damaged varints are refused without an oversize shift' % name, g.file, '3 adversarial encodings' if bad_ is None else bad_, function=name, construct='shift bound')
    g = P.fn('sgetble32')
    rep.analysed(g)
    c = list(g.calls('sread'))
    rep.check(len(c) == 1 and g.const_of(c[0].ops[2]) == 4, 'R-C09-2', 'sgetble32 reads 4 bytes into a 4-byte buffer', g.file, 'sread length %s' % (g.const_of(c[0].ops[2]) if c else '?'), function='sgetble32', construct='read length')


def dest_capacity(P, f, o):
    """capacity in bytes of the object a pointer operand points into (local array, or array member of a struct), or None"""
    o = f.strip(o)
    if o[0] != 'i':
        return None
    i = f.insts[o[1]]
    if i.op == 'alloca':
        return i.asize
    if i.op == 'getelementptr':
        base_ = f.strip(i.ops[0])
        if i.off == 0 and base_[0] == 'i' and f.insts[base_[1]].op == 'alloca':
            return f.insts[base_[1]].asize
        # array member: the type reached by the steps before the final element step
        cur = i.src
        last_arr = None
        for j, st in enumerate(i.steps):
            if j == 0:
                continue
            m = re.match(r'^\[(\d+) x (.*)\]$', cur)
            if st[0] == 'a' and m:
                last_arr = (int(m.group(1)), m.group(2), P.const_index(f, i.ops[1 + j]))
                cur = m.group(2)
            elif st[0] == 's':
                ls = P.structs.get(cur.lstrip('%'))
                if ls is None:
                    return None
                cur = ls['fields'][st[3]]['ty']
                last_arr = None
            else:
                return None
        if last_arr and last_arr[1] == 'i8' and last_arr[2] == 0:
            return last_arr[0]
    return None


def rule_read_capacity(P, rep):
    """R-C09-2c: every bounded read primitive is given a bound that fits the destination it is given (program-wide)"""
    n = 0
    for f in P.defined():
        for c in f.calls({'sgetbs', 'sread', 'sgetline', 'sgettok'}):
            if len(c.ops) < 3:
                continue
            bound = f.const_of(c.ops[2])
            cap = dest_capacity(P, f, c.ops[1])
            if bound is None or cap is None:
                continue
            n += 1
            rep.check(bound <= cap, 'R-C09-2c', '%s: %s(%s, %d) into a %d-byte object' % (base(f.name), c.callee, f.expr(c.ops[1])[:30], bound, cap), c.loc(),
                      'bound fits' if bound <= cap else 'the size passed to %s (%d) exceeds the destination (%d bytes): a damaged length overflows the buffer' % (c.callee, bound, cap),
                      function=base(f.name), construct='%s bound of %s' % (c.callee, f.expr(c.ops[1])[:30]))
            rep.analysed(f)
    return n


def rule_crc(P, rep, f, dead):
    """R-C09-4: CRC must-pass-through in state_read_content"""
    rets = f.returns()
    if len(rets) != 1:
        raise AnalysisBroken('state_read_content: expected one return')
    # the compare of the stored CRC (out-parameter of the only sgetble32 call) with the computed one (result of scrc), found by value flow
    scrc = [c for c in f.calls('scrc')]
    rd = [c for c in f.calls('sgetble32')]
    if len(scrc) != 1 or len(rd) != 1:
        raise AnalysisBroken('state_read_content: expected one scrc() and one sgetble32() call (%d, %d)' % (len(scrc), len(rd)))
    stored = f.strip(rd[0].ops[1])
    cmpbr = None
    for b in range(len(f.blocks)):
        t = f.term(b)
        if t.op == 'br' and len(t.ops) == 3:
            ci = f.inst_of(t.ops[0])
            if ci is not None and ci.op == 'icmp' and ci.pred in ('eq', 'ne'):
                sides = []
                for o in ci.ops:
                    li = f.inst_of(o)
                    if li is not None and li.op == 'load' and f.strip(li.ops[0]) == stored:
                        sides.append('stored')
                    elif ('call', 'scrc') in f.value_sources(o):
                        sides.append('computed')
                if sorted(sides) == ['computed', 'stored']:
                    cmpbr = (t, ci)
    if cmpbr is None:
        rep.check(False, 'R-C09-4', 'state_read_content compares the stored CRC with the computed one', f.file, 'no branch compares the value read by sgetble32() with the result of scrc(): the CRC of the content file is never verified', function='state_read_content', construct='crc compare')
        return
    t, ci = cmpbr
    eq_edge = t.ops[2][1] if ci.pred == 'eq' else t.ops[1][1]
    ne_edge = t.ops[1][1] if ci.pred == 'eq' else t.ops[2][1]
    cut = {(t.id, eq_edge)}
    skipping = rets[0].id in f.reach([f.entry()], cut_edges=cut, include_start=True)
    det = 'every CFG path to the return crosses the equal edge of %s' % f.expr(['i', ci.id])
    ok = True
    if skipping:
        # paths that do not cross the equal edge exist in the CFG (end of file before the CRC record): they must be excluded by a
        # flag that is set only on the equal edge and tested before the return
        cands = []
        for a_ in f.all_insts():
            if a_.op != 'alloca' or a_.id in f.arg_allocas():
                continue
            us = f.users.get(a_.id, ())
            if not us or not all(u.op == 'load' or (u.op == 'store' and f.strip(u.ops[1]) == ['i', a_.id] and f.const_of(u.ops[0]) is not None) for u in us):
                continue
            sets = [u for u in us if u.op == 'store' and f.const_of(u.ops[0]) != 0]
            if sets and all(f.edge_dominates(t, eq_edge, u) for u in sets):
                cands.append(a_.id)
        ok = False
        det = 'the return is reachable without crossing the equal edge of the CRC compare and no flag set only on that edge guards it'
        if cands:
            fa = FlagAnalysis(f, flag_ids=cands)
            states = fa.at(rets[0])
            ok = bool(states) and all(any(v == 1 for v in s.values()) for s in states)
            det = 'flag(s) %s set only on the equal edge; possible values at the return: %s' % ([f.insts[c_].var for c_ in cands], sorted(set(str(tuple(s.values())) for s in states)))
        if not ok:
            path = f.find_path(f.entry(), rets[0], cut_edges=cut)
            det += '; e.g. path through lines %s' % [p_.line for p_ in (path or [])][-8:]
    rep.check(ok, 'R-C09-4', 'state_read_content returns only after stored CRC == computed CRC', rets[0].loc(), det, function='state_read_content', construct='crc verified at return')
    ok2 = ne_edge in dead and f.dominates(scrc[0], rd[0]) and f.dominates(rd[0], t)
    rep.check(ok2, 'R-C09-4', 'CRC mismatch cannot return; the CRC is computed before the stored value is read', t.loc(), 'mismatch edge dead: %s; scrc() precedes sgetble32(): %s' % (ne_edge in dead, f.dominates(scrc[0], rd[0])), function='state_read_content', construct='crc compare')
    # state_read: checked_read only after state_read_content returned
    g = P.fn('state_read')
    rep.analysed(g)
    sets = [i for i in g.all_insts() if i.op == 'store' and g.expr(i.ops[1]).endswith('->checked_read') and g.const_of(i.ops[0]) == 1]
    calls = list(g.calls('state_read_content'))
    rep.check(bool(sets) and bool(calls) and all(g.must_pass(s, calls) for s in sets), 'R-C09-4', 'state_read sets checked_read only after state_read_content', g.file, '%d stores, %d decoder calls' % (len(sets), len(calls)), function='state_read', construct='checked_read')

    # a copy that could be opened is decoded (or the run dies): the "no content file, assume empty" path is reachable only when
    # every open failed, never because an opened stream was given up
    rep.rule('R-C09-4e', 'state_read: the stream variable is null only initially or as the result of a failed open; an opened copy is closed only after the decoder ran', 2)
    fal = [i for i in g.all_insts() if i.op == 'alloca' and i.vty and 'STREAM' in i.vty.upper()]
    opens = list(g.calls('sopen_read'))
    if len(fal) != 1 or len(opens) != 1:
        raise AnalysisBroken('state_read: stream local / sopen_read not found')
    sts = [u for u in g.users.get(fal[0].id, ()) if u.op == 'store' and g.strip(u.ops[1]) == ['i', fal[0].id]]
    bad_st = []
    for u in sts:
        v = g.strip(u.ops[0])
        if v == ['i', opens[0].id]:
            continue
        if g.const_of(u.ops[0]) == 0 and g.loop_of(u.block) is None and g.dominates(u, opens[0]):
            continue
        bad_st.append('line %s: f = %s' % (u.line, g.expr(u.ops[0])))
    rep.check(not bad_st, 'R-C09-4e', 'state_read: no assignment gives up an opened content copy', opens[0].loc(), 'stores to the stream variable: %d' % len(sts) if not bad_st else 'the stream is reset after the open (%s): a copy that exists can be treated as missing' % bad_st, function='state_read', construct='stream reset')
    closes = list(g.calls('sclose'))
    dec = list(g.calls({'state_read_content', 'state_read_text'}))
    okc = bool(closes) and bool(dec) and all(g.must_pass(c_, dec) for c_ in closes)
    rep.check(okc, 'R-C09-4e', 'state_read: sclose only after the decoder', closes[0].loc() if closes else g.file, '%d close sites' % len(closes), function='state_read', construct='close after decode')


def rule_main_order(ctx, rep):
    """no command body runs before state_read returned: in main every state_* command call is preceded by state_read on all paths"""
    P = ctx.prog
    f = P.fn('main')
    rep.analysed(f)
    reads = list(f.calls('state_read'))
    bodies = [c for c in f.calls() if c.callee in ('state_diff', 'state_scan', 'state_sync', 'state_dry', 'state_rehash', 'state_scrub', 'state_write', 'state_touch', 'state_status',
                                                    'state_dup', 'state_list', 'state_pool', 'state_check', 'state_filter', 'state_refresh', 'state_import', 'state_search', 'state_search_array')]
    if len(reads) < 10 or len(bodies) < 15:
        raise AnalysisBroken('main: state_read / command body call sites not found')
    for c in bodies:
        rep.check(f.must_pass(c, reads), 'R-C09-4', 'main: %s after state_read' % c.callee, c.loc(), 'every path from entry to the call passes state_read', function='main', construct='%s before state_read' % c.callee)


def rule_save_protocol(ctx, rep):
    P = ctx.prog
    f = P.fn('state_write')
    rep.analysed(f)
    seq = []
    for name in ('state_write_content', 'state_verify_content', 'state_rename_content'):
        cs = list(f.calls(name))
        if len(cs) != 1:
            raise AnalysisBroken('state_write: expected exactly one call of %s' % name)
        seq.append(cs[0])
    rep.check(f.dominates(seq[0], seq[1]) and f.dominates(seq[1], seq[2]), 'R-C09-6', 'state_write: write -> verify -> rename', f.file, 'dominance order of the three phases', function='state_write', construct='phase order')
    # crc handed from write to verify
    rep.check(f.expr(seq[0].ops[1]) == '&crc' and f.expr(seq[1].ops[1]) == 'crc', 'R-C09-6', 'state_write: verify receives the CRC produced by the writer', seq[1].loc(), 'write(&crc) / verify(crc)', function='state_write', construct='crc hand-over')
    # rename only in state_rename_content / handle_create / file_post
    w = P.fn('state_write_content')
    rep.analysed(w)
    dead = dead_blocks(w)
    order = ['remove', 'sopen_multi_file', 'state_write_thread', 'sflush', 'ssync', 'sclose']
    sites = {}
    for n in order:
        cs = [c for c in w.calls(n)]
        if not cs:
            # writer may be started through thread_create
            if n == 'state_write_thread':
                cs = [c for c in w.calls('thread_create') if 'state_write_thread' in w.expr(['i', c.id])]
            if not cs:
                if n not in ('remove',) and not P.variants(n) and n not in P.functions:
                    raise AnalysisBroken('state_write_content: anchor function %s does not exist' % n)
                rep.fail('R-C09-6', 'state_write_content: step %s present' % n, w.file, 'the save path never calls %s' % n, function='state_write_content', construct='missing %s' % n)
        sites[n] = cs
    rets = w.returns()
    for a, b in zip(order[2:], order[3:]):
        ok = bool(sites[a]) and bool(sites[b]) and all(w.must_pass(y, sites[a]) for y in sites[b])
        rep.check(ok, 'R-C09-6', 'state_write_content: %s before %s' % (a, b), sites[b][0].loc() if sites[b] else w.file, 'every path to %s passes %s' % (b, a), function='state_write_content', construct='%s->%s' % (a, b))
    for n in ('sflush', 'ssync', 'sclose'):
        ok = bool(sites[n]) and all(w.must_pass(r, sites[n]) for r in rets)
        rep.check(ok, 'R-C09-6', 'state_write_content: return passes %s' % n, w.file, 'every path to the return passes %s' % n, function='state_write_content', construct='return via %s' % n)
    for n in ('sopen_multi_file', 'sflush', 'ssync', 'sclose', 'remove'):
        for c in sites[n]:
            br = first_cond_branch(w, c)
            ok = br is not None and br.op == 'br' and len(br.ops) == 3 and depends_on(w, br.ops[0], c.id)
            if ok and n != 'remove':
                ok = br.ops[2][1] in dead or br.ops[1][1] in dead
            rep.check(ok, 'R-C09-6', 'state_write_content: %s result is fatal on failure' % n, c.loc(), 'tested at %s' % (br.loc() if br is not None else '?'), function='state_write_content', construct='%s result' % n)
    # stale tmp removed before creating it, tmp name = "<content>.tmp" on both sides
    ok = bool(sites['remove']) and bool(sites['sopen_multi_file']) and all(w.must_pass(c, sites['remove']) for c in sites['sopen_multi_file'])
    rep.check(ok, 'R-C09-6', 'state_write_content: stale .tmp removed before O_EXCL create', w.file, '', function='state_write_content', construct='remove before create')
    # O_CREAT|O_EXCL
    so = P.fn('sopen_multi_file')
    rep.analysed(so)
    bits = effects.Bits(P)
    for c in so.calls('open'):
        fl = bits.of(so, c.ops[1])
        rep.check(fl is not None and (fl & effects.O_CREAT) and (fl & effects.O_EXCL) and not (fl & effects.O_TRUNC), 'R-C09-6', 'sopen_multi_file: open(O_CREAT|O_EXCL)', c.loc(), 'flags %s' % (oct(fl) if fl is not None else '?'), function='sopen_multi_file', construct='open flags')
    # verify thread: both comparisons, failing side returns non-null
    v = P.fn('state_verify_thread')
    rep.analysed(v)
    cmps = []
    for b in range(len(v.blocks)):
        t = v.term(b)
        if t.op == 'br' and len(t.ops) == 3:
            ci = v.inst_of(t.ops[0])
            if ci is not None and ci.op == 'icmp':
                e = v.expr(['i', ci.id])
                if 'crc' in e:
                    cmps.append((t, ci, e))
    want = [lambda e: 'crc_stored' in e and 'context->crc' in e, lambda e: 'crc_computed' in e and 'crc_stored' in e]
    for k, wf in enumerate(want):
        hit = [x for x in cmps if wf(x[2])]
        ok = len(hit) == 1
        if ok:
            t, ci, e = hit[0]
            # the success return (null) is reachable only through the equal edge
            succ_rets = [s for s in v.all_insts() if s.op == 'store' and v.expr(s.ops[1]) == '&retval' and v.const_of(s.ops[0]) == 0]
            eq_edge = t.ops[2][1] if ci.pred == 'eq' else t.ops[1][1]
            ok = bool(succ_rets) and all(v.edge_dominates(t, eq_edge, s) for s in succ_rets) and ci.pred in ('eq', 'ne')
        rep.check(ok, 'R-C09-6', 'state_verify_thread: success only if %s' % ('stored CRC == writer CRC' if k == 0 else 'file CRC == stored CRC'), v.file, hit[0][2] if hit else 'comparison not found', function='state_verify_thread', construct='compare %d' % k)
    sd = list(v.calls('sdeplete')); sc = list(v.calls('scrc'))
    rep.check(len(sd) == 1 and len(sc) == 1 and v.dominates(sd[0], sc[0]), 'R-C09-6', 'state_verify_thread: CRC taken after the whole file was consumed', v.file, 'sdeplete dominates scrc', function='state_verify_thread', construct='deplete before crc')
    vc = P.fn('state_verify_content')
    rep.analysed(vc)
    deadv = dead_blocks(vc)
    # any non-null thread result is fatal
    ok = any(i.op == 'call' and i.callee in ('exit', 'os_abort') for b in deadv for i in vc.blocks[b])
    opens = list(vc.calls('sopen_read'))
    rep.check(ok and bool(opens), 'R-C09-6', 'state_verify_content re-opens each .tmp and is fatal on failure', vc.file, '%d sopen_read sites' % len(opens), function='state_verify_content', construct='fatal on failure')
    # sticky failure flag: the local that makes state_verify_content exit after the join loop may only be raised inside loops
    # (constant non-zero store or or-accumulation), never overwritten with a per-copy value
    for fn in (vc, w):
        dd = dead_blocks(fn)
        for b in range(len(fn.blocks)):
            t = fn.term(b)
            if t.op == 'br' and len(t.ops) == 3 and t.ops[2][1] in dd:
                ci = fn.inst_of(t.ops[0])
                li = fn.inst_of(ci.ops[0]) if ci is not None and ci.op == 'icmp' else None
                if li is None or li.op != 'load':
                    continue
                a = fn.strip(li.ops[0])
                if a[0] != 'i' or fn.insts[a[1]].op != 'alloca' or fn.loop_of(b) is not None:
                    continue
                al = fn.insts[a[1]]
                inloop = [u for u in fn.users.get(al.id, ()) if u.op == 'store' and fn.strip(u.ops[1]) == a and fn.loop_of(u.block) is not None]
                if not inloop:
                    continue
                bad = []
                for u in inloop:
                    k = fn.const_of(u.ops[0])
                    if k is not None and k != 0:
                        continue
                    vi = fn.inst_of(u.ops[0])
                    if vi is not None and vi.op == 'or' and any(fn.expr(o) == (al.var or al.name) for o in vi.ops):
                        continue
                    bad.append(u)
                rep.check(not bad, 'R-C09-6', '%s: failure flag `%s` is sticky across the per-copy loop' % (fn.name, al.var), (bad[0].loc() if bad else t.loc()),
                          '%d raising stores in loops' % len(inloop) if not bad else 'the flag is overwritten inside the loop by %s: a failure of an earlier copy is forgotten' % fn.expr(bad[0].ops[0]), function=fn.name, construct='sticky flag %s' % al.var)
    # who calls rename on content names
    rn = P.fn('state_rename_content')
    rep.analysed(rn)
    deadr = dead_blocks(rn)
    for c in rn.calls('rename'):
        br = first_cond_branch(rn, c)
        ok = br is not None and len(br.ops) == 3 and depends_on(rn, br.ops[0], c.id) and (br.ops[2][1] in deadr or br.ops[1][1] in deadr)
        rep.check(ok, 'R-C09-6', 'state_rename_content: rename failure is fatal', c.loc(), '', function='state_rename_content', construct='rename result')
    # atomic replacement: the published name is only ever replaced by rename(); nothing in the renaming phase deletes / truncates it first
    # (a crash between the deletion and the rename would leave no content file under that name)
    DESTROYERS = {'remove', 'unlink', 'truncate', 'ftruncate', 'open', 'fopen', 'sopen_multi_file', 'sopen_write'}
    rns = list(rn.calls('rename'))
    for c in rn.calls(DESTROYERS):
        same = any(rn.expr(c.ops[0]) == rn.expr(r_.ops[1]) for r_ in rns)
        rep.check(not same, 'R-C09-6', 'state_rename_content: the published content name is replaced only by rename()', c.loc(),
                  '%s(%s) on a different path' % (c.callee, rn.expr(c.ops[0])[:40]) if not same else '%s(%s) acts on the rename() destination: between it and the rename a crash leaves no content file under that name (non-atomic replacement)' % (c.callee, rn.expr(c.ops[0])[:50]),
                  function='state_rename_content', construct='destination touched before rename')
    # tmp suffix agreement between writer, verifier and renamer
    sufs = {}
    for fn in (w, vc, rn):
        for c in fn.calls('pathprint'):
            fmt = fn.expr(c.ops[2])
            if 'tmp' in fmt:
                sufs[fn.name] = fmt
    rep.check(len(sufs) == 3 and len(set(sufs.values())) == 1, 'R-C09-6', 'temporary name agrees in write/verify/rename', w.file, str(sufs), function='state_write', construct='tmp name')


def rule_crc_tables(P, rep):
    ts = gf.crc32c_tables()
    import struct
    for k in range(4):
        b = P.global_bytes('CRC32C_%d' % k)
        vals = list(struct.unpack('<256I', b[:1024]))
        bad = [n for n in range(256) if vals[n] != ts[k][n]]
        rep.check(not bad, 'R-C09-7', 'CRC32C_%d[256]' % k, 'cmdline/util.c', '256 entries compared with the reflected Castagnoli slicing table' if not bad else 'entry %d wrong' % bad[0], function='CRC32C_%d' % k, construct='table')


def run(ctx, rep):
    P = ctx.prog
    rep.explanation = ('Content decoder: every decode primitive result is tested and the failing side cannot return (error discipline over all call sites); decoded integers used as indices are '
                       'dominated by wrap-safe range checks; fields that bound loops over fixed arrays keep field <= N at every store in the program; the CRC flag analysis shows the loader returns only '
                       'after stored == computed; the save protocol (remove stale tmp, O_EXCL create, write, flush, fsync, close, re-read and compare CRCs, rename) is checked as dominance/must-pass rules; '
                       'CRC tables equal the Castagnoli definition. Decides the structural clauses, not atomicity under kills.')
    rep.assumptions = ['callee summaries: fs_file2block_get aborts on out-of-range (checked as R-C09-1c)', 'POSIX rename() is atomic']
    rep.rule('R-C09-1a', 'decoded integer used as array/vector index is dominated by a wrap-safe range check whose failing side cannot return', 5)
    rep.rule('R-C09-1b', 'bounded-field invariant: every store of the content decoders to split_mac / level is <= the size of the array it indexes', 4)
    rep.rule('R-C09-1c', 'sanitising callees abort on out-of-range positions', 1)
    rep.rule('R-C09-2', 'stream primitives: wrap-safe string length guard, varint shift bounds, fixed read lengths', 4)
    rep.rule('R-C09-3', 'every decode primitive result in the content/aux decoders is tested and the failing side cannot return', 46)
    rep.rule('R-C09-4', 'CRC must-pass-through: loader returns only with crc verified; commands run only after state_read', 18)
    rep.rule('R-C09-5', 'loading has no write effect', 1)
    rep.rule('R-C09-6', 'save protocol ordering: write->flush->fsync->close->verify->rename, all failures fatal', 20)
    rep.rule('R-C09-7', 'CRC-32C tables equal the reflected Castagnoli polynomial slicing tables', 4)
    f, dead = rule_error_discipline(P, rep, 'state_read_content', 46)
    rule_decoded_bounds(P, rep, f, dead)
    rule_bounded_fields(P, rep)
    g = P.fn('fs_file2block_get')
    rep.analysed(g)
    dg = dead_blocks(g)
    ok = False
    for b in range(len(g.blocks)):
        t = g.term(b)
        if t.op == 'br' and len(t.ops) == 3:
            ci = g.inst_of(t.ops[0])
            if ci is not None and ci.op == 'icmp' and ci.pred == 'uge' and 'blockmax' in g.expr(ci.ops[1]) and t.ops[2][1] in dg:
                ok = True
    rep.check(ok, 'R-C09-1c', 'fs_file2block_get aborts when file_pos >= blockmax', g.file, '', function='fs_file2block_get', construct='range abort')
    rule_stream_primitives(P, rep)
    rep.rule('R-C09-2c', 'every bounded read (sgetbs/sread/...) is given a bound no larger than the destination object', 15)
    rule_read_capacity(P, rep)
    rule_crc(P, rep, f, dead)
    rule_main_order(ctx, rep)
    # R-C09-5: loading has no write effect
    eff, seen, fns = effects.command_effects(P, 'state_read')
    bad = set(eff) - {'STDERR', 'ABORT', 'STREAM_WRITE', 'LOG'}
    rep.check(not bad, 'R-C09-5', 'state_read effect set', P.fn('state_read').file, 'effects reachable from state_read: %s' % sorted(eff), function='state_read', construct='write effect')
    rule_save_protocol(ctx, rep)
    stream_all_handles_rule(P, rep, 'R-C09-6m')
    copies_compared_rule(P, rep, 'R-C09-8')
    rule_crc_tables(P, rep)


READ_CALLS = {'read', 'pread', 'pread64', 'fread', 'mmap', 'mmap64', 'readv', 'preadv', 'fgets', 'fgetc', 'getc'}


def copies_compared_rule(P, rep, rid):
    """`after a successful command all copies are byte-identical`: a save that is killed (or fails) between two renames leaves copy 1
    new and the others old -- allowed -- and the NEXT command must notice it, because only `need_write` makes sync / scrub write the
    content again.  The loader looks at the other copies in a loop of state_read; whatever it decides there without reading a single
    byte of the other copy (its size, its time) cannot tell an old copy from a new one of the same length (a scrub changes only
    times, an in-place rewrite only hashes).  Rule: in that loop every path of one iteration either sets need_write, or passes a call
    that reads the content of the other copy and a need_write store is reachable from that call."""
    rep.rule(rid, 'state_read: each iteration of the loop over the other content copies sets need_write or reads bytes of that copy (with a need_write store depending on the read); a stat() alone does not prove a copy current', 1)
    g = P.fn('state_read')
    rep.analysed(g)
    opens = list(g.calls('sopen_read'))
    nw = [i for i in g.all_insts() if i.op == 'store' and g.expr(i.ops[1]).endswith('->need_write') and g.const_of(i.ops[0]) == 1]
    cand = [(h, body) for h, body in g.loops.items() if not any(c.block in body for c in opens) and any(i.block in body for i in nw)]
    if len(cand) != 1 or not opens:
        raise AnalysisBroken('state_read: the loop over the other content copies (a loop without sopen_read that stores need_write) was not found: %d candidates' % len(cand))
    h, body = cand[0]
    cg = P.callgraph()
    # the name of the copy examined in this iteration: the buffer(s) filled by pathcpy / pathprint inside the loop
    def alloca_of(o):
        i_ = g.inst_of(o)
        while i_ is not None and i_.op in ('getelementptr', 'bitcast'):
            i_ = g.inst_of(i_.ops[0])
        return i_ if i_ is not None and i_.op == 'alloca' else None
    own = set()
    for c in g.calls({'pathcpy', 'pathprint', 'pathimport'}):
        if c.block in body:
            a_ = alloca_of(c.ops[0])
            if a_ is not None:
                own.add(a_.id)
    if not own:
        raise AnalysisBroken('state_read: the path of the other content copy (a buffer filled inside the loop) was not identified')
    def on_own_path(c):
        return any((alloca_of(o) is not None and alloca_of(o).id in own) for o in c.ops)
    opened = [c for c in g.calls({'open', 'open64', 'fopen', 'sopen_read'}) if c.block in body and on_own_path(c)]
    reads = []
    for c in g.calls():
        if c.block not in body or c.asm is not None:
            continue
        if c.callee in READ_CALLS:
            if opened:
                reads.append(c)
        elif c.callee_full and P.has(c.callee) and not P.fn(c.callee).decl:
            if any(base(x) in READ_CALLS for x in P.reachable([c.callee_full], cg)) and c.callee not in ('log_fatal', 'log_error', 'log_tag', 'msg_progress') and on_own_path(c):
                reads.append(c)
    stops = {i.id for i in nw if i.block in body} | {c.id for c in reads}
    t = g.term(h)
    starts = [g.blocks[s_][0] for s_ in g.succ[h] if s_ in body]
    r = g.reach(starts, stop=stops, include_start=True)
    latches = [g.term(b) for b in body if h in g.succ[b] and b != h]
    free = [l for l in latches if l.id in r]
    used = any(any(i.id in g.reach([c], stop={g.blocks[h][0].id}) for i in nw if i.block in body) for c in reads)
    ok = not free and (not reads or used)
    if free:
        det = 'an iteration can reach the next copy (line %s) without setting need_write and without reading a byte of the other copy (content reads in the loop: %s): an old copy of the same size as the new one, left by a save interrupted between two renames, stays old after every later successful command' % (free[0].line, [c.callee for c in reads] or 'none')
    elif reads and not used:
        det = 'the bytes read from the other copy by %s never lead to need_write' % reads[0].callee
    else:
        det = '%d need_write stores, content reads: %s' % (len([i for i in nw if i.block in body]), [c.callee for c in reads])
    rep.check(ok, rid, 'state_read: an existing other copy is believed current only after its bytes were read', (free[0].loc() if free else t.loc()), det, function='state_read', construct='other copy not read')


def stream_all_handles_rule(P, rep, rid):
    """the content file is written through one stream with several file handles (one per copy, or one per writer thread): the
    primitives that loop over the handles -- write of the buffer, fsync, close -- must apply the system call to the handle of the
    current iteration.  A descriptor that does not derive from handle[i] (say, always the first handle) flushes / closes one copy n
    times and the other copies never: they are renamed unflushed, and their fsync errors are never seen."""
    rep.rule(rid, 'stream.c: in every loop over s->handle_size the descriptor handed to write / fsync / close derives from s->handle[<loop counter>]', 3)
    n = 0
    for f in P.defined():
        if not (f.file or '').endswith('stream.c'):
            continue
        for h, body in f.loops.items():
            t = f.term(h)
            ci = f.inst_of(t.ops[0]) if t.op == 'br' and len(t.ops) == 3 else None
            if ci is None or ci.op != 'icmp' or not any(f.xexpr(o).endswith('->handle_size') for o in ci.ops):
                continue
            cnt = None
            for o in ci.ops:
                li = f.inst_of(o)
                if li is not None and li.op == 'load' and f.strip(li.ops[0])[0] == 'i' and f.insts[f.strip(li.ops[0])[1]].op == 'alloca':
                    cnt = f.insts[f.strip(li.ops[0])[1]]
            for c in f.calls({'write', 'fsync', 'close', 'fdatasync', 'pwrite'}):
                if c.block not in body:
                    continue
                n += 1
                rep.analysed(f)
                src = f.value_sources(c.ops[0])
                e = f.xexpr(c.ops[0])
                ok = any(x[0] == 'mem' and '->handle[' in x[1] for x in src) and cnt is not None and ('handle[%s]' % (cnt.var or '')) in e
                rep.check(ok, rid, '%s: %s(%s) in the loop over the handles' % (base(f.name), c.callee, e[:40]), c.loc(),
                          'descriptor of the handle of this iteration' if ok else 'the descriptor (%s) does not come from s->handle[%s]: the call is applied to the same file in every iteration, the other copies are never flushed / synced / closed and their errors are not seen' % (e[:60], cnt.var if cnt is not None else 'i'),
                          function=base(f.name), construct='%s on every handle' % c.callee)
    if n < 3:
        raise AnalysisBroken('stream.c: loops over the handles not recognised (%d calls)' % n)
