"""Control-dependence guards of an instruction: the conjunction of branch outcomes every path to it must take."""
from .flags import NORETURN


def guards_of(f, target, expand=False):
    """list of (condition expression, outcome) for every conditional branch that dominates `target` and of which only
    one successor can reach `target` (without passing the branch again)"""
    res = []
    tb = target.block
    for b in range(len(f.blocks)):
        t = f.term(b)
        if t.op != 'br' or len(t.ops) != 3 or not f.bdominates(b, tb) or (b == tb):
            continue
        outs = []
        for val, s in ((True, t.ops[2][1]), (False, t.ops[1][1])):
            if _reaches(f, s, tb, avoid=b):
                outs.append(val)
        if len(outs) == 1:
            res.append((normalise(f, t.ops[0], outs[0], expand)))
    return res


def _reaches(f, start, goal, avoid):
    seen = set()
    st = [start]
    while st:
        x = st.pop()
        if x == goal:
            return True
        if x in seen or x == avoid:
            continue
        seen.add(x)
        if any(i.op == 'call' and i.callee in NORETURN for i in f.blocks[x]):
            continue
        st.extend(f.succ[x])
    return False


def normalise(f, cond, outcome, expand=False):
    """(atom, polarity): `(x != 0)` true -> (x, True); `(x == 0)` true -> (x, False); other comparisons kept verbatim"""
    o = f.strip(cond)
    pol = outcome
    for _ in range(4):
        if o[0] != 'i':
            break
        i = f.insts[o[1]]
        if i.op == 'icmp' and f.const_of(i.ops[1]) == 0 and i.pred in ('ne', 'eq'):
            if i.pred == 'eq':
                pol = not pol
            o = f.strip(i.ops[0])
            continue
        if i.op == 'xor' and f.const_of(i.ops[1]) in (1, -1):
            pol = not pol
            o = f.strip(i.ops[0])
            continue
        break
    return ((f.xexpr(o) if expand else f.expr(o)), pol)


def option_atoms(guards):
    """atoms that read a command-line option (state->opt.* / opt.*)"""
    return {(a, p) for a, p in guards if 'opt.' in a}


import re as _re
_STATE = _re.compile(r'^\(block_state_get\((.*)\)(==|!=)(\d+)\)$')


def state_test(atom):
    """(object expression, K, True if the atom reads `state == K`) for an (expanded) atom comparing a block state with a constant"""
    m = _STATE.match(atom.replace(' ', ''))
    if not m:
        return None
    return m.group(1), int(m.group(3)), m.group(2) == '=='


def state_is(gs, k):
    """do the (expanded) guards imply that the block state equals k?"""
    for a, p in gs:
        t = state_test(a)
        if t and t[1] == k and t[2] == p:
            return True
    return False
