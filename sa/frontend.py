"""Front end: /repo working tree -> LLVM IR -> JSON facts.

Every check rebuilds from /repo's *current* sources.  A content-addressed cache
(/verif/.cache/<sha>) avoids recompiling an identical tree when several checks run in a
row; the key is the sha256 of every source/header byte plus the compile commands, so an
edited tree never hits a stale entry.
"""
import hashlib, json, os, re, shlex, shutil, subprocess, sys, tempfile, time
from concurrent.futures import ThreadPoolExecutor

VERIF = os.path.dirname(os.path.dirname(os.path.abspath(__file__)))
REPO = os.environ.get('VERIF_REPO', '/repo')
CACHE = os.path.join(VERIF, '.cache')
EXTRACT = os.path.join(VERIF, 'extract', 'llvm-facts')
EXPECTED_UNITS = 42


class AnalysisBroken(Exception):
    """anchor vanished / unit failed to compile / unsupported construct: exit 2"""


def compile_commands(repo=None):
    repo = repo or REPO
    cmds = []
    mk = os.path.join(repo, 'Makefile')
    if os.path.exists(mk):
        # -o <generated prerequisites>: never re-run configure/automake; -n: print only
        olds = []
        for f in ('Makefile', 'config.status', 'config.h', 'Makefile.in', 'configure', 'aclocal.m4', 'stamp-h1', 'config.h.in', 'Makefile.am', 'configure.ac'):
            olds += ['-o', f]
        try:
            out = subprocess.run(['make', '-n', '-B'] + olds + ['snapraid'], cwd=repo, capture_output=True, text=True, timeout=60).stdout
        except Exception:
            out = ''
        for line in out.splitlines():
            line = line.strip()
            if not re.match(r'^(gcc|cc|clang)\b', line) or ' -c ' not in line:
                continue
            toks = shlex.split(line)
            src = toks[-1]
            if not src.endswith('.c'):
                continue
            flags = [t for t in toks[1:-1] if re.match(r'^-(D|I|U|pthread|std=|include)', t)]
            cmds.append((src, flags))
    if len(cmds) < EXPECTED_UNITS:
        # fallback: snapraid_SOURCES from Makefile.am
        am = open(os.path.join(repo, 'Makefile.am')).read()
        m = re.search(r'snapraid_SOURCES\s*=\s*((?:.*\\\n)*.*)', am)
        if not m:
            raise AnalysisBroken('cannot determine compilation units')
        srcs = [t for t in m.group(1).replace('\\\n', ' ').split() if t.endswith('.c')]
        cmds = [(s, ['-DHAVE_CONFIG_H', '-I.', '-DSYSCONFDIR="/usr/local/etc"', '-pthread']) for s in srcs]
    # de-duplicate
    seen = {}
    for s, f in cmds:
        seen.setdefault(s, f)
    return sorted(seen.items())


def tree_key(repo, cmds):
    h = hashlib.sha256()
    h.update(json.dumps(cmds).encode())
    h.update(open(EXTRACT, 'rb').read() if os.path.exists(EXTRACT) else b'')
    files = []
    for d in ('raid', 'cmdline', 'tommyds'):
        p = os.path.join(repo, d)
        if not os.path.isdir(p):
            continue
        for fn in sorted(os.listdir(p)):
            if fn.endswith(('.c', '.h')):
                files.append(os.path.join(p, fn))
    cfg = os.path.join(repo, 'config.h')
    if os.path.exists(cfg):
        files.append(cfg)
    for f in files:
        h.update(f.encode())
        h.update(open(f, 'rb').read())
    return h.hexdigest()[:24]


def _run(cmd, cwd=None):
    r = subprocess.run(cmd, cwd=cwd, capture_output=True, text=True)
    return r.returncode, r.stdout, r.stderr


def build(repo=None, want=('whole',), verbose=True):
    """Returns dict: {'dir': cachedir, 'units': [...], 'whole': path-to-facts.json,
    'raidopt': path to facts of raid units after mem2reg+simplifycfg}"""
    repo = repo or REPO
    if not os.path.exists(EXTRACT):
        rc, o, e = _run([os.path.join(VERIF, 'extract', 'build.sh')])
        if rc != 0:
            raise AnalysisBroken('cannot build extractor: ' + e)
    cmds = compile_commands(repo)
    if len(cmds) < EXPECTED_UNITS:
        raise AnalysisBroken('only %d compilation units found (expected >= %d)' % (len(cmds), EXPECTED_UNITS))
    key = tree_key(repo, cmds)
    cdir = os.path.join(CACHE, key)
    done = os.path.join(cdir, 'DONE')
    if not os.path.exists(done):
        t0 = time.time()
        os.makedirs(CACHE, exist_ok=True)
        tmp = tempfile.mkdtemp(prefix='build-', dir=CACHE)
        try:
            def comp(item):
                src, flags = item
                out = os.path.join(tmp, src.replace('/', '_')[:-2] + '.bc')
                cmd = ['clang-14', '-O0', '-g', '-Xclang', '-disable-O0-optnone', '-fno-discard-value-names', '-w', '-c', '-emit-llvm'] + flags + ['-o', out, src]
                rc, o, e = _run(cmd, cwd=repo)
                return src, out, rc, e
            with ThreadPoolExecutor(16) as ex:
                res = list(ex.map(comp, cmds))
            bad = [(s, e) for s, o, rc, e in res if rc != 0]
            if bad:
                raise AnalysisBroken('unit(s) failed to compile: ' + '; '.join('%s: %s' % (s, e.strip().splitlines()[0] if e.strip() else '?') for s, e in bad))
            bcs = [o for s, o, rc, e in res]
            whole = os.path.join(tmp, 'whole.bc')
            rc, o, e = _run(['llvm-link-14', '-o', whole] + bcs)
            if rc != 0:
                raise AnalysisBroken('llvm-link failed: ' + e[:500])
            with open(os.path.join(tmp, 'whole.json'), 'w') as f:
                r = subprocess.run([EXTRACT, whole], stdout=f, stderr=subprocess.PIPE, text=True)
            if r.returncode != 0:
                raise AnalysisBroken('extractor failed: ' + r.stderr[:500])
            # raid kernels: mem2reg + simplifycfg (no instcombine) for the interpreter
            raid_bcs = [o for s, o, rc, e in res if s.startswith('raid/')]
            raid = os.path.join(tmp, 'raid.bc')
            rc, o, e = _run(['llvm-link-14', '-o', raid] + raid_bcs)
            if rc != 0:
                raise AnalysisBroken('llvm-link (raid) failed: ' + e[:500])
            raidopt = os.path.join(tmp, 'raidopt.bc')
            rc, o, e = _run(['opt-14', '-passes=mem2reg,simplifycfg', raid, '-o', raidopt])
            if rc != 0:
                raise AnalysisBroken('opt failed: ' + e[:500])
            with open(os.path.join(tmp, 'raidopt.json'), 'w') as f:
                r = subprocess.run([EXTRACT, raidopt], stdout=f, stderr=subprocess.PIPE, text=True)
            if r.returncode != 0:
                raise AnalysisBroken('extractor failed (raid): ' + r.stderr[:500])
            # -O1 IR of the hash units for the schedule rule (C16)
            for s, flags in cmds:
                if s in ('cmdline/util.c',):
                    out = os.path.join(tmp, 'util_O1.bc')
                    rc, o, e = _run(['clang-14', '-O1', '-g', '-w', '-c', '-emit-llvm'] + flags + ['-o', out, s], cwd=repo)
                    if rc == 0:
                        with open(os.path.join(tmp, 'util_O1.json'), 'w') as f:
                            subprocess.run([EXTRACT, out], stdout=f)
            with open(os.path.join(tmp, 'units.json'), 'w') as f:
                json.dump([s for s, _ in cmds], f)
            for fn in os.listdir(tmp):
                if fn.endswith('.bc') and fn not in ('whole.bc', 'raidopt.bc'):
                    os.unlink(os.path.join(tmp, fn))
            open(os.path.join(tmp, 'DONE'), 'w').write(str(time.time() - t0))
            if os.path.exists(cdir):
                shutil.rmtree(tmp)
            else:
                os.rename(tmp, cdir)
        except BaseException:
            shutil.rmtree(tmp, ignore_errors=True)
            raise
        _prune()
        if verbose:
            print('[frontend] built IR + facts for %d units in %.1fs (key %s)' % (len(cmds), time.time() - t0, key), file=sys.stderr)
    else:
        os.utime(done)
        try:
            os.utime(os.path.join(cdir, 'DONE'), None)
        except OSError:
            pass
        if verbose:
            print('[frontend] cache hit %s' % key, file=sys.stderr)
    return {'dir': cdir, 'key': key, 'units': json.load(open(os.path.join(cdir, 'units.json'))),
            'whole': os.path.join(cdir, 'whole.json'), 'raidopt': os.path.join(cdir, 'raidopt.json'),
            'util_O1': os.path.join(cdir, 'util_O1.json')}


def _prune(keep=6):
    try:
        ents = []
        for d in os.listdir(CACHE):
            p = os.path.join(CACHE, d)
            dn = os.path.join(p, 'DONE')
            if os.path.isdir(p) and os.path.exists(dn):
                ents.append((os.path.getmtime(dn), p))
            elif os.path.isdir(p) and d.startswith('build-') and time.time() - os.path.getmtime(p) > 3600:
                shutil.rmtree(p, ignore_errors=True)
        ents.sort(reverse=True)
        for mt, p in ents[keep:]:
            # never remove an entry a concurrent run may still be reading (entries are refreshed on every cache hit)
            if time.time() - mt > 1800:
                shutil.rmtree(p, ignore_errors=True)
    except OSError:
        pass


if __name__ == '__main__':
    b = build()
    print(json.dumps(b, indent=1))


def build_single(cfile, flags=()):
    """compile one self-test C file with the same pipeline; returns path of facts json (in cache)"""
    import hashlib as _h
    src = open(cfile, 'rb').read()
    key = 'st-' + _h.sha256(src + open(EXTRACT, 'rb').read()).hexdigest()[:20]
    out = os.path.join(CACHE, key + '.json')
    if not os.path.exists(out):
        os.makedirs(CACHE, exist_ok=True)
        bc = os.path.join(CACHE, key + '.bc')
        rc, o, e = _run(['clang-14', '-O0', '-g', '-Xclang', '-disable-O0-optnone', '-fno-discard-value-names', '-w', '-c', '-emit-llvm'] + list(flags) + ['-o', bc, cfile])
        if rc != 0:
            raise AnalysisBroken('selftest %s does not compile: %s' % (cfile, e[:300]))
        with open(out + '.tmp', 'w') as f:
            r = subprocess.run([EXTRACT, bc], stdout=f, stderr=subprocess.PIPE, text=True)
        os.unlink(bc)
        if r.returncode != 0:
            raise AnalysisBroken('extractor failed on selftest')
        os.rename(out + '.tmp', out)
    return out
