"""Tiny evaluator for clusters of flag tests: follows a chain of conditional branches (a short-circuit || / && compiles to one
branch per operand, merged by a phi) whose conditions are built only from loads of named struct members (the atoms), constants,
compares with zero, xor/and/or and casts.  Used to compare two decisions as boolean FUNCTIONS of the same atoms instead of by shape."""
import re


def _ev(f, o, env, pred, vals, atom_re):
    o = f.strip(o)
    c = f.const_of(o)
    if c is not None:
        return c
    if o[0] != 'i':
        return None
    i = f.insts[o[1]]
    if i.id in vals:
        return vals[i.id]
    if i.op == 'load':
        m = atom_re.search(f.expr(['i', i.id]))
        if m:
            return env.get(m.group(1), 0)
        a = f.strip(i.ops[0])
        if a[0] == 'i' and ('A', a[1]) in vals:
            return vals[('A', a[1])]
        return None
    if i.op == 'icmp':
        a, b = _ev(f, i.ops[0], env, pred, vals, atom_re), _ev(f, i.ops[1], env, pred, vals, atom_re)
        if a is None or b is None:
            return None
        return int({'eq': a == b, 'ne': a != b, 'ugt': a > b, 'uge': a >= b, 'ult': a < b, 'ule': a <= b, 'sgt': a > b, 'sge': a >= b, 'slt': a < b, 'sle': a <= b}[i.pred])
    if i.op in ('xor', 'and', 'or'):
        a, b = _ev(f, i.ops[0], env, pred, vals, atom_re), _ev(f, i.ops[1], env, pred, vals, atom_re)
        if a is None or b is None:
            return None
        return {'xor': (a ^ b) & 1 if max(a, b) <= 1 or b in (1, -1) else a ^ b, 'and': a & b, 'or': a | b}[i.op]
    if i.op in ('zext', 'trunc', 'sext', 'freeze'):
        return _ev(f, i.ops[0], env, pred, vals, atom_re)
    if i.op == 'select':
        c_ = _ev(f, i.ops[0], env, pred, vals, atom_re)
        return None if c_ is None else _ev(f, i.ops[1] if c_ else i.ops[2], env, pred, vals, atom_re)
    if i.op == 'phi' and pred is not None and i.inc:
        for k, pb in enumerate(i.inc):
            if pb == pred:
                return _ev(f, i.ops[k], env, None, vals, atom_re)
    return None


def walk(f, start_block, env, atom_pat, stop_blocks=(), max_steps=200):
    """follow the flag tests from start_block; returns (block where the walk stopped, {alloca id: value stored on the way})"""
    atom_re = re.compile(atom_pat)
    vals = {}
    b, prev = start_block, None
    for _ in range(max_steps):
        if b in stop_blocks and prev is not None:
            return b, vals
        for i in f.blocks[b][:-1]:
            if i.op == 'phi':
                v = _ev(f, ['i', i.id], env, prev, vals, atom_re)
                if v is not None:
                    vals[i.id] = v
            elif i.op == 'store':
                a = f.strip(i.ops[1])
                if a[0] == 'i' and f.insts[a[1]].op == 'alloca':
                    v = _ev(f, i.ops[0], env, prev, vals, atom_re)
                    if v is not None:
                        vals[('A', a[1])] = v
                    else:
                        vals.pop(('A', a[1]), None)
            elif i.op == 'call' and not (i.callee or '').startswith('llvm.'):
                return b, vals
        t = f.blocks[b][-1]
        if t.op != 'br':
            return b, vals
        if len(t.ops) == 1 or len(t.succ or []) == 1:
            prev, b = b, t.succ[0]
            continue
        v = _ev(f, t.ops[0], env, prev, vals, atom_re)
        if v is None:
            return b, vals
        prev, b = b, (t.ops[2][1] if v else t.ops[1][1])
    return b, vals
