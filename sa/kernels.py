"""E2 — abstract interpreter for the parity kernels over the GF(2)-affine domain.

Subject: LLVM IR of raid/*.c after mem2reg+simplifycfg (facts from llvm-facts).
Abstract values:
  * configuration integers (nd, nr, loop counters, indices, coefficients)  -> concrete ints
  * the block offset `i` of the outer loops                                 -> Sym(k) = I + k, I a multiple of CHUNK
  * `size`                                                                  -> SIZE (symbolic, multiple of 64)
  * pointers                                                                -> Ptr(region, offset[, symbolic table index])
  * data bytes / words / vector registers                                   -> Bits: one GF(2)-affine form per bit

A form is a Python int used as a bit set: bit 0 = constant 1, bit 1+n = input bit n.
None stands for TOP (unknown, e.g. garbage or a non-linear result).  There are no path
conditions and no solver; control flow may depend on configuration integers only.
Anything not in the semantics table raises Unsupported (=> analysis broken, exit 2).
"""
import re
from .frontend import AnalysisBroken
from . import gf


class Unsupported(AnalysisBroken):
    pass


class KernelViolation(Exception):
    """the interpreted code itself breaks a structural requirement (reported as violation)"""


class Sym:
    __slots__ = ('k',)

    def __init__(self, k):
        self.k = k

    def __repr__(self):
        return 'I+%d' % self.k


class SizeT:
    def __repr__(self):
        return 'SIZE'


SIZE = SizeT()


class Ptr:
    __slots__ = ('reg', 'off', 'sidx')

    def __init__(self, reg, off=0, sidx=None):
        self.reg = reg; self.off = off; self.sidx = sidx   # sidx: (Bits, scale) symbolic table index

    def __repr__(self):
        return 'Ptr(%s,%s%s)' % (self.reg, self.off, ',sym' if self.sidx else '')

    def key(self):
        return (self.reg, self.off)


class Bits:
    __slots__ = ('f',)

    def __init__(self, forms):
        self.f = forms

    @property
    def w(self):
        return len(self.f)

    def concrete(self):
        """int value if every bit is a known constant, else None"""
        v = 0
        for n, x in enumerate(self.f):
            if x == 1:
                v |= 1 << n
            elif x != 0:
                return None
        return v

    def __repr__(self):
        c = self.concrete()
        return 'Bits%d(%s)' % (self.w, hex(c) if c is not None else 'sym')


def const_bits(v, w):
    return Bits([(v >> n) & 1 for n in range(w)])


def fx(a, b):
    if a is None or b is None:
        return None
    return a ^ b


def fand(a, b):
    if a == 0 or b == 0:
        return 0
    if a == 1:
        return b
    if b == 1:
        return a
    if a is not None and a == b:
        return a
    return None


def f_or(a, b):
    if a == 1 or b == 1:
        return 1
    if a == 0:
        return b
    if b == 0:
        return a
    if a is not None and a == b:
        return a
    return None


INT_W = {'i1': 1, 'i8': 8, 'i16': 16, 'i32': 32, 'i64': 64}


def tywidth(ty):
    if ty in INT_W:
        return INT_W[ty]
    if ty.endswith('*'):
        return 64
    raise Unsupported('type ' + ty)


def tosigned(v, w):
    v &= (1 << w) - 1
    return v - (1 << w) if v >> (w - 1) else v


class Machine:
    """state shared by all frames of one abstract run"""

    def __init__(self, prog, chunk, nbuf, input_bufs, bindings=None, buf_init=None, trace=None):
        self.P = prog
        self.chunk = chunk
        self.nbuf = nbuf
        self.input_bufs = set(input_bufs)   # buffers whose initial content is symbolic input
        self.buf_init = buf_init or {}      # (buf, c) -> list of 8 forms : initial contents given as forms
        self.bufw = {}                      # (buf, c) -> list of 8 forms written
        self.buf_written = {}               # buf -> set of chunk offsets written (ever)
        self.write_order = []               # buffers in order of first write
        self.buf_read_before_write = set()
        self.mem = {}                       # (region, off) -> (value, size)
        self.mem_time = {}
        self.regs = [[0] * 256 for _ in range(16)]
        self.reg_time = [0] * 16
        self.time = 1
        self.bindings = bindings or {}      # (global, off) -> value for non-constant globals
        self.loop_window = None             # time at which the current outer loop started
        self.loopW = set(); self.loopL = set()
        self.strides = []
        self.ntstore_pending = False
        self.fence_ok = True
        self.events = []
        self.steps = 0
        self.bulk = []                      # whole-buffer memcpy events (dst buf, src buf)
        self.vec_stores = []                # stores into the pointer vector (index, value) in order
        self.vec_init = None
        self.depth = 0
        self.cur_stride = None
        self.iarrs = {}
        self.collect = None

    def var(self, buf, c, b):
        return 1 << (1 + (buf * self.chunk + c) * 8 + b)

    # ---- data buffers
    def buf_load(self, buf, c):
        k = (buf, c)
        if k in self.bufw:
            return self.bufw[k]
        if k in self.buf_init:
            return self.buf_init[k]
        if buf in self.input_bufs:
            return [self.var(buf, c, b) for b in range(8)]
        self.buf_read_before_write.add(buf)
        return [None] * 8

    def buf_store(self, buf, c, forms):
        self.bufw[(buf, c)] = forms
        s = self.buf_written.setdefault(buf, set())
        if not s:
            self.write_order.append(buf)
        s.add(c)

    # ---- registers with loop-carried-state tracking
    def rread(self, r):
        if self.loop_window is not None and self.reg_time[r] < self.loop_window:
            self.loopL.add(('reg', r))
        return self.regs[r]

    def rwrite(self, r, forms):
        assert len(forms) == 256
        self.regs[r] = forms
        self.time += 1
        self.reg_time[r] = self.time
        if self.loop_window is not None:
            self.loopW.add(('reg', r))


class Frame:
    def __init__(self, m, fn, args):
        self.m = m; self.fn = fn; self.args = args
        self.vals = {}
        self.allocas = {}


REG_RE = re.compile(r'^%([xy])mm(\d+)$')


def run_function(m, fname, args):
    """interpret function `fname` with abstract args; returns abstract return value"""
    P = m.P
    fn = P.functions.get(fname)
    if fn is None or fn.decl:
        raise Unsupported('call to undefined function %s' % fname)
    m.depth += 1
    if m.depth > 12:
        raise Unsupported('call depth')
    fr = Frame(m, fn, args)
    fid = id(fr)
    bi = 0
    prev = None
    vals = fr.vals

    def val(o):
        k = o[0]
        if k == 'i':
            return vals[o[1]]
        if k == 'c':
            return o[1] & ((1 << o[2]) - 1)
        if k == 'a':
            return args[o[1]]
        if k == 'n':
            return 0
        if k == 'g':
            return Ptr(('glob', o[1]), 0)
        if k == 'f':
            return ('fn', o[1])
        if k == 'ce':
            ce = o[1]
            if ce['op'] in ('bitcast', 'ptrtoint', 'inttoptr'):
                return val(ce['ops'][0])
            if ce['op'] == 'getelementptr' and 'off' in ce:
                b = val(ce['ops'][0])
                return Ptr(b.reg, b.off + ce['off'])
            raise Unsupported('constant expression %s' % ce['op'])
        if k == 'u':
            return 0
        raise Unsupported('operand kind %s' % k)

    while True:
        blk = fn.blocks[bi]
        # phis first (parallel)
        newv = {}
        for ins in blk:
            if ins.op == 'phi':
                sel = None
                for pb, o in zip(ins.inc, ins.ops):
                    if pb == prev:
                        sel = o
                        break
                if sel is None:
                    raise Unsupported('phi without matching predecessor in %s' % fname)
                pv = val(sel)
                if isinstance(pv, int) and pv == 0:
                    # block induction variable: a phi compared with the symbolic size becomes I+0
                    for u in fn.users.get(ins.id, ()):
                        if u.op == 'icmp':
                            for o in u.ops:
                                if o[0] == 'a' and args[o[1]] is SIZE:
                                    pv = Sym(0)
                newv[ins.id] = pv
            elif ins.op != 'dbg':
                break
        vals.update(newv)
        nxt = None
        for ins in blk:
            op = ins.op
            if op in ('phi', 'dbg'):
                continue
            m.steps += 1
            if op == 'getelementptr':
                base = val(ins.ops[0])
                if not isinstance(base, Ptr):
                    raise Unsupported('gep on non-pointer in %s at %s' % (fname, ins.loc()))
                off = base.off
                sidx = base.sidx
                for st, io in zip(ins.steps, ins.ops[1:]):
                    if st[0] == 's':
                        off = addoff(off, st[1])
                    else:
                        iv = val(io)
                        sc = st[1]
                        if isinstance(iv, int):
                            w = 64
                            for t in ('i32', 'i64', 'i8', 'i16'):
                                pass
                            iv = tosigned(iv, 64) if iv >> 63 else iv
                            off = addoff(off, iv * sc)
                        elif isinstance(iv, Sym):
                            if sc != 1:
                                raise Unsupported('scaled symbolic offset')
                            off = addoff(off, iv)
                        elif isinstance(iv, Bits):
                            c = iv.concrete()
                            if c is not None:
                                off = addoff(off, c * sc)
                            else:
                                if sidx is not None:
                                    raise Unsupported('two symbolic indices')
                                sidx = (iv, sc)
                        else:
                            raise Unsupported('gep index %r' % (iv,))
                vals[ins.id] = Ptr(base.reg, off, sidx)
            elif op == 'load':
                vals[ins.id] = do_load(m, val(ins.ops[0]), ins.ty, ins)
            elif op == 'store':
                do_store(m, val(ins.ops[1]), val(ins.ops[0]), ins)
            elif op in ('sext', 'zext', 'trunc'):
                v = val(ins.ops[0])
                w = tywidth(ins.ty)
                if isinstance(v, int):
                    srcw = src_width(fn, ins.ops[0], args)
                    if op == 'sext':
                        v = tosigned(v, srcw) & ((1 << w) - 1)
                    else:
                        v &= (1 << w) - 1
                    vals[ins.id] = v
                elif isinstance(v, Bits):
                    if op == 'zext':
                        vals[ins.id] = Bits(v.f + [0] * (w - v.w))
                    elif op == 'trunc':
                        vals[ins.id] = Bits(v.f[:w])
                    else:
                        vals[ins.id] = Bits(v.f + [v.f[-1]] * (w - v.w))
                elif isinstance(v, (Sym, SizeT)):
                    vals[ins.id] = v
                else:
                    raise Unsupported('%s of %r' % (op, v))
            elif op in ('bitcast', 'ptrtoint', 'inttoptr'):
                vals[ins.id] = val(ins.ops[0])
            elif op in ('add', 'sub', 'mul', 'and', 'or', 'xor', 'shl', 'lshr', 'ashr', 'urem', 'udiv', 'srem', 'sdiv'):
                vals[ins.id] = binop(op, val(ins.ops[0]), val(ins.ops[1]), tywidth(ins.ty), ins)
            elif op == 'icmp':
                vals[ins.id] = icmp(m, ins.pred, val(ins.ops[0]), val(ins.ops[1]), src_width(fn, ins.ops[0], args), ins)
            elif op == 'select':
                c = val(ins.ops[0])
                if not isinstance(c, int):
                    raise Unsupported('select on data')
                vals[ins.id] = val(ins.ops[1]) if c else val(ins.ops[2])
            elif op == 'br':
                if len(ins.ops) == 1:
                    nxt = ins.ops[0][1]
                else:
                    c = val(ins.ops[0])
                    if isinstance(c, Bits):
                        c = c.concrete()
                    if not isinstance(c, int):
                        raise KernelViolation('data-dependent branch in %s at %s' % (fname, ins.loc()))
                    # operands are (cond, false-bb, true-bb) in LLVM's operand order
                    nxt = ins.ops[2][1] if c else ins.ops[1][1]
                break
            elif op == 'switch':
                c = val(ins.ops[0])
                if not isinstance(c, int):
                    raise KernelViolation('data-dependent switch in %s' % fname)
                nxt = ins.default
                for cv, cb in ins.cases:
                    if cv == tosigned(c, 64) or cv == c:
                        nxt = cb
                break
            elif op == 'ret':
                m.depth -= 1
                for aid in fr.allocas:
                    pass
                return val(ins.ops[0]) if ins.ops else None
            elif op == 'unreachable':
                raise KernelViolation('reached assertion failure / unreachable in %s at %s' % (fname, ins.loc()))
            elif op == 'alloca':
                n = val(ins.ops[0]) if ins.ops else 1
                vals[ins.id] = Ptr(('stack', fid, ins.id), 0)
            elif op == 'call':
                vals[ins.id] = do_call(m, fr, ins, val)
            else:
                raise Unsupported('opcode %s in %s' % (op, fname))
        if nxt is None:
            raise Unsupported('fell off block in %s' % fname)
        prev = bi
        bi = nxt


def src_width(fn, o, args):
    if o[0] == 'i':
        return tywidth(fn.insts[o[1]].ty)
    if o[0] == 'c':
        return o[2]
    if o[0] == 'a':
        return tywidth(fn.args[o[1]]['ty'])
    return 64


def addoff(off, d):
    if isinstance(d, Sym):
        if isinstance(off, Sym):
            raise Unsupported('I+I')
        return Sym(d.k + off)
    if isinstance(off, Sym):
        return Sym(off.k + d)
    return off + d


def binop(op, a, b, w, ins):
    mask = (1 << w) - 1
    if isinstance(a, int) and isinstance(b, int):
        if op == 'add': return (a + b) & mask
        if op == 'sub': return (a - b) & mask
        if op == 'mul': return (a * b) & mask
        if op == 'and': return a & b
        if op == 'or': return a | b
        if op == 'xor': return a ^ b
        if op == 'shl': return (a << b) & mask
        if op == 'lshr': return a >> b
        if op == 'ashr': return (tosigned(a, w) >> b) & mask
        if op == 'urem': return a % b
        if op == 'udiv': return a // b
        if op == 'srem':
            sa, sb = tosigned(a, w), tosigned(b, w)
            r = abs(sa) % abs(sb)
            return (-r if sa < 0 else r) & mask
        if op == 'sdiv':
            sa, sb = tosigned(a, w), tosigned(b, w)
            q = abs(sa) // abs(sb)
            return (-q if (sa < 0) != (sb < 0) else q) & mask
    if isinstance(a, Ptr) and isinstance(b, int) and a.sidx is None and isinstance(a.off, int):
        # pointer arithmetic through integers (__align_ptr): region bases are assumed 64-byte aligned
        if op == 'add':
            return Ptr(a.reg, a.off + tosigned(b, w))
        if op == 'sub':
            return Ptr(a.reg, a.off - tosigned(b, w))
        if op == 'and':
            return Ptr(a.reg, a.off & tosigned(b, w))
    if isinstance(a, Sym) and isinstance(b, int) and op == 'add':
        return Sym(a.k + tosigned(b, w))
    if isinstance(b, Sym) and isinstance(a, int) and op == 'add':
        return Sym(b.k + tosigned(a, w))
    if isinstance(a, SizeT) and isinstance(b, int) and op == 'urem' and 64 % b == 0:
        return 0     # size is a multiple of 64 (precondition asserted by raid_gen / raid_rec)
    if isinstance(a, Bits) or isinstance(b, Bits):
        if isinstance(a, int):
            a = const_bits(a, w)
        if isinstance(b, int):
            b = const_bits(b, w)
        if not (isinstance(a, Bits) and isinstance(b, Bits)):
            raise Unsupported('binop %s on %r,%r' % (op, a, b))
        if a.w != w or b.w != w:
            raise Unsupported('width mismatch')
        if op == 'xor':
            return Bits([fx(x, y) for x, y in zip(a.f, b.f)])
        if op == 'and':
            return Bits([fand(x, y) for x, y in zip(a.f, b.f)])
        if op == 'or':
            return Bits([f_or(x, y) for x, y in zip(a.f, b.f)])
        if op in ('shl', 'lshr'):
            n = b.concrete()
            if n is None:
                raise Unsupported('symbolic shift amount')
            if op == 'shl':
                return Bits(([0] * n + a.f)[:w])
            return Bits((a.f + [0] * n)[n:n + w])
        if op == 'sub':
            # the gf.h idiom  (m << 1) - (m >> 7)  /  (m << 8) - m  with m confined to one bit per byte:
            # b has non-zero bits only at positions 8k; a[8k+8] is the same form as b[8k]; a has no other
            # non-zero bit  =>  a - b = sum_k m_k * (2^(8k+8) - 2^(8k)) = byte k filled with m_k  (mod 2^w)
            ok = all((n % 8 == 0) or x == 0 for n, x in enumerate(b.f))
            for n, x in enumerate(a.f):
                if n % 8 == 0 and n >= 8:
                    ok = ok and x is not None and x == b.f[n - 8]
                else:
                    ok = ok and x == 0
            if ok and all(x is not None for x in b.f):
                out = []
                for k in range(w // 8):
                    out += [b.f[8 * k]] * 8
                return Bits(out)
            return Bits([None] * w)
        if op == 'add':
            ca, cb = a.concrete(), b.concrete()
            if ca is not None and cb is not None:
                return const_bits((ca + cb) & mask, w)
            return Bits([None] * w)
        return Bits([None] * w)
    raise Unsupported('binop %s on %r,%r at %s' % (op, a, b, ins.loc()))


def icmp(m, pred, a, b, w, ins):
    if isinstance(a, Bits) and a.concrete() is None and m.collect is not None and pred in ('ne', 'eq') and (b == 0 or (isinstance(b, Bits) and b.concrete() == 0)):
        # syndrome test `x != 0` on data: record the forms and continue on the "zero" side; the caller judges the recorded forms
        m.collect.append((list(a.f), ins.loc()))
        return 0 if pred == 'ne' else 1
    if isinstance(a, Bits):
        a = a.concrete()
    if isinstance(b, Bits):
        b = b.concrete()
    if a is None or b is None:
        raise KernelViolation('comparison on data at %s' % ins.loc())
    if isinstance(a, Sym) and isinstance(b, SizeT):
        if pred not in ('ult', 'ne', 'slt'):
            raise Unsupported('loop predicate %s' % pred)
        if a.k == 0:
            # entering an outer loop over the block
            m.loop_window = m.time
            m.time += 1
            m.loopW = set(); m.loopL = set()
            m.cur_stride = None
            return 1
        if m.cur_stride is None:
            m.cur_stride = a.k
            if a.k <= 0 or 64 % a.k != 0:
                raise KernelViolation('outer loop stride %d does not divide 64 at %s' % (a.k, ins.loc()))
            m.strides.append(a.k)
        if a.k < m.chunk:
            return 1
        if a.k != m.chunk:
            raise KernelViolation('outer loop overshoots the chunk (%d, chunk %d)' % (a.k, m.chunk))
        carried = m.loopW & m.loopL
        if carried:
            raise KernelViolation('loop-carried state across block iterations: %s at %s' % (sorted(carried), ins.loc()))
        m.loop_window = None
        return 0
    if isinstance(b, SizeT) and isinstance(a, int):
        # `i + K < size` (or any constant compared with the symbolic block size): the loop bound is shifted, so some chunk of
        # the block -- typically the last one -- is not processed
        raise KernelViolation('block loop bound compares the constant %d with the block size at %s: the loop does not run over the whole block' % (a, ins.loc()))
    if isinstance(a, Ptr) or isinstance(b, Ptr):
        if isinstance(a, Ptr) and isinstance(b, Ptr):
            eq = a.reg == b.reg and a.off == b.off
        else:
            eq = False
        if pred == 'eq':
            return int(eq)
        if pred == 'ne':
            return int(not eq)
        raise Unsupported('pointer ordering')
    if not (isinstance(a, int) and isinstance(b, int)):
        raise Unsupported('icmp %r %r at %s' % (a, b, ins.loc()))
    mask = (1 << w) - 1
    a &= mask; b &= mask
    sa, sb = tosigned(a, w), tosigned(b, w)
    return int({'eq': a == b, 'ne': a != b, 'ugt': a > b, 'uge': a >= b, 'ult': a < b, 'ule': a <= b,
                'sgt': sa > sb, 'sge': sa >= sb, 'slt': sa < sb, 'sle': sa <= sb}[pred])


def table_bytes(m, reg, off, n):
    cache = m.P.__dict__.setdefault('_gbytes', {})
    b = cache.get(reg[1])
    if b is None:
        g = m.P.globals.get(reg[1])
        if g is None or 'bytes' not in g or not g['const']:
            return None
        b = cache[reg[1]] = bytes.fromhex(g['bytes'])
    if off < 0 or off + n > len(b):
        raise KernelViolation('constant table %s read out of bounds (offset %d, %d bytes)' % (reg[1], off, n))
    return b[off:off + n]


def load_bytes(m, p, n, ins):
    """list of n*8 forms read from pointer p"""
    if not isinstance(p, Ptr):
        raise Unsupported('load through %r at %s' % (p, ins.loc()))
    kind = p.reg[0]
    if kind == 'buf':
        if not isinstance(p.off, Sym):
            raise KernelViolation('data buffer accessed at an absolute offset at %s' % ins.loc())
        c0 = p.off.k
        if c0 < 0 or c0 + n > m.chunk:
            raise KernelViolation('access outside the current chunk (offset %d+%d, chunk %d) at %s' % (c0, n, m.chunk, ins.loc()))
        out = []
        for c in range(c0, c0 + n):
            out += m.buf_load(p.reg[1], c)
        return out
    if kind == 'zero':
        return [0] * (8 * n)
    if kind == 'glob':
        if p.sidx is not None:
            idx, sc = p.sidx
            # table lookup T[x], x a vector of forms: requires T GF(2)-linear in x
            if n != 1:
                raise Unsupported('wide symbolic table load')
            nb = idx.w
            while nb > 0 and idx.f[nb - 1] == 0:
                nb -= 1
            if any(x is None for x in idx.f[:nb]):
                return [None] * 8
            ent = table_bytes(m, p.reg, p.off, 1)
            if ent is None:
                raise Unsupported('symbolic index into non-constant global %s' % p.reg[1])
            lc = m.P.__dict__.setdefault('_lincache', {})
            lk = (p.reg[1], p.off, sc, nb)
            if lk not in lc:
                T = [table_bytes(m, p.reg, p.off + x * sc, 1)[0] for x in range(1 << nb)]
                basis = [T[1 << j] for j in range(nb)]
                lin = T[0] == 0
                if lin:
                    for x in range(1 << nb):
                        e = 0
                        for j in range(nb):
                            if x >> j & 1:
                                e ^= basis[j]
                        if e != T[x]:
                            lin = False   # not linear => TOP
                            break
                lc[lk] = basis if lin else None
            basis = lc[lk]
            if basis is None:
                return [None] * 8
            out = []
            for b in range(8):
                f = 0
                for j in range(nb):
                    if basis[j] >> b & 1:
                        f ^= idx.f[j]
                out.append(f)
            return out
        tb = table_bytes(m, p.reg, p.off, n)
        if tb is not None:
            out = []
            for x in tb:
                out += [(x >> b) & 1 for b in range(8)]
            return out
        raise Unsupported('byte load from non-constant global %s at %s' % (p.reg[1], ins.loc()))
    if kind == 'stack':
        k = (p.reg, p.off)
        if k in m.mem and m.mem[k][1] == n and isinstance(m.mem[k][0], Bits):
            note_mem_read(m, k)
            return m.mem[k][0].f
        # assemble from byte cells
        out = []
        for c in range(n):
            kk = (p.reg, p.off + c)
            if kk in m.mem and m.mem[kk][1] == 1:
                note_mem_read(m, kk)
                v = m.mem[kk][0]
                out += v.f if isinstance(v, Bits) else [(v >> b) & 1 for b in range(8)]
            else:
                raise KernelViolation('read of an uninitialised (or differently sized) local cell at %s' % ins.loc())
        return out
    raise Unsupported('load from region %r at %s' % (p.reg, ins.loc()))


def note_mem_read(m, k):
    if m.loop_window is not None and m.mem_time.get(k, 0) < m.loop_window:
        m.loopL.add(('mem',) + k[1:] if False else ('mem', str(k)))


def do_load(m, p, ty, ins):
    if not isinstance(p, Ptr):
        raise Unsupported('load through %r at %s' % (p, ins.loc()))
    kind = p.reg[0]
    isptr = ty.endswith('*')
    if kind == 'vec':
        # the caller's vector of block pointers
        if not isptr or not isinstance(p.off, int) or p.off % 8:
            raise Unsupported('vector access')
        k = p.off // 8
        key = (p.reg, p.off)
        if key in m.mem:
            return m.mem[key][0]
        if not (0 <= k < m.nbuf):
            raise KernelViolation('pointer vector read out of range: v[%d] (vector has %d entries) at %s' % (k, m.nbuf, ins.loc()))
        return Ptr(('buf', k), 0)
    if kind == 'stack':
        key = (p.reg, p.off)
        if key in m.mem and (m.mem[key][1] == (8 if isptr else tywidth(ty) // 8 or 1)):
            note_mem_read(m, key)
            v = m.mem[key][0]
            return v
        if isptr:
            raise KernelViolation('read of an uninitialised local pointer cell at %s' % ins.loc())
        n = max(1, tywidth(ty) // 8)
        f = load_bytes(m, p, n, ins)
        b = Bits(f[:tywidth(ty)])
        c = b.concrete()
        return b
    if kind == 'iarr':
        # caller-provided int arrays (id[], ip[])
        arr = m.iarrs[p.reg[1]]
        if not isinstance(p.off, int) or p.off % 4 or not (0 <= p.off // 4 < len(arr)):
            raise KernelViolation('index array %s read out of range (offset %s) at %s' % (p.reg[1], p.off, ins.loc()))
        return arr[p.off // 4] & 0xffffffff
    if kind == 'glob':
        name = p.reg[1]
        key = (name, p.off)
        if key in m.bindings and p.sidx is None:
            return m.bindings[key]
        g = m.P.globals.get(name)
        if g is None:
            raise Unsupported('unknown global %s' % name)
        if isptr:
            raise Unsupported('pointer load from global %s+%s without binding at %s' % (name, p.off, ins.loc()))
        w = tywidth(ty)
        n = max(1, w // 8)
        f = load_bytes(m, p, n, ins)
        b = Bits(f[:w])
        c = b.concrete()
        # configuration coefficients (gfgen[j][d], gfinv, gfexp ...) are concrete integers
        return c if c is not None and p.sidx is None else b
    if kind in ('buf', 'zero'):
        if isptr:
            raise Unsupported('pointer load from data buffer')
        w = tywidth(ty)
        return Bits(load_bytes(m, p, w // 8, ins))
    raise Unsupported('load from %r' % (p,))


def do_store(m, p, v, ins):
    if not isinstance(p, Ptr):
        raise Unsupported('store through %r at %s' % (p, ins.loc()))
    kind = p.reg[0]
    if kind == 'buf':
        if isinstance(v, int):
            srcw = src_width(ins.fn, ins.ops[0], None)
            v = const_bits(v, srcw)
        if not isinstance(v, Bits):
            raise Unsupported('store of %r to data buffer' % (v,))
        store_bytes(m, p, v.f, ins)
        return
    if kind == 'vec':
        if not isinstance(p.off, int) or p.off % 8:
            raise Unsupported('vector store')
        k = p.off // 8
        if not (0 <= k < m.nbuf):
            raise KernelViolation('pointer vector written out of range: v[%d] at %s' % (k, ins.loc()))
        m.mem[(p.reg, p.off)] = (v, 8)
        m.vec_stores.append((k, v))
        return
    if kind == 'stack':
        if isinstance(v, int):
            n = max(1, src_width(ins.fn, ins.ops[0], None) // 8)
        elif isinstance(v, Bits):
            n = v.w // 8
        else:
            n = 8
        key = (p.reg, p.off)
        m.mem[key] = (v, n)
        m.time += 1
        m.mem_time[key] = m.time
        if m.loop_window is not None:
            m.loopW.add(('mem', str(key)))
        return
    if kind == 'zero':
        raise KernelViolation('store into the shared zero block at %s' % ins.loc())
    if kind == 'glob':
        raise KernelViolation('store into global %s at %s' % (p.reg[1], ins.loc()))
    raise Unsupported('store to %r' % (p,))


def store_bytes(m, p, forms, ins, nontemporal=False):
    if p.reg[0] == 'stack' and isinstance(p.off, int) and p.sidx is None:
        key = (p.reg, p.off)
        m.mem[key] = (Bits(list(forms)), len(forms) // 8)
        m.time += 1
        m.mem_time[key] = m.time
        if m.loop_window is not None:
            m.loopW.add(('mem', str(key)))
        return
    if p.reg[0] != 'buf':
        raise Unsupported('vector store to %r at %s' % (p, ins.loc()))
    if not isinstance(p.off, Sym):
        raise KernelViolation('data buffer written at an absolute offset at %s' % ins.loc())
    n = len(forms) // 8
    c0 = p.off.k
    if c0 < 0 or c0 + n > m.chunk:
        raise KernelViolation('store outside the current chunk (offset %d+%d) at %s' % (c0, n, ins.loc()))
    for c in range(n):
        m.buf_store(p.reg[1], c0 + c, forms[8 * c:8 * c + 8])
    if nontemporal:
        m.ntstore_pending = True


def parse_asm(s):
    s = s.strip()
    if not s:
        return None, []
    parts = s.split(None, 1)
    mn = parts[0]
    ops = [x.strip() for x in parts[1].split(',')] if len(parts) > 1 else []
    return mn, ops


def do_asm(m, ins, val):
    mn, ops = parse_asm(ins.asm)
    if mn is None:
        return None     # pure clobber statement
    if mn == 'sfence':
        m.ntstore_pending = False
        return None
    if mn == 'vzeroupper':
        for r in range(16):
            m.regs[r] = m.regs[r][:128] + [0] * 128
        return None
    vex = mn.startswith('v')
    base = mn[1:] if vex else mn
    memv = [val(o) for o in ins.ops]

    def rd(o, width):
        """read operand as list of `width` forms"""
        mr = REG_RE.match(o)
        if mr:
            r = int(mr.group(2))
            full = m.rread(r)
            return full[:width]
        if o.startswith('$') and o[1:].isdigit():
            return load_bytes(m, memv[int(o[1:])], width // 8, ins)
        raise Unsupported('asm operand %s in "%s"' % (o, ins.asm))

    def regno(o):
        mr = REG_RE.match(o)
        if not mr:
            raise Unsupported('asm destination %s in "%s"' % (o, ins.asm))
        return int(mr.group(2)), (256 if mr.group(1) == 'y' else 128)

    def wr(o, forms):
        r, width = regno(o)
        if len(forms) != width:
            raise Unsupported('width')
        if width == 128:
            old = m.regs[r]
            # legacy SSE keeps the upper half, VEX.128 zeroes it
            forms = forms + ([0] * 128 if vex else old[128:])
        m.rwrite(r, forms)

    def opwidth():
        for o in ops:
            mr = REG_RE.match(o)
            if mr:
                return 256 if mr.group(1) == 'y' else 128
        raise Unsupported('no register operand in "%s"' % ins.asm)

    W = opwidth() if base not in () else 128
    if base in ('movdqa', 'movdqu', 'movntdq', 'movaps'):
        src, dst = ops
        if dst.startswith('$'):
            p = memv[int(dst[1:])]
            store_bytes(m, p, rd(src, W), ins, nontemporal=(base == 'movntdq'))
        else:
            wr(dst, rd(src, W))
        return None
    if base == 'broadcasti128':
        src, dst = ops
        lo = rd(src, 128)
        wr(dst, lo + lo)
        return None
    if base in ('pxor', 'pand', 'por'):
        if vex:
            a, b, dst = ops
        else:
            a, dst = ops
            b = dst
        f = {'pxor': fx, 'pand': fand, 'por': f_or}[base]
        if base == 'pxor' and a == b:
            wr(dst, [0] * W)     # zeroing idiom: no dependency on the old value
        else:
            fa, fb = rd(a, W), rd(b, W)
            wr(dst, [f(x, y) for x, y in zip(fa, fb)])
        return None
    if base == 'paddb':
        if vex:
            a, b, dst = ops
        else:
            a, dst = ops
            b = dst
        fa, fb = rd(a, W), rd(b, W)
        if fa is fb or all((x is not None and x == y) for x, y in zip(fa, fb)):
            out = []
            for k in range(W // 8):
                out += [0] + fa[8 * k:8 * k + 7]
            wr(dst, out)
        else:
            wr(dst, [None] * W)
        return None
    if base == 'pcmpgtb':
        # AT&T: pcmpgtb src,dst : dst = (dst > src) ; vpcmpgtb src2,src1,dst : dst = (src1 > src2)
        if vex:
            s2, s1, dst = ops
        else:
            s2, dst = ops
            s1 = dst
        f1, f2 = rd(s1, W), rd(s2, W)
        out = []
        for k in range(W // 8):
            b1 = f1[8 * k:8 * k + 8]
            if all(x == 0 for x in b1):
                out += [f2[8 * k + 7]] * 8      # 0 > x  <=>  x negative  <=> bit 7
            else:
                out += [None] * 8
        wr(dst, out)
        return None
    if base in ('psrlw', 'psllw'):
        if vex:
            imm, a, dst = ops
        else:
            imm, dst = ops
            a = dst
        if not imm.startswith('$$'):
            raise Unsupported('shift count %s' % imm)
        n = int(imm[2:])
        fa = rd(a, W)
        out = []
        for k in range(W // 16):
            lane = fa[16 * k:16 * k + 16]
            if base == 'psrlw':
                out += (lane + [0] * n)[n:n + 16]
            else:
                out += ([0] * n + lane)[:16]
        wr(dst, out)
        return None
    if base == 'pshufb':
        # AT&T: pshufb idx,dst : dst = shuffle(dst as table, idx) ; vpshufb idx,table,dst
        if vex:
            idx, tab, dst = ops
        else:
            idx, dst = ops
            tab = dst
        fi, ft = rd(idx, W), rd(tab, W)
        out = []
        for lane in range(W // 128):
            T = ft[128 * lane:128 * lane + 128]
            Tc = []
            for e in range(16):
                v = 0
                for b in range(8):
                    x = T[8 * e + b]
                    if x == 1:
                        v |= 1 << b
                    elif x != 0:
                        v = None
                        break
                Tc.append(v)
                if v is None:
                    break
            for k in range(16):
                ib = fi[128 * lane + 8 * k:128 * lane + 8 * k + 8]
                if None in Tc or any(x is None for x in ib):
                    out += [None] * 8
                    continue
                if ib[7] != 0 or ib[4] != 0 or ib[5] != 0 or ib[6] != 0:
                    # bit 7 set zeroes the lane, bits 4..6 are ignored by the CPU; we require all provably 0
                    out += [None] * 8
                    continue
                lin = Tc[0] == 0
                if lin:
                    for x in range(16):
                        e = 0
                        for j in range(4):
                            if x >> j & 1:
                                e ^= Tc[1 << j]
                        if e != Tc[x]:
                            lin = False
                            break
                if not lin:
                    c = Bits(ib).concrete()
                    if c is not None:
                        out += [(Tc[c] >> b) & 1 for b in range(8)]
                    else:
                        out += [None] * 8
                    continue
                for b in range(8):
                    f = 0
                    for j in range(4):
                        if Tc[1 << j] >> b & 1:
                            f ^= ib[j]
                    out.append(f)
        wr(dst, out)
        return None
    raise Unsupported('instruction "%s" is not in the semantics table (%s)' % (ins.asm, ins.loc()))


def do_call(m, fr, ins, val):
    if ins.asm is not None:
        return do_asm(m, ins, val)
    name = ins.callee_full
    if name is None:
        t = val(ins.target)
        if isinstance(t, tuple) and t[0] == 'fn':
            name = t[1]
        else:
            raise Unsupported('indirect call through %r at %s' % (t, ins.loc()))
    if name.startswith('llvm.memcpy') or name == 'memcpy':
        dst, src, n = val(ins.ops[0]), val(ins.ops[1]), val(ins.ops[2])
        if isinstance(n, SizeT):
            if not (isinstance(dst, Ptr) and isinstance(src, Ptr) and dst.reg[0] == 'buf' and src.reg[0] in ('buf', 'zero') and dst.off == 0 and src.off == 0):
                raise Unsupported('bulk memcpy operands %r %r' % (dst, src))
            for c in range(m.chunk):
                m.buf_store(dst.reg[1], c, [0] * 8 if src.reg[0] == 'zero' else m.buf_load(src.reg[1], c))
            m.bulk.append((dst.reg[1], src.reg))
            return dst
        if isinstance(n, int) and isinstance(dst, Ptr) and isinstance(src, Ptr) and dst.reg[0] == 'stack' and src.reg[0] in ('stack', 'vec'):
            for off in range(0, n, 8):
                sk = (src.reg, src.off + off)
                if src.reg[0] == 'vec' and sk not in m.mem:
                    v = Ptr(('buf', (src.off + off) // 8), 0)
                elif sk in m.mem and m.mem[sk][1] == 8:
                    v = m.mem[sk][0]
                else:
                    raise Unsupported('memcpy of non-pointer cells')
                m.mem[(dst.reg, dst.off + off)] = (v, 8)
            return dst
        raise Unsupported('memcpy(%r,%r,%r) at %s' % (dst, src, n, ins.loc()))
    if name.startswith('llvm.memset') or name == 'memset':
        raise Unsupported('memset')
    if name in ('llvm.stacksave',):
        return 0
    if name in ('llvm.stackrestore',) or name.startswith('llvm.lifetime') or name.startswith('llvm.dbg'):
        return None
    if name == '__assert_fail':
        raise KernelViolation('assertion failure reached at %s' % ins.loc())
    args = [val(o) for o in ins.ops]
    return run_function(m, name, args)


# ======================================================================================
# drivers

def probe_stride(P, fname, nd, np_, bindings):
    m = Machine(P, 64, nd + np_, range(nd), bindings=bindings)
    m.cur_stride = None
    run_function(m, fname, [nd, SIZE, Ptr(('vec',), 0)])
    return max(m.strides) if m.strides else None, m


def run_gen(P, fname, nd, np_, bindings, chunk):
    """abstractly run generator kernel `fname`; returns the machine"""
    m = Machine(P, chunk, nd + np_, range(nd), bindings=bindings)
    m.cur_stride = None
    run_function(m, fname, [nd, SIZE, Ptr(('vec',), 0)])
    return m


def expected_parity_forms(m, A, nd, j, c):
    """forms of byte c of parity j = sum_i A[j][i]*D_i[c] over the model field"""
    out = [0] * 8
    for d in range(nd):
        cols = gf.mulmat(A[j][d])
        for b in range(8):
            v = m.var(d, c, b)
            col = cols[b]
            for ob in range(8):
                if col >> ob & 1:
                    out[ob] ^= v
    return out
