"""E4 — constant/flag reasoning over -O0 IR.

1. pinned reachability: treat some locals/parameters as known constants, fold branch
   conditions, return the instructions that stay reachable (used by E5 per command and to
   specialise functions on `fix`, `is_diff`, ...).
2. flag-tuple dataflow: forward analysis whose state is the set of possible value tuples
   (0 / non-zero) of a few int locals that are only ever assigned constants or copies.
"""
from collections import deque
from .ir import CASTS


class Folder:
    def __init__(self, f, env, genv=None):
        """env: alloca inst id -> int constant (pinned local/param); genv: global name -> const"""
        self.f = f; self.env = env; self.genv = genv or {}
        self.memo = {}

    def val(self, o):
        k = o[0]
        if k == 'c':
            return o[1]
        if k == 'n':
            return 0
        if k != 'i':
            return None
        key = o[1]
        if key in self.memo:
            return self.memo[key]
        self.memo[key] = None
        r = self._inst(self.f.insts[key])
        self.memo[key] = r
        return r

    def _inst(self, i):
        op = i.op
        if op == 'load':
            a = self.f.strip(i.ops[0])
            if a[0] == 'i' and a[1] in self.env:
                return self.env[a[1]]
            if a[0] == 'g' and a[1] in self.genv:
                return self.genv[a[1]]
            return None
        if op in ('zext', 'sext', 'trunc', 'bitcast'):
            v = self.val(i.ops[0])
            if v is None:
                return None
            if op == 'trunc' and i.ty == 'i1':
                return v & 1
            return v
        if op == 'icmp':
            a, b = self.val(i.ops[0]), self.val(i.ops[1])
            if a is None or b is None:
                return None
            p = i.pred
            if p == 'eq': return int(a == b)
            if p == 'ne': return int(a != b)
            if p in ('sgt', 'ugt'): return int(a > b)
            if p in ('sge', 'uge'): return int(a >= b)
            if p in ('slt', 'ult'): return int(a < b)
            if p in ('sle', 'ule'): return int(a <= b)
            return None
        if op in ('and', 'or', 'xor', 'add', 'sub'):
            a, b = self.val(i.ops[0]), self.val(i.ops[1])
            if op == 'and' and (a == 0 or b == 0):
                return 0
            if a is None or b is None:
                return None
            return {'and': a & b, 'or': a | b, 'xor': a ^ b, 'add': a + b, 'sub': a - b}[op]
        if op == 'select':
            c = self.val(i.ops[0])
            if c is None:
                return None
            return self.val(i.ops[1] if c else i.ops[2])
        return None


def param_env(f, pins):
    """pins: {arg index: const} -> env over the parameter spill allocas, dropping parameters that
    are re-assigned in the body"""
    env = {}
    aa = f.arg_allocas()
    for aid, idx in aa.items():
        if idx in pins:
            nstores = sum(1 for u in f.users.get(aid, ()) if u.op == 'store' and u.ops[1] == ['i', aid])
            if nstores == 1:
                env[aid] = pins[idx]
    return env


def local_env(f, names):
    """names: {local variable name: const}: pins *loads* of that local regardless of stores (used for
    `operation` in main: the analysis asks what is reachable when the local holds K)"""
    env = {}
    for i in f.all_insts():
        if i.op == 'alloca' and i.var in names:
            env[i.id] = names[i.var]
    return env


def pinned_reach(f, env, genv=None):
    """set of reachable instruction ids from entry when branches fold under env; also returns
    the folder (for argument evaluation at call sites)"""
    fo = Folder(f, env, genv)
    seenb = set()
    dq = deque([0])
    reach = set()
    while dq:
        b = dq.popleft()
        if b in seenb:
            continue
        seenb.add(b)
        blk = f.blocks[b]
        stop = False
        for ins in blk:
            reach.add(ins.id)
            if ins.op == 'call' and ins.callee in NORETURN:
                stop = True
                break
        if stop:
            continue
        t = blk[-1]
        if t.op == 'br' and len(t.ops) == 3:
            c = fo.val(t.ops[0])
            if c is None:
                dq.extend(t.succ)
            else:
                dq.append(t.ops[2][1] if c else t.ops[1][1])
        elif t.op == 'switch':
            c = fo.val(t.ops[0])
            if c is None:
                dq.extend(t.succ)
            else:
                tgt = t.default
                for cv, cb in t.cases:
                    if cv == c:
                        tgt = cb
                dq.append(tgt)
        else:
            dq.extend(t.succ or [])
    return reach, fo


NORETURN = {'exit', 'abort', '__assert_fail', 'os_abort', '_exit'}
