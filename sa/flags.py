"""E4 — constant/flag reasoning over -O0 IR.

1. pinned reachability: treat some locals/parameters as known constants, fold branch
   conditions, return the instructions that stay reachable (used by E5 per command and to
   specialise functions on `fix`, `is_diff`, ...).
2. flag-tuple dataflow: forward analysis whose state is the set of possible value tuples
   (0 / non-zero) of a few int locals that are only ever assigned constants or copies.
"""
from collections import deque
from .ir import CASTS


class Folder:
    def __init__(self, f, env, genv=None):
        """env: alloca inst id -> int constant (pinned local/param); genv: global name -> const"""
        self.f = f; self.env = env; self.genv = genv or {}
        self.memo = {}

    def val(self, o):
        k = o[0]
        if k == 'c':
            return o[1]
        if k == 'n':
            return 0
        if k != 'i':
            return None
        key = o[1]
        if key in self.memo:
            return self.memo[key]
        self.memo[key] = None
        r = self._inst(self.f.insts[key])
        self.memo[key] = r
        return r

    def _inst(self, i):
        op = i.op
        if op == 'load':
            a = self.f.strip(i.ops[0])
            if a[0] == 'i' and a[1] in self.env:
                return self.env[a[1]]
            if a[0] == 'g' and a[1] in self.genv:
                return self.genv[a[1]]
            return None
        if op in ('zext', 'sext', 'trunc', 'bitcast'):
            v = self.val(i.ops[0])
            if v is None:
                return None
            if op == 'trunc' and i.ty == 'i1':
                return v & 1
            return v
        if op == 'icmp':
            a, b = self.val(i.ops[0]), self.val(i.ops[1])
            if a is None or b is None:
                return None
            p = i.pred
            if p == 'eq': return int(a == b)
            if p == 'ne': return int(a != b)
            if p in ('sgt', 'ugt'): return int(a > b)
            if p in ('sge', 'uge'): return int(a >= b)
            if p in ('slt', 'ult'): return int(a < b)
            if p in ('sle', 'ule'): return int(a <= b)
            return None
        if op in ('and', 'or', 'xor', 'add', 'sub'):
            a, b = self.val(i.ops[0]), self.val(i.ops[1])
            if op == 'and' and (a == 0 or b == 0):
                return 0
            if a is None or b is None:
                return None
            return {'and': a & b, 'or': a | b, 'xor': a ^ b, 'add': a + b, 'sub': a - b}[op]
        if op == 'select':
            c = self.val(i.ops[0])
            if c is None:
                return None
            return self.val(i.ops[1] if c else i.ops[2])
        return None


def param_env(f, pins):
    """pins: {arg index: const} -> env over the parameter spill allocas, dropping parameters that
    are re-assigned in the body"""
    env = {}
    aa = f.arg_allocas()
    for aid, idx in aa.items():
        if idx in pins:
            nstores = sum(1 for u in f.users.get(aid, ()) if u.op == 'store' and u.ops[1] == ['i', aid])
            if nstores == 1:
                env[aid] = pins[idx]
    return env


def local_env(f, names):
    """names: {local variable name: const}: pins *loads* of that local regardless of stores (used for
    `operation` in main: the analysis asks what is reachable when the local holds K)"""
    env = {}
    for i in f.all_insts():
        if i.op == 'alloca' and i.var in names:
            env[i.id] = names[i.var]
    return env


def pinned_reach(f, env, genv=None):
    """set of reachable instruction ids from entry when branches fold under env; also returns
    the folder (for argument evaluation at call sites)"""
    fo = Folder(f, env, genv)
    seenb = set()
    dq = deque([0])
    reach = set()
    while dq:
        b = dq.popleft()
        if b in seenb:
            continue
        seenb.add(b)
        blk = f.blocks[b]
        stop = False
        for ins in blk:
            reach.add(ins.id)
            if ins.op == 'call' and ins.callee in NORETURN:
                stop = True
                break
        if stop:
            continue
        t = blk[-1]
        if t.op == 'br' and len(t.ops) == 3:
            c = fo.val(t.ops[0])
            if c is None:
                dq.extend(t.succ)
            else:
                dq.append(t.ops[2][1] if c else t.ops[1][1])
        elif t.op == 'switch':
            c = fo.val(t.ops[0])
            if c is None:
                dq.extend(t.succ)
            else:
                tgt = t.default
                for cv, cb in t.cases:
                    if cv == c:
                        tgt = cb
                dq.append(tgt)
        else:
            dq.extend(t.succ or [])
    return reach, fo


from .frontend import AnalysisBroken
NORETURN = {'exit', 'abort', '__assert_fail', 'os_abort', '_exit'}


# ======================================================================================
# flag-tuple dataflow

class FlagTuple(dict):
    """name -> abstract value; asking for a flag the function does not have is an anchor failure (analysis broken),
    never a silent None that a rule could mistake for a value"""

    def __missing__(self, k):
        raise AnalysisBroken('flag local `%s` not found in the analysed function (renamed or removed anchor)' % k)

    def get(self, k, default=None):
        return self[k]


class FlagAnalysis:
    """forward dataflow over the set of possible tuples of a few int locals ("flags").
    value domain per flag: 0, 1 (= any non-zero constant), 'T' (unknown).  Branches on
    `load flag` compared with 0 (any icmp/trunc form clang -O0 emits) refine the tuples;
    other branches split both ways.  Exact for flags only assigned constants."""

    def __init__(self, f, flag_names=None, flag_ids=None, pins=None, genv=None, entry_vals=None):
        self.f = f
        ids = list(flag_ids or [])
        if flag_names:
            for i in f.all_insts():
                if i.op == 'alloca' and (i.var in flag_names):
                    ids.append(i.id)
        aa = f.arg_allocas()
        self.ids = ids
        self.names = [f.insts[a].var or f.insts[a].name for a in ids]
        self.idx = {a: k for k, a in enumerate(ids)}
        self.pin_env = param_env(f, pins or {})
        self.genv = genv or {}
        n = len(ids)
        init = ['T'] * n
        for a, k in self.idx.items():
            if a in self.pin_env:
                init[k] = 1 if self.pin_env[a] else 0
        if entry_vals:
            for nm, v in entry_vals.items():
                for a, k in self.idx.items():
                    if (f.insts[a].var or f.insts[a].name) == nm:
                        init[k] = v
        self.IN = {0: {tuple(init)}}
        self.edge_out = {}
        self._run()

    # abstract value of an operand under a tuple: 0 / 1 / 'T'
    def aval(self, o, tup, local):
        f = self.f
        o = f.strip(o)
        if o[0] == 'c':
            return 1 if o[1] else 0
        if o[0] == 'n':
            return 0
        if o[0] != 'i':
            return 'T'
        i = f.insts[o[1]]
        if i.id in local:
            return local[i.id]
        if i.op == 'load':
            a = f.strip(i.ops[0])
            if a[0] == 'i' and a[1] in self.idx:
                return tup[self.idx[a[1]]]
            if a[0] == 'i' and a[1] in self.pin_env:
                return 1 if self.pin_env[a[1]] else 0
            if a[0] == 'g' and a[1] in self.genv:
                return 1 if self.genv[a[1]] else 0
            return 'T'
        if i.op == 'icmp':
            a, b = self.aval(i.ops[0], tup, local), self.aval(i.ops[1], tup, local)
            cb = f.const_of(i.ops[1])
            if cb == 0 and a != 'T':
                if i.pred == 'ne' or i.pred in ('ugt', 'sgt'):
                    return a
                if i.pred == 'eq':
                    return 1 - a
                return 'T'
            return 'T'
        if i.op in ('xor',) and f.const_of(i.ops[1]) in (1, -1, True):
            a = self.aval(i.ops[0], tup, local)
            return 'T' if a == 'T' else 1 - a
        if i.op in ('zext', 'trunc', 'sext'):
            return self.aval(i.ops[0], tup, local)
        if i.op == 'and':
            a, b = self.aval(i.ops[0], tup, local), self.aval(i.ops[1], tup, local)
            if a == 0 or b == 0:
                return 0
            return 'T'
        if i.op == 'or':
            a, b = self.aval(i.ops[0], tup, local), self.aval(i.ops[1], tup, local)
            if a == 1 or b == 1:
                return 1
            if a == 0 and b == 0:
                return 0
            return 'T'
        return 'T'

    def transfer_block(self, b, tup, upto=None):
        """apply the stores of block b to tuple; stop before instruction id `upto`"""
        f = self.f
        t = list(tup)
        for ins in f.blocks[b]:
            if upto is not None and ins.id == upto:
                break
            if ins.op == 'store':
                a = f.strip(ins.ops[1])
                if a[0] == 'i' and a[1] in self.idx:
                    t[self.idx[a[1]]] = self.aval(ins.ops[0], tuple(t), {})
        return tuple(t)

    def _run(self):
        f = self.f
        dq = deque([0])
        inq = {0}
        while dq:
            b = dq.popleft()
            inq.discard(b)
            outs = {}
            stop = any(i.op == 'call' and i.callee in NORETURN for i in f.blocks[b])
            if stop:
                continue
            term = f.blocks[b][-1]
            for tup in self.IN.get(b, ()):
                t2 = self.transfer_block(b, tup)
                if term.op == 'br' and len(term.ops) == 3:
                    c = self.aval(term.ops[0], t2, {})
                    tb, fb = term.ops[2][1], term.ops[1][1]
                    # refine the tested flag on each edge when the condition is a direct test of one flag
                    tf = self._tested_flag(term.ops[0])
                    for val, sb in ((1, tb), (0, fb)):
                        if c != 'T' and c != val:
                            continue
                        t3 = t2
                        if tf is not None and c == 'T':
                            k, pos = tf
                            want = val if pos else 1 - val
                            if t2[k] == 'T':
                                t3 = t2[:k] + (want,) + t2[k + 1:]
                        outs.setdefault(sb, set()).add(t3)
                elif term.op == 'switch':
                    for sb in term.succ:
                        outs.setdefault(sb, set()).add(t2)
                else:
                    for sb in term.succ or []:
                        outs.setdefault(sb, set()).add(t2)
            for sb, ts in outs.items():
                self.edge_out[(b, sb)] = ts
                cur = self.IN.setdefault(sb, set())
                if not ts <= cur:
                    cur |= ts
                    if sb not in inq:
                        inq.add(sb)
                        dq.append(sb)

    def _tested_flag(self, cond):
        """if cond is (load F != 0) / (load F == 0) / trunc(load F): return (flag index, positive?)"""
        f = self.f
        o = f.strip(cond)
        pos = True
        for _ in range(4):
            if o[0] != 'i':
                return None
            i = f.insts[o[1]]
            if i.op == 'icmp' and f.const_of(i.ops[1]) == 0 and i.pred in ('ne', 'eq'):
                if i.pred == 'eq':
                    pos = not pos
                o = f.strip(i.ops[0])
            elif i.op == 'xor' and f.const_of(i.ops[1]) in (1, -1):
                pos = not pos
                o = f.strip(i.ops[0])
            elif i.op == 'load':
                a = f.strip(i.ops[0])
                if a[0] == 'i' and a[1] in self.idx:
                    return (self.idx[a[1]], pos)
                return None
            else:
                return None
        return None

    def at(self, ins):
        """possible tuples (as dicts name->value) just before instruction ins"""
        res = set()
        for tup in self.IN.get(ins.block, ()):
            res.add(self.transfer_block(ins.block, tup, upto=ins.id))
        return [FlagTuple(zip(self.names, t)) for t in res]

    def reachable(self, ins):
        return bool(self.IN.get(ins.block))
