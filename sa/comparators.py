"""Search comparators of the extent trees touch their operands only through comparisons, so their behaviour
is determined by a finite set of orderings.  The functions are interpreted (sa/kernels.py machine, concrete
integers) over a small exhaustive domain and checked for the monotonicity binary search needs:
for a tree sorted ascending, the sign returned for extents from left to right is non-increasing (+ ... 0 ... -)."""
import itertools
from . import kernels
from .kernels import Machine, Ptr, run_function, KernelViolation, Unsupported


def field_offsets(P, struct):
    ds = P.distructs.get(struct)
    return {m['name']: (m['off'], m['bits'] // 8) for m in ds['members']} if ds else {}


def run_cmp(P, fname, argfields, objfields, argstruct_layout, objlayout):
    m = Machine(P, 64, 0, [])
    a = Ptr(('stack', 'cmp', 'arg'), 0)
    b = Ptr(('stack', 'cmp', 'obj'), 0)
    for name, v in argfields.items():
        off, sz = argstruct_layout[name]
        m.mem[(a.reg, off)] = (v, sz)
    for name, v in objfields.items():
        off, sz = objlayout[name]
        m.mem[(b.reg, off)] = (v, sz)
    r = run_function(m, fname, [a, b])
    return kernels.tosigned(r, 32), m


def monotone_parity_search(P, fname, argstruct, argfield):
    """extents sorted by parity_pos, non overlapping.  returns (ok, witness)"""
    al = field_offsets(P, argstruct)
    ol = field_offsets(P, 'snapraid_extent')
    if not al or not ol:
        raise Unsupported('layout of %s / snapraid_extent not found' % argstruct)
    D = range(0, 7)
    for v in D:
        signs = {}
        for pos in D:
            for cnt in (1, 2):
                r, _ = run_cmp(P, fname, {argfield: v}, {'parity_pos': pos, 'count': cnt, 'file_pos': 0, 'file': 0}, al, ol)
                signs[(pos, cnt)] = (r > 0) - (r < 0)
        for (p1, c1), (p2, c2) in itertools.product(signs, signs):
            if p1 + c1 <= p2:      # extent 1 entirely left of extent 2
                if signs[(p1, c1)] < signs[(p2, c2)]:
                    return False, 'key %d: extent [%d,%d) gives %d but the extent [%d,%d) to its right gives %d' % (v, p1, p1 + c1, signs[(p1, c1)], p2, p2 + c2, signs[(p2, c2)])
    return True, 'signs non-increasing from left to right for every key in 0..6 and every pair of disjoint extents'


def tree_rules(P, rep, rid):
    """all search comparators used with tommy_tree_search_compare on the extent trees are monotone w.r.t. the tree's
    own insertion comparator; insertion comparators are antisymmetric"""
    from .frontend import AnalysisBroken
    rep.rule(rid, 'extent-tree comparators (comparison-only code, interpreted over all orderings of a small domain): insertion order antisymmetric, search comparators monotone along the tree order', 5)
    ol = field_offsets(P, 'snapraid_extent')
    D = range(0, 6)
    def sgn(x):
        return (x > 0) - (x < 0)
    # insertion comparators: the functions passed to tommy_tree_init for fs_parity / fs_file
    inits = {}
    for f in P.defined():
        for c in f.calls('tommy_tree_init'):
            tree = f.expr(c.ops[0])
            cmpf = f.strip(c.ops[1])
            if cmpf[0] == 'f' and ('fs_parity' in tree or 'fs_file' in tree):
                inits['fs_parity' if 'fs_parity' in tree else 'fs_file'] = cmpf[1]
    if set(inits) != {'fs_parity', 'fs_file'}:
        raise AnalysisBroken('tree insertion comparators not found')
    def objs():
        for fl in (1, 2):
            for pos in D:
                for fpos in (0, 3):
                    yield {'parity_pos': pos, 'count': 1, 'file_pos': fpos if fl == 2 else pos, 'file': fl}
    O = list(objs())
    order = {}
    for tree, cf in inits.items():
        bad = None
        for a in O:
            for b in O:
                r1, _ = run_cmp(P, cf, a, b, ol, ol)
                r2, _ = run_cmp(P, cf, b, a, ol, ol)
                if sgn(r1) != -sgn(r2):
                    bad = (a, b, r1, r2)
                order[(tree, tuple(sorted(a.items())), tuple(sorted(b.items())))] = sgn(r1)
        rep.check(bad is None, rid, '%s insertion comparator %s is antisymmetric' % (tree, cf), P.fn(cf).file, '%d x %d objects' % (len(O), len(O)) if bad is None else 'cmp(a,b)=%d, cmp(b,a)=%d for %s / %s' % (bad[2], bad[3], bad[0], bad[1]), function=cf, construct='antisymmetry')
        rep.analysed(P.fn(cf))
    # search comparators: functions passed to tommy_tree_search_compare
    searches = []
    for f in P.defined():
        for c in f.calls('tommy_tree_search_compare'):
            tree = f.expr(c.ops[0])
            cmpf = f.strip(c.ops[1])
            if cmpf[0] == 'f' and ('fs_parity' in tree or 'fs_file' in tree):
                searches.append(('fs_parity' if 'fs_parity' in tree else 'fs_file', cmpf[1], f, c))
    if len(searches) < 4:
        raise AnalysisBroken('only %d tree searches found' % len(searches))
    seen = set()
    for tree, cf, caller, call in searches:
        if cf in seen:
            continue
        seen.add(cf)
        g = P.fn(cf)
        rep.analysed(g)
        # the argument struct: debug type of the first parameter's local
        argstruct = None
        for i in g.all_insts():
            if i.op == 'alloca' and i.var and i.var.startswith('arg_a') and i.vty:
                argstruct = i.vty.replace('struct ', '').rstrip('*').strip()
        al = field_offsets(P, argstruct) if argstruct else {}
        if not al:
            raise AnalysisBroken('argument struct of %s not found' % cf)
        keys = [k for k in al]
        witness = None
        n = 0
        for vals in itertools.product(range(0, 6), repeat=min(len(keys), 2)):
            arg = {k: (vals[j] if j < len(vals) else 0) for j, k in enumerate(keys)}
            if 'file' in arg:
                arg['file'] = 1 + arg['file'] % 2
            signs = []
            for o in O:
                r, _ = run_cmp(P, cf, dict(arg), dict(o), al, ol)
                signs.append(sgn(r))
                n += 1
            for x in range(len(O)):
                for y in range(len(O)):
                    if order[(tree, tuple(sorted(O[x].items())), tuple(sorted(O[y].items())))] < 0 and signs[x] < signs[y]:
                        witness = 'key %s: object %s gives %d but object %s (greater in tree order) gives %d: a binary search can miss matches' % (arg, O[x], signs[x], O[y], signs[y])
        rep.check(witness is None, rid, '%s search comparator %s is monotone along the tree order' % (tree, cf), g.file, '%d evaluations' % n if witness is None else witness, function=cf, construct='monotone search')
