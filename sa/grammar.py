"""E7 — writer/reader grammar extraction for the content-file codec.

Both sides are abstracted to finite sets of token sequences per record tag: every acyclic-ish path
(each block at most twice, i.e. loops taken 0 or 1 times) through the record's region of the CFG,
error sinks pruned.  Tokens: c(K) tag byte, b32, b64, bs, le32, raw(n).  Reader sub-tags are labelled
retroactively by the comparisons the path takes on the tag variable; inconsistent paths are dropped.
Each integer token also carries a *member* (struct member the writer reads it from / the reader
finally stores it into, resolved through the *_alloc constructors) for the pairing rule."""
import re
from .flags import NORETURN
from .ir import base

WR = {'sputb32': 'b32', 'sputb64': 'b64', 'sputbs': 'bs', 'sputble32': 'le32'}
RD = {'sgetb32': 'b32', 'sgetb64': 'b64', 'sgetbs': 'bs', 'sgetble32': 'le32'}


def dead_blocks(f):
    n = len(f.blocks)
    cut = {b for b in range(n) if any(i.op == 'call' and i.callee in NORETURN for i in f.blocks[b])}
    canret = {b for b in range(n) if f.term(b).op == 'ret' and b not in cut}
    ch = True
    while ch:
        ch = False
        for b in range(n):
            if b not in canret and b not in cut and any(s in canret for s in f.succ[b]):
                canret.add(b); ch = True
    return set(range(n)) - canret


def last_member(expr):
    m = re.findall(r'(?:->|\.)([A-Za-z_][A-Za-z0-9_]*)', expr)
    return m[-1] if m else None


def qual_member(f, o, depth=0):
    """'struct.member' of the object an operand reads from / points into (from the GEP's struct step), or None"""
    o = f.strip(o)
    if o[0] != 'i' or depth > 6:
        return None
    i = f.insts[o[1]]
    if i.op == 'load':
        a = f.strip(i.ops[0])
        if a[0] == 'i' and f.insts[a[1]].op == 'alloca':
            stores = [u for u in f.users.get(a[1], ()) if u.op == 'store' and f.strip(u.ops[1]) == a]
            if len(stores) == 1:
                return qual_member(f, stores[0].ops[0], depth + 1)
            return None
        return qual_member(f, i.ops[0], depth + 1)
    if i.op == 'getelementptr':
        for st in reversed(i.steps or []):
            if st[0] == 's':
                nm = f.member(st)
                return '%s.%s' % (st[2].replace('struct.', ''), nm) if nm else None
        return qual_member(f, i.ops[0], depth + 1)
    if i.op in ('add', 'sub') and f.const_of(i.ops[1]) is not None:
        return qual_member(f, i.ops[0], depth + 1)
    return None


def local_source(f, o, depth=0):
    """expression a local variable was assigned from, when it has a single non-constant store (size = file->size)"""
    o = f.strip(o)
    if o[0] != 'i' or depth > 3:
        return f.expr(o)
    i = f.insts[o[1]]
    if i.op == 'load':
        a = f.strip(i.ops[0])
        if a[0] == 'i' and f.insts[a[1]].op == 'alloca':
            stores = [u for u in f.users.get(a[1], ()) if u.op == 'store' and f.strip(u.ops[1]) == a]
            if len(stores) == 1:
                return local_source(f, stores[0].ops[0], depth + 1)
    if i.op in ('add', 'sub') and f.const_of(i.ops[1]) is not None:
        return local_source(f, i.ops[0], depth + 1)
    return f.expr(o)


# ------------------------------------------------------------------ writer
def writer_tokens_of_call(f, c):
    if c.callee == 'sputc':
        k = f.const_of(c.ops[0])
        return ('c', chr(k) if k is not None else '?', None)
    if c.callee in WR:
        src = local_source(f, c.ops[0])
        return (WR[c.callee], None, qual_member(f, c.ops[0]) or last_member(src))
    if c.callee == 'swrite':
        n = f.const_of(c.ops[1])
        return ('raw', str(n) if n is not None else f.expr(c.ops[1]), qual_member(f, c.ops[0]) or last_member(f.expr(c.ops[0])))
    return None


def error_return_blocks(f):
    """blocks that store a non-null value into the return slot of a pointer-returning worker (`return context`)"""
    res = set()
    for i in f.all_insts():
        if i.op == 'store':
            a = f.inst_of(i.ops[1])
            if a is not None and a.op == 'alloca' and a.name == 'retval' and f.const_of(i.ops[0]) is None:
                res.add(i.block)
    return res


def writer_grammar(P, fname, record_tags, exhaustive_switch=None):
    f = P.fn(fname)
    dead = dead_blocks(f) | error_return_blocks(f)
    calls = {}
    for c in f.calls({'sputc', 'swrite'} | set(WR)):
        calls[c.id] = writer_tokens_of_call(f, c)
    # which sputc calls are record-level: tag in record_tags and not immediately preceded by another sputc
    def immediately_after_sputc(c):
        # walk backwards in the same block / unique predecessors to the previous token call
        b, idx = c.block, c.idx - 1
        seen = 0
        while seen < 6:
            blk = f.blocks[b]
            while idx >= 0:
                i = blk[idx]
                if i.id in calls:
                    return calls[i.id][0] == 'c'
                idx -= 1
            preds = f.pred[b]
            if len(preds) != 1:
                # all predecessors must end right after a sputc
                res = []
                for p in preds:
                    r = None
                    for i in reversed(f.blocks[p]):
                        if i.id in calls:
                            r = calls[i.id][0] == 'c'
                            break
                    res.append(r)
                return bool(res) and all(r is True for r in res)
            b = preds[0]; idx = len(f.blocks[b]) - 1
            seen += 1
        return False
    starts = {}
    for c in f.calls('sputc'):
        tok = calls[c.id]
        if tok[1] in record_tags and not immediately_after_sputc(c):
            starts.setdefault(tok[1], []).append(c)
    start_ids = {c.id for cs in starts.values() for c in cs}
    # a switch whose every case starts a record (tag byte) and whose default merely falls through is exhaustive
    # iff the caller-supplied invariant check says so; then the tag-less default edge is pruned
    pruned = []
    for b in range(len(f.blocks)):
        t = f.term(b)
        if t.op != 'switch' or not t.cases:
            continue
        firsts = [_token_succ(f, cb, 0, dead, calls) for _, cb in t.cases]
        if all(fs and all(x in start_ids for x in fs) for fs in firsts):
            dfirst = _token_succ(f, t.default, 0, dead, calls)
            if not (dfirst & start_ids) and exhaustive_switch is not None and exhaustive_switch(f, t):
                pruned.append(t)
    global _PRUNED_DEFAULT
    _PRUNED_DEFAULT = {t.id for t in pruned}
    gram = {}
    for tag, cs in starts.items():
        seqs = set()
        for c in cs:
            _enum_paths(f, c.block, c.idx + 1, dead, calls, start_ids, seqs, mode='w')
        gram[tag] = {(('c', tag, None),) + s for s in seqs}
    # header strings
    def _alts(o, depth=0):
        """the constant strings an operand can be: both arms of a ?: (select / phi), the values stored in a local"""
        o2 = f.strip(o)
        i = f.insts.get(o2[1]) if o2[0] == 'i' else None
        if i is not None and depth < 4:
            if i.op == 'select':
                return _alts(i.ops[1], depth + 1) | _alts(i.ops[2], depth + 1)
            if i.op == 'phi':
                r = set()
                for v in i.ops:
                    r |= _alts(v, depth + 1)
                return r
            if i.op == 'load':
                a = f.strip(i.ops[0])
                if a[0] == 'i' and f.insts[a[1]].op == 'alloca':
                    r = set()
                    for u in f.users.get(a[1], ()):
                        if u.op == 'store' and f.strip(u.ops[1]) == a:
                            r |= _alts(u.ops[0], depth + 1)
                    if r:
                        return r
        return {f.expr(o)}
    hdr = sorted({h for c in f.calls('swrite') if f.const_of(c.ops[1]) == 12 for h in _alts(c.ops[0])})
    _PRUNED_DEFAULT = set()
    return gram, hdr, f, pruned


def _token_succ(f, start_block, start_idx, dead, calls):
    """token calls (ids) reachable from a program point without passing another token call; 'END' if a return is"""
    res = set()
    seen = set()
    work = [(start_block, start_idx)]
    while work:
        b, idx = work.pop()
        if (b, idx) in seen:
            continue
        seen.add((b, idx))
        hit = False
        for i in f.blocks[b][idx:]:
            if i.id in calls and calls[i.id] is not None:
                res.add(i.id); hit = True
                break
            if i.op == 'call' and i.callee in NORETURN:
                hit = True
                break
        if hit:
            continue
        t = f.blocks[b][-1]
        if t.op == 'ret':
            res.add('END')
            continue
        for s in t.succ or []:
            if s in dead:
                continue
            if t.op == 'switch' and t.id in _PRUNED_DEFAULT and s == t.default and all(cb != s for _, cb in t.cases):
                continue
            work.append((s, 0))
    return res


_PRUNED_DEFAULT = set()


def _enum_paths(f, b0, idx0, dead, calls, stop_ids, out, mode, labelvar=None, limit=200000):
    """simple paths in the token graph (each token call at most once = loops taken 0 or 1 times) from the
    program point (b0, idx0) to the next record-level tag or the function exit"""
    succ = {}
    def S(key, b, idx):
        if key not in succ:
            succ[key] = _token_succ(f, b, idx, dead, calls)
        return succ[key]
    n = 0
    stack = [(('start',), (), frozenset())]
    while stack:
        key, toks, used = stack.pop()
        n += 1
        if n > limit:
            raise RuntimeError('path explosion in %s' % f.name)
        if key == ('start',):
            nxt = S(key, b0, idx0)
        else:
            ins = f.insts[key[1]]
            nxt = S(key, ins.block, ins.idx + 1)
        for x in nxt:
            if x == 'END' or x in stop_ids:
                out.add(tuple(toks))
            elif x not in used:
                stack.append((('t', x), toks + (calls[x],), used | {x}))


# ------------------------------------------------------------------ reader
def reader_dispatch(f):
    """the record dispatch: blocks `c == K` chained through the false edge, after the loop-header sgetc.
    returns (header_block, {tag: entry block}, tag variable alloca id)"""
    best = None
    for c in f.calls('sgetc'):
        # the sgetc whose result is stored into a local that is then compared in a chain of >= 10 eq-compares
        st = [u for u in f.users.get(c.id, ()) if u.op in ('store',)]
        if not st:
            continue
        al = f.strip(st[0].ops[1])
        if al[0] != 'i':
            continue
        tags = {}
        # follow from the block after the EOF test
        b = c.block
        seen = set()
        work = [b]
        while work:
            x = work.pop()
            if x in seen:
                continue
            seen.add(x)
            t = f.term(x)
            if t.op == 'br' and len(t.ops) == 3:
                ci = f.inst_of(t.ops[0])
                if ci is not None and ci.op == 'icmp' and ci.pred in ('eq', 'ne'):
                    li = f.inst_of(ci.ops[0])
                    k = f.const_of(ci.ops[1])
                    if li is not None and li.op == 'load' and f.strip(li.ops[0]) == al and k is not None:
                        tb, fb = (t.ops[2][1], t.ops[1][1]) if ci.pred == 'eq' else (t.ops[1][1], t.ops[2][1])
                        if k == -1:
                            work.append(fb)   # EOF test: continue on the not-EOF side
                            continue
                        tags[chr(k)] = tb
                        work.append(fb)
        if best is None or len(tags) > len(best[1]):
            best = (c.block, tags, al[1])
    return best


def reader_grammar(P, fname):
    f = P.fn(fname)
    dead = dead_blocks(f)
    header, tags, tagvar = reader_dispatch(f)
    calls = {}
    for c in f.calls({'sgetc', 'sread'} | set(RD)):
        if c.callee == 'sgetc':
            calls[c.id] = ('c', '?', None)
        elif c.callee == 'sread':
            n = f.const_of(c.ops[2])
            calls[c.id] = ('raw', str(n) if n is not None else f.expr(c.ops[2]), qual_member(f, c.ops[1]) or last_member(f.expr(c.ops[1])))
        else:
            calls[c.id] = (RD[c.callee], None, reader_member(P, f, c))
    gram = {}
    for tag, entry in tags.items():
        seqs = set()
        _enum_reader(f, entry, header, dead, calls, tagvar, seqs)
        gram[tag] = {(('c', tag, None),) + s for s in seqs}
    hdr = sorted({f.expr(c.ops[1]) for c in f.calls('memcmp') if f.const_of(c.ops[2]) == 12})
    return gram, hdr, f


def _enum_reader(f, entry, header, dead, calls, tagvar, out, limit=200000):
    """paths from the record entry back to the loop header; tracks the label of the tag variable:
    lab = (eqset or None, neqset): after `c = sgetc` the label is reset and attached to that token index"""
    stack = [(entry, (), {}, None, frozenset(), None)]  # block, toks, visits, eq label, ne labels, index of token carrying the label
    n = 0
    while stack:
        b, toks, visits, eq, ne, tix = stack.pop()
        n += 1
        if n > limit:
            raise RuntimeError('path explosion in reader')
        if b == header:
            out.add(tuple(toks))
            continue
        toks = list(toks)
        ended = False
        for i in f.blocks[b]:
            if i.id in calls:
                toks.append(calls[i.id])
                if calls[i.id][0] == 'c':
                    # is the result stored into the tag variable?
                    st = [u for u in f.users.get(i.id, ()) if u.op == 'store' and f.strip(u.ops[1]) == ['i', tagvar]]
                    if st:
                        eq = None; ne = frozenset(); tix = len(toks) - 1
            if i.op == 'call' and i.callee in NORETURN:
                ended = True
                break
        if ended:
            continue
        t = f.blocks[b][-1]
        if t.op == 'ret':
            continue
        edges = []
        if t.op == 'br' and len(t.ops) == 3:
            ci = f.inst_of(t.ops[0])
            k = None
            if ci is not None and ci.op == 'icmp' and ci.pred in ('eq', 'ne'):
                li = f.inst_of(ci.ops[0])
                kk = f.const_of(ci.ops[1])
                if li is not None and li.op == 'load' and f.strip(li.ops[0]) == ['i', tagvar] and kk is not None and kk >= 0:
                    k = chr(kk)
            tb, fb = t.ops[2][1], t.ops[1][1]
            if k is not None:
                eqb, neb = (tb, fb) if ci.pred == 'eq' else (fb, tb)
                edges = [(eqb, ('eq', k)), (neb, ('ne', k))]
            else:
                edges = [(tb, None), (fb, None)]
        elif t.op == 'switch':
            li = f.inst_of(t.ops[0])
            on_tag = li is not None and li.op == 'load' and f.strip(li.ops[0]) == ['i', tagvar]
            ks = []
            for cv, cb in t.cases:
                edges.append((cb, ('eq', chr(cv)) if on_tag and cv >= 0 else None))
                ks.append(chr(cv) if cv >= 0 else None)
            edges.append((t.default, ('nes', tuple(ks)) if on_tag else None))
        else:
            edges = [(s, None) for s in (t.succ or [])]
        for s, cond in edges:
            if s in dead:
                continue
            e2, n2, tk = eq, ne, list(toks)
            if cond is not None and tix is not None:
                if cond[0] == 'eq':
                    if (e2 is not None and e2 != cond[1]) or cond[1] in n2:
                        continue
                    e2 = cond[1]
                    tk[tix] = ('c', e2, None)
                elif cond[0] == 'ne':
                    if e2 == cond[1]:
                        continue
                    n2 = n2 | {cond[1]}
                else:
                    if e2 is not None and e2 in cond[1]:
                        continue
                    n2 = n2 | set(k for k in cond[1] if k)
            v = dict(visits)
            v[s] = v.get(s, 0) + 1
            if v[s] > 2:
                continue
            stack.append((s, tuple(tk), v, e2, n2, tix))


_ALLOC_MAP = {}


def alloc_param_members(P, name):
    """constructor summary: parameter index -> 'struct.member' the parameter is stored / copied into (file_alloc, map_alloc, ...)"""
    if name in _ALLOC_MAP:
        return _ALLOC_MAP[name]
    res = {}
    g = P.functions.get(name)
    if g is not None and not g.decl:
        aa = g.arg_allocas()
        def param_of(o):
            v = g.strip(o)
            vi = g.insts[v[1]] if v[0] == 'i' else None
            if vi is not None and vi.op == 'load':
                a = g.strip(vi.ops[0])
                if a[0] == 'i' and a[1] in aa:
                    return aa[a[1]]
            return None
        for i in g.all_insts():
            if i.op == 'store':
                dst = g.expr(i.ops[1])
                if '->' in dst:
                    k = param_of(i.ops[0])
                    if k is not None:
                        res[k] = qual_member(g, i.ops[1]) or last_member(dst)
                    else:
                        # member = strdup_nofail(param)
                        vi = g.inst_of(i.ops[0])
                        if vi is not None and vi.op == 'call' and vi.callee in ('strdup_nofail', 'strdup'):
                            k = param_of(vi.ops[0])
                            if k is not None:
                                res[k] = qual_member(g, i.ops[1]) or last_member(dst)
            elif i.op == 'call' and i.callee in ('pathcpy', 'pathimport') and len(i.ops) >= 3:
                k = param_of(i.ops[2])
                if k is not None:
                    res[k] = qual_member(g, i.ops[0]) or last_member(g.expr(i.ops[0]))
    _ALLOC_MAP[name] = res
    return res


def reader_member(P, f, c):
    """'struct.member' into which the decoded out-variable finally goes: direct store to a member, or argument of an *_alloc
    constructor (scalars: the loaded value; strings: the buffer itself is passed on)"""
    a = f.strip(c.ops[1])
    if a[0] != 'i':
        return None
    ai = f.insts[a[1]]
    # array decay: &buf[0]
    while ai.op == 'getelementptr' and f.strip(ai.ops[0])[0] == 'i' and all(st[0] == 'a' for st in (ai.steps or [])):
        ai = f.insts[f.strip(ai.ops[0])[1]]
    if ai.op != 'alloca':
        return qual_member(f, c.ops[1]) or last_member(f.expr(c.ops[1]))
    mems = set()
    rset = f.reach([c])
    work = []
    for u in f.users.get(ai.id, ()):
        if u.id not in rset:
            continue
        if u.op == 'load':
            work.append(u)
        elif u.op == 'getelementptr' and all(st[0] == 'a' for st in (u.steps or [])):
            work.append(u)          # the buffer passed on as a string
    seen = set()
    while work:
        x = work.pop()
        if x.id in seen:
            continue
        seen.add(x.id)
        for u in f.users.get(x.id, ()):
            if u.op in ('zext', 'sext', 'trunc', 'add', 'sub', 'mul', 'bitcast'):
                work.append(u)
            elif u.op == 'store' and f.strip(u.ops[0])[0] == 'i' and f.strip(u.ops[0])[1] == x.id:
                d = f.expr(u.ops[1])
                if '->' in d or '.' in d:
                    mems.add(qual_member(f, u.ops[1]) or last_member(d))
            elif u.op == 'call' and u.callee_full and u.id in rset:
                if u.callee in ('pathcpy', 'pathimport') and len(u.ops) >= 3 and f.strip(u.ops[2]) == ['i', x.id]:
                    mems.add(qual_member(f, u.ops[0]) or last_member(f.expr(u.ops[0])))
                    continue
                pm = alloc_param_members(P, u.callee_full)
                for k, o in enumerate(u.ops):
                    if f.strip(o) == ['i', x.id] and k in pm:
                        mems.add(pm[k])
    mems.discard(None)
    if len(mems) == 1:
        return mems.pop()
    return None


# ------------------------------------------------------------------ comparison
def shape(seq):
    return tuple((t[0], t[1]) for t in seq)


def tok_match(w, r):
    """writer token accepted by reader token"""
    if w[0] != r[0]:
        return False
    if w[0] == 'c':
        return r[1] == '?' or w[1] == '?' or w[1] == r[1]
    if w[0] == 'raw':
        return w[1] == r[1]
    return True


def seq_accepts(rseqs, wseq):
    for r in rseqs:
        if len(r) == len(wseq) and all(tok_match(w, x) for w, x in zip(wseq, r)):
            return r
    return None


def to_json(gram):
    return {tag: sorted([[list(map(lambda x: x if x is not None else '', t[:2])) for t in s] for s in seqs]) for tag, seqs in gram.items()}
