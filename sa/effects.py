"""E5 — write-effect analysis over the call graph.

SITES is the frozen table of *effect primitive sites*: (function containing the call, libc
callee) -> effect class, each confirmed by reading the function.  A write-capable libc
call at any other site is an 'UNCLASSIFIED' write effect (ownership rule).
Per-command reachability is flag- and operation-sensitive (sa/flags.py) and resolves
function pointers on the fly from the functions actually reached (RTA style)."""
from collections import deque
from .flags import pinned_reach, param_env, local_env, Folder, NORETURN
from .ir import base

O_WRONLY, O_RDWR, O_CREAT, O_EXCL, O_TRUNC, O_APPEND = 1, 2, 0o100, 0o200, 0o1000, 0o2000
WRITE_BITS = O_WRONLY | O_RDWR | O_CREAT | O_TRUNC | O_APPEND

# libc functions that can modify the file system
WRITE_CALLS = {'write', 'pwrite', 'pwrite64', 'ftruncate', 'ftruncate64', 'truncate', 'fallocate', 'posix_fallocate', 'rename', 'renameat',
               'remove', 'unlink', 'unlinkat', 'rmdir', 'mkdir', 'mkdirat', 'symlink', 'symlinkat', 'link', 'linkat', 'futimens', 'utimensat',
               'utimes', 'lutimes', 'futimes', 'utime', 'system', 'popen', 'creat', 'mkstemp', 'fwrite', 'fputc', 'chmod', 'fchmod', 'chown', 'fchown',
               'mknod', 'mkfifo', 'execv', 'execve', 'execvp', 'execl', 'execlp', 'fork', 'vfork', 'posix_spawn', 'writev', 'pwritev', 'sendfile',
               'copy_file_range', 'mmap', 'mmap64', 'setxattr', 'fsetxattr', 'lsetxattr', 'removexattr', 'tmpfile', 'freopen'}
OPEN_CALLS = {'open': 1, 'open64': 1, 'openat': 2, 'openat64': 2}

# (function, libc callee) -> class ; one line of reason per entry
SITES = {
    # data disks (fix only)
    ('handle_create', 'open'): 'DATA',            # create/open the file to recover, O_RDWR|O_CREAT
    ('handle_create', 'rename'): 'DATA',          # re-adopt <file>.unrecoverable
    ('handle_truncate', 'ftruncate'): 'DATA',     # cut a recovered file to its recorded size
    ('handle_write', 'pwrite'): 'DATA',           # write a recovered block
    ('state_check_process', 'mkdir'): 'DATA',     # re-create an empty directory
    ('state_check_process', 'open'): 'DATA',      # re-create an empty file
    ('state_check_process', 'remove'): 'DATA',    # remove a wrong link / unfinished file before re-creating
    ('state_check_process', 'symlink'): 'DATA',   # re-create a symlink
    ('file_post', 'rename'): 'DATA',              # rename to .unrecoverable
    ('hardlink', 'link'): 'DATA',                 # re-create a hard link
    ('mkancestor', 'mkdir'): 'MKDIR',             # ancestors of a recovered file or of a pool link
    ('fmtime', 'futimens'): 'MTIME',              # set file time (fix, touch)
    ('lmtime', 'utimensat'): 'LMTIME',            # set link time (pool)
    # parity files
    ('parity_create', 'open'): 'PARITY_CREATE',   # O_RDWR|O_CREAT, no truncation
    ('parity_handle_grow', 'fallocate'): 'PARITY', ('parity_handle_grow', 'ftruncate'): 'PARITY',
    ('parity_handle_shrink', 'ftruncate'): 'PARITY', ('parity_truncate', 'ftruncate'): 'PARITY',
    ('parity_write', 'pwrite'): 'PARITY',
    # content files
    ('sopen_multi_file', 'open'): 'CONTENT',      # <content>.tmp with O_CREAT|O_EXCL
    ('sflush', 'write'): 'STREAM_WRITE',          # stream buffer to a descriptor the stream layer opened; writable only via sopen_multi_file
    ('state_write_content', 'remove'): 'CONTENT',  # stale .tmp
    ('state_rename_content', 'rename'): 'CONTENT',  # .tmp -> content
    # pool directory
    ('make_link', 'remove'): 'POOL', ('make_link', 'symlink'): 'POOL', ('remove_link', 'remove'): 'POOL', ('clean_dir', 'rmdir'): 'POOL',
    # lock, log, diagnostics
    ('lock_lock', 'open'): 'LOCK',
    ('log_open', 'fopen'): 'LOG',
    ('malloc_print', 'write'): 'STDERR', ('malloc_printn', 'write'): 'STDERR',
    ('os_abort', 'system'): 'ABORT',              # addr2line in the crash handler
    # devices
    ('devup', 'mkdir'): 'DEVICE_SPIN', ('devup', 'rmdir'): 'DEVICE_SPIN',   # spin-up probe directory
    ('devdown', 'popen'): 'DEVICE_CMD', ('devsmart', 'popen'): 'DEVICE_CMD',  # hdparm / smartctl
    ('main', 'system'): 'TESTRUN',                # --test-run hook (test option)
}
# open() sites that must stay read-only (flags proven without write bits)
READONLY_OPEN = {'open_noatime', 'import_file', 'state_import_fetch', 'search_file_compare', 'sopen_read', 'state_touch', 'devread', 'filephy',
                 'randomize', 'tagread', 'state_read', 'devuuid_dev', 'parity_open', 'handle_open'}


class Bits:
    """interprocedural may-bits of an int value: OR of every constant that may flow into it"""

    def __init__(self, P):
        self.P = P
        self.memo = {}
        self.busy = set()

    def of(self, f, o, depth=0):
        o = f.strip(o)
        if o[0] == 'c':
            return o[1]
        if o[0] == 'a':
            return self.param(f, o[1])
        if o[0] != 'i':
            return None
        key = (f.name, o[1])
        if key in self.memo:
            return self.memo[key]
        if key in self.busy:
            return 0
        self.busy.add(key)
        r = self._inst(f, f.insts[o[1]])
        self.busy.discard(key)
        self.memo[key] = r
        return r

    def _inst(self, f, i):
        if i.op in ('or', 'xor', 'add'):
            a, b = self.of(f, i.ops[0]), self.of(f, i.ops[1])
            return None if a is None or b is None else a | b
        if i.op == 'and':
            a, b = self.of(f, i.ops[0]), self.of(f, i.ops[1])
            if a is None and b is None:
                return None
            return b if a is None else a if b is None else a & b
        if i.op == 'load':
            a = f.strip(i.ops[0])
            if a[0] == 'i' and f.insts[a[1]].op == 'alloca':
                aid = a[1]
                aa = f.arg_allocas()
                r = 0
                for u in f.users.get(aid, ()):
                    if u.op == 'store' and f.strip(u.ops[1]) == ['i', aid]:
                        v = self.of(f, u.ops[0])
                        if v is None:
                            return None
                        r |= v
                    elif u.op not in ('load', 'store', 'dbg'):
                        return None   # address escapes
                return r
            return None
        if i.op == 'select':
            a, b = self.of(f, i.ops[1]), self.of(f, i.ops[2])
            return None if a is None or b is None else a | b
        if i.op == 'call' and i.callee_full:
            g = self.P.functions.get(i.callee_full)
            if g is None or g.decl:
                return None
            r = 0
            for ret in g.returns():
                if not ret.ops:
                    return None
                v = self.of(g, ret.ops[0])
                if v is None:
                    return None
                r |= v
            return r
        if i.op == 'phi':
            r = 0
            for o in i.ops:
                v = self.of(f, o)
                if v is None:
                    return None
                r |= v
            return r
        return None

    def param(self, f, idx):
        key = (f.name, 'arg', idx)
        if key in self.memo:
            return self.memo[key]
        if key in self.busy:
            return 0
        self.busy.add(key)
        r = 0
        callers = self.P.callers(base(f.name)) if not f.internal else [(g, c) for g, c in self.P.callers(base(f.name)) if c.callee_full == f.name]
        if not callers:
            r = None
        for g, c in callers:
            if c.callee_full != f.name:
                continue
            if idx >= len(c.ops):
                r = None
                break
            v = self.of(g, c.ops[idx])
            if v is None:
                r = None
                break
            r |= v
        self.busy.discard(key)
        self.memo[key] = r
        return r


_SITE_FUNCS = None
_INV_CG = {}


def site_owner(P, f, cal):
    """the table entry function a call site belongs to: the function itself, or -- for a static helper that is not in the table and
    is called from a single table function (code split out of an effect primitive) -- that caller"""
    global _SITE_FUNCS
    if _SITE_FUNCS is None:
        _SITE_FUNCS = {k[0] for k in SITES}
    fb = base(f.name)
    if (fb, cal) in SITES or fb in _SITE_FUNCS or not f.internal:
        return fb
    if id(P) not in _INV_CG:
        inv = {}
        for a, bs in P.callgraph().items():
            for b in bs:
                inv.setdefault(b, set()).add(a)
        _INV_CG[id(P)] = inv
    inv = _INV_CG[id(P)]
    owners = set()
    work = [f.name]; seen = set()
    while work:
        x = work.pop()
        if x in seen:
            continue
        seen.add(x)
        for c in inv.get(x, ()):
            cf = P.functions.get(c)
            if base(c) in _SITE_FUNCS or cf is None or not cf.internal:
                owners.add(base(c))
            else:
                work.append(c)
    if len(owners) == 1 and (list(owners)[0], cal) in SITES:
        return list(owners)[0]
    return fb


def classify_site(P, bits, f, c):
    """effect class of one external call site, or None if it has no write effect"""
    cal = c.callee
    fb = site_owner(P, f, 'open' if cal in OPEN_CALLS else cal)
    if cal in OPEN_CALLS:
        flags = bits.of(f, c.ops[OPEN_CALLS[cal]])
        if flags is not None and not (flags & WRITE_BITS):
            return None
        return SITES.get((fb, 'open'), 'UNCLASSIFIED')
    if cal == 'fopen':
        mode = f.expr(c.ops[1])
        if mode in ('"r"', '"rb"', '"rt"'):
            return None
        return SITES.get((fb, 'fopen'), 'UNCLASSIFIED')
    if cal in WRITE_CALLS:
        return SITES.get((fb, cal), 'UNCLASSIFIED')
    return None


def all_write_sites(P):
    """every write-capable external call site in the program: [(function, call, class)]"""
    bits = Bits(P)
    out = []
    for f in P.defined():
        for c in f.calls():
            if c.callee_full and (c.callee_full not in P.functions or P.functions[c.callee_full].decl):
                cls = classify_site(P, bits, f, c)
                if cls:
                    out.append((f, c, cls))
    return out


def command_effects(P, root, root_locals=None, root_pins=None, genv=None, stop_fns=()):
    """flag-sensitive reachable write effects from `root`.
    returns (effects: {class: [(chain, call)]}, contexts visited, functions reached)"""
    bits = Bits(P)
    reach_ids = {root: set()}
    result = None
    while True:
        slots = P.solve_slots(set(reach_ids), reach_ids)
        effects = {}
        seen = {}
        start = (root, frozenset((root_pins or {}).items()))
        dq = deque([(start, None)])
        new_ids = {k: set(v) for k, v in reach_ids.items()}
        while dq:
            ctxk, parent = dq.popleft()
            if ctxk in seen:
                continue
            seen[ctxk] = parent
            fname, pins = ctxk
            f = P.functions[fname]
            env = param_env(f, dict(pins))
            if fname == root and root_locals:
                env.update(local_env(f, root_locals))
            reach, fo = pinned_reach(f, env, genv)
            new_ids.setdefault(fname, set()).update(reach)
            for i in f.all_insts():
                if i.id not in reach or i.op != 'call' or i.asm is not None:
                    continue
                if i.callee and i.callee.startswith('llvm.'):
                    continue
                for t in P.call_targets(f, i, slots):
                    g = P.functions.get(t)
                    if g is None or g.decl:
                        if t == i.callee_full:
                            cls = classify_site(P, bits, f, i)
                            if cls:
                                effects.setdefault(cls, []).append((ctxk, i))
                        continue
                    if base(t) in stop_fns:
                        continue
                    npins = {}
                    if t == i.callee_full:
                        ctl = control_params(P, g)
                        for k, a in enumerate(i.ops):
                            if k not in ctl:
                                continue
                            v = direct_const(f, fo, a)
                            if v is not None:
                                npins[k] = v
                    dq.append(((t, frozenset(npins.items())), (ctxk, i)))
        if new_ids == reach_ids:
            result = (effects, seen, set(reach_ids))
            break
        reach_ids = new_ids
    return result


def direct_const(f, fo, a):
    """value of an argument that is a literal constant or an unmodified pinned local/parameter
    (no arithmetic: keeps the set of contexts finite under recursion)"""
    a = f.strip(a)
    if a[0] == 'c':
        return a[1]
    if a[0] == 'i':
        i = f.insts[a[1]]
        if i.op == 'load':
            b = f.strip(i.ops[0])
            if b[0] == 'i' and b[1] in fo.env:
                return fo.env[b[1]]
    return None


_CTL = {}


def control_params(P, g, depth=0):
    """indices of integer parameters of g whose value steers a branch in g, or is passed on
    unchanged to such a parameter of a callee (fixpoint by recursion with a guard)"""
    if g.name in _CTL:
        return _CTL[g.name]
    _CTL[g.name] = set()
    res = set()
    aa = g.arg_allocas()
    for aid, idx in aa.items():
        if g.args[idx]['ty'].endswith('*') or idx in res:
            continue
        work = [u for u in g.users.get(aid, ()) if u.op == 'load']
        seen = set()
        while work:
            u = work.pop()
            if u.id in seen:
                continue
            seen.add(u.id)
            for uu in g.users.get(u.id, ()):
                if uu.op in ('br', 'switch'):
                    res.add(idx)
                elif uu.op in ('icmp', 'trunc', 'zext', 'sext', 'and'):
                    work.append(uu)
                elif uu.op == 'call' and uu.callee_full and depth < 6:
                    h = P.functions.get(uu.callee_full)
                    if h is not None and not h.decl:
                        for k, a in enumerate(uu.ops):
                            if g.strip(a) == ['i', u.id] and k in control_params(P, h, depth + 1):
                                res.add(idx)
    _CTL[g.name] = res
    return res


def chain_of(seen, ctxk, limit=12):
    out = []
    cur = ctxk
    while cur is not None and len(out) < limit:
        parent = seen.get(cur)
        pins = dict(cur[1])
        out.append(cur[0] + ('{%s}' % ','.join('arg%d=%s' % kv for kv in sorted(pins.items())) if pins else ''))
        cur = parent[0] if parent else None
    return ' <- '.join(out)
