"""In-memory model of the extracted LLVM facts + CFG utilities.

No rule lives here.  Everything is resolved from the IR (types, debug info, callees);
nothing matches source text or line numbers (lines are only carried for reports).
"""
import json, re
from collections import defaultdict, deque

CASTS = {'sext', 'zext', 'trunc', 'bitcast', 'ptrtoint', 'inttoptr', 'addrspacecast', 'freeze'}
BINOPS = {'add': '+', 'sub': '-', 'mul': '*', 'udiv': '/', 'sdiv': '/', 'urem': '%', 'srem': '%',
          'and': '&', 'or': '|', 'xor': '^', 'shl': '<<', 'lshr': '>>', 'ashr': '>>'}
PREDS = {'eq': '==', 'ne': '!=', 'ugt': '>', 'uge': '>=', 'ult': '<', 'ule': '<=',
         'sgt': '>', 'sge': '>=', 'slt': '<', 'sle': '<='}


def base(name):
    """llvm-link renames colliding internal (static inline) functions f -> f.123"""
    return re.sub(r'\.\d+$', '', name)


class Inst:
    __slots__ = ('id', 'op', 'ty', 'ops', 'line', 'file', 'callee', 'asm', 'cons', 'indirect', 'target',
                 'var', 'vty', 'pred', 'succ', 'src', 'off', 'steps', 'cases', 'default', 'inc',
                 'block', 'idx', 'fn', 'aty', 'asize', 'inl', 'oline', 'nargs', 'volatile', 'callee_full', 'name')

    def __init__(self, d, block, idx, fn):
        g = d.get
        self.id = d['id']; self.op = d['op']; self.ty = g('ty'); self.ops = g('ops', [])
        self.line = g('oline') or g('line', 0); self.file = g('file'); self.callee_full = g('callee'); self.asm = g('asm')
        self.callee = base(self.callee_full) if self.callee_full else None
        self.name = g('n')
        self.cons = g('cons'); self.indirect = g('indirect', False); self.target = g('target')
        self.var = g('var'); self.vty = g('vty'); self.pred = g('pred'); self.succ = g('succ')
        self.src = g('src'); self.off = g('off'); self.steps = g('steps'); self.cases = g('cases')
        self.default = g('default'); self.inc = g('inc'); self.aty = g('aty'); self.asize = g('asize')
        self.inl = g('inl'); self.oline = g('oline'); self.nargs = g('nargs'); self.volatile = g('volatile', False)
        self.block = block; self.idx = idx; self.fn = fn

    def loc(self):
        f = self.fn.file if self.inl is None else (self.fn.file)
        return '%s:%s' % (f or '?', self.line or '?')

    def __repr__(self):
        return '<%s #%d %s @%s>' % (self.fn.name, self.id, self.op + (':' + self.callee if self.callee else ''), self.loc())


class Function:
    def __init__(self, name, d, prog):
        self.name = name; self.prog = prog; self.d = d
        self.decl = d['decl']; self.file = d.get('file'); self.line = d.get('line'); self.args = d.get('args', [])
        self.ret = d.get('ret'); self.internal = d.get('internal', False)
        self.blocks = []      # list of list of Inst
        self.insts = {}
        self.bname = []
        if not self.decl:
            for bi, b in enumerate(d['blocks']):
                lst = []
                for ii, idd in enumerate(b['insts']):
                    ins = Inst(idd, bi, ii, self)
                    # canonical comparisons: a constant compared with a value is read as the value compared with the constant
                    # (`LIMIT <= x` and `x >= LIMIT` are one fact for every rule)
                    if ins.op == 'icmp' and len(ins.ops) == 2 and ins.ops[0][0] in ('c', 'cbig', 'n') and ins.ops[1][0] not in ('c', 'cbig', 'n'):
                        ins.ops = [ins.ops[1], ins.ops[0]]
                        ins.pred = {'ult': 'ugt', 'ugt': 'ult', 'ule': 'uge', 'uge': 'ule', 'slt': 'sgt', 'sgt': 'slt', 'sle': 'sge', 'sge': 'sle'}.get(ins.pred, ins.pred)
                    # commutative operators: a constant operand goes to the right (`1 + i` is `i + 1` for every rule)
                    if ins.op in ('add', 'mul', 'and', 'or', 'xor') and len(ins.ops) == 2 and ins.ops[0][0] in ('c', 'cbig', 'n') and ins.ops[1][0] not in ('c', 'cbig', 'n'):
                        ins.ops = [ins.ops[1], ins.ops[0]]
                    lst.append(ins)
                    self.insts[ins.id] = ins
                self.blocks.append(lst)
                self.bname.append(b['name'])
        self._succ = None; self._pred = None; self._users = None
        self._dom = None; self._pdom = None; self._loops = None
        self._expr_cache = {}
        self._arg_alloca = None

    # ---------------- basic structure
    def all_insts(self):
        for b in self.blocks:
            for i in b:
                yield i

    def term(self, b):
        return self.blocks[b][-1]

    @property
    def succ(self):
        if self._succ is None:
            self._succ = [list(dict.fromkeys(self.term(b).succ or [])) for b in range(len(self.blocks))]
        return self._succ

    @property
    def pred(self):
        if self._pred is None:
            p = [[] for _ in self.blocks]
            for b, ss in enumerate(self.succ):
                for s in ss:
                    p[s].append(b)
            self._pred = p
        return self._pred

    @property
    def users(self):
        if self._users is None:
            u = defaultdict(list)
            for i in self.all_insts():
                for o in i.ops:
                    if o[0] == 'i':
                        u[o[1]].append(i)
                if i.target and i.target[0] == 'i':
                    u[i.target[1]].append(i)
            self._users = u
        return self._users

    def calls(self, callee=None):
        """call instructions, optionally to a given callee (name or set of names)"""
        if isinstance(callee, str):
            callee = {callee}
        for i in self.all_insts():
            if i.op in ('call', 'invoke') and (callee is None or i.callee in callee):
                if i.callee and i.callee.startswith('llvm.dbg'):
                    continue
                yield i

    def returns(self):
        return [i for i in self.all_insts() if i.op == 'ret']

    # ---------------- dominators (block level)
    def _compute_dom(self, succ, pred, roots):
        n = len(succ)
        order = []
        seen = [False] * n
        for r in roots:
            if seen[r]:
                continue
            stack = [(r, iter(succ[r]))]
            seen[r] = True
            while stack:
                v, it = stack[-1]
                adv = False
                for w in it:
                    if not seen[w]:
                        seen[w] = True
                        stack.append((w, iter(succ[w])))
                        adv = True
                        break
                if not adv:
                    order.append(v)
                    stack.pop()
        rpo = order[::-1]
        num = {v: k for k, v in enumerate(rpo)}
        idom = {r: r for r in roots}
        VIRT = -1
        # virtual root for multiple roots
        if len(roots) > 1:
            for r in roots:
                idom[r] = VIRT
            num[VIRT] = -1
            idom[VIRT] = VIRT

        def inter(a, b):
            while a != b:
                while num[a] > num[b]:
                    a = idom[a]
                while num[b] > num[a]:
                    b = idom[b]
            return a
        changed = True
        while changed:
            changed = False
            for v in rpo:
                if v in roots:
                    continue
                new = None
                for p in pred[v]:
                    if p in idom:
                        new = p if new is None else inter(p, new)
                if new is not None and idom.get(v) != new:
                    idom[v] = new
                    changed = True
        return idom

    @property
    def idom(self):
        if self._dom is None:
            self._dom = self._compute_dom(self.succ, self.pred, [0])
        return self._dom

    @property
    def ipdom(self):
        if self._pdom is None:
            exits = [b for b in range(len(self.blocks)) if not self.succ[b]]
            self._pdom = self._compute_dom(self.pred, self.succ, exits)
        return self._pdom

    def bdominates(self, a, b):
        """block a dominates block b"""
        idom = self.idom
        if b not in idom:
            return True  # unreachable
        while True:
            if a == b:
                return True
            nb = idom[b]
            if nb == b:
                return False
            b = nb

    def dominates(self, a, b):
        """instruction a dominates instruction b"""
        if a.block == b.block:
            return a.idx <= b.idx
        return self.bdominates(a.block, b.block)

    def edge_dominates(self, term, succ_block, target):
        """every path from the entry to instruction `target` traverses the CFG edge (term -> succ_block)"""
        r = self.reach([self.entry()], cut_edges={(term.id, succ_block)}, include_start=True)
        return target.id not in r

    def dom_or_loop(self, a, b):
        """a dominates b, or a sits in a loop (e.g. `for each level`) whose header dominates b while b is outside
        that loop: a is executed for every iteration the loop makes before control can reach b"""
        if self.dominates(a, b):
            return True
        for h, body in self.loops.items():
            if a.block in body and b.block not in body and self.bdominates(h, b.block):
                # a must be executed on every iteration: a's block dominates the latches
                latches = [x for x in body if h in self.succ[x]]
                if all(self.bdominates(a.block, l) for l in latches):
                    return True
        return False

    # ---------------- loops (natural loops via back edges)
    @property
    def loops(self):
        if self._loops is None:
            loops = {}
            for b in range(len(self.blocks)):
                for s in self.succ[b]:
                    if self.bdominates(s, b) and b in self.idom:
                        body = loops.setdefault(s, {s})
                        stack = [b]
                        while stack:
                            x = stack.pop()
                            if x not in body:
                                body.add(x)
                                stack.extend(self.pred[x])
            self._loops = loops
        return self._loops

    def loop_of(self, b):
        """innermost loop header containing block b, or None"""
        best = None
        for h, body in self.loops.items():
            if b in body and (best is None or len(body) < len(self.loops[best])):
                best = h
        return best

    # ---------------- instruction-level reachability
    def next_insts(self, ins, cut_edges=()):
        blk = self.blocks[ins.block]
        if ins.idx + 1 < len(blk):
            return [blk[ins.idx + 1]]
        return [self.blocks[s][0] for s in (ins.succ or []) if (ins.id, s) not in cut_edges]

    def reach(self, starts, stop=(), cut_edges=(), include_start=False):
        """set of instruction ids reachable (forward) from the instructions *after* each
        start (or including it), never passing through an instruction id in `stop`
        (stop instructions are not entered) nor over a cut edge (term id, succ block)."""
        stop = set(stop)
        seen = set()
        dq = deque()
        for s in starts:
            if include_start:
                if s.id not in stop:
                    dq.append(s)
            else:
                dq.extend(x for x in self.next_insts(s, cut_edges) if x.id not in stop)
        while dq:
            x = dq.popleft()
            if x.id in seen:
                continue
            seen.add(x.id)
            for y in self.next_insts(x, cut_edges):
                if y.id not in stop and y.id not in seen:
                    dq.append(y)
        return seen

    def entry(self):
        return self.blocks[0][0]

    def must_pass(self, target, through, start=None, cut_edges=()):
        """True iff every path from start (default: entry) to `target` inst passes an inst in `through`"""
        start = start or self.entry()
        thr = {t.id for t in through}
        if start.id in thr:
            return True
        r = self.reach([start], stop=thr, cut_edges=cut_edges, include_start=True)
        return target.id not in r

    def find_path(self, start, target, stop=(), cut_edges=()):
        """one offending path (list of insts, block-entry granularity) from start to target avoiding stop"""
        stop = set(stop)
        prev = {start.id: None}
        dq = deque([start])
        while dq:
            x = dq.popleft()
            if x.id == target.id:
                path = []
                k = x.id
                while k is not None:
                    path.append(self.insts[k])
                    k = prev[k]
                path.reverse()
                return [p for p in path if p.idx == 0 or p.id in (start.id, target.id)]
            for y in self.next_insts(x, cut_edges):
                if y.id not in prev and y.id not in stop:
                    prev[y.id] = x.id
                    dq.append(y)
        return None

    def reaching_stores(self, aid, at):
        """direct stores to the alloca `aid` that may reach the instruction `at` (backward CFG walk, a store
        kills the walk); the list contains None when the function entry is reached without a store"""
        out = []
        seen = set()
        dq = deque([(at.block, at.idx - 1)])
        while dq:
            b, k = dq.popleft()
            blk = self.blocks[b]
            hit = False
            while k >= 0:
                i = blk[k]
                if i.op == 'store' and self.strip(i.ops[1]) == ['i', aid]:
                    if i not in out:
                        out.append(i)
                    hit = True
                    break
                k -= 1
            if hit:
                continue
            ps = self.pred[b]
            if b == 0 and None not in out:
                out.append(None)
            for p in ps:
                if p not in seen:
                    seen.add(p)
                    dq.append((p, len(self.blocks[p]) - 1))
        return out

    def value_sources(self, o, _seen=None):
        """leaves an integer value is computed from: follows casts, arithmetic, selects/phis and loads of plain locals
        (through their reaching stores).  Leaves: ('call', name), ('arg', i), ('const', v), ('mem', access path),
        ('undef',) for a local read before any store"""
        seen = _seen if _seen is not None else set()
        o = self.strip(o)
        if o[0] in ('c', 'cbig', 'n'):
            return {('const', self.const_of(o))}
        if o[0] == 'a':
            return {('arg', o[1])}
        if o[0] != 'i':
            return {('mem', self.expr(o))}
        i = self.insts[o[1]]
        if i.id in seen:
            return set()
        seen.add(i.id)
        if i.op == 'call':
            return {('call', base(i.callee) if i.callee else '?')}
        if i.op == 'load':
            a = self.strip(i.ops[0])
            if a[0] == 'i' and self.insts[a[1]].op == 'alloca':
                aid = a[1]
                if aid in self.arg_allocas() and all(u.op == 'load' or (u.op == 'store' and u.block == 0 and u.ops[0][0] == 'a') for u in self.users.get(aid, ())):
                    return {('arg', self.arg_allocas()[aid])}
                if all(u.op in ('load', 'store') and (u.op == 'load' or self.strip(u.ops[1]) == ['i', aid]) for u in self.users.get(aid, ())):
                    out = set()
                    for s in self.reaching_stores(aid, i):
                        out |= {('undef',)} if s is None else self.value_sources(s.ops[0], seen)
                    return out
            return {('mem', self.expr(['i', i.id]))}
        if i.op in ('phi',):
            out = set()
            for v in i.ops:
                out |= self.value_sources(v[0] if isinstance(v, list) and v and isinstance(v[0], list) else v, seen)
            return out
        if i.op in ('add', 'sub', 'mul', 'udiv', 'sdiv', 'urem', 'srem', 'shl', 'lshr', 'ashr', 'and', 'or', 'xor', 'select', 'icmp'):
            out = set()
            for v in i.ops:
                out |= self.value_sources(v, seen)
            return out
        return {('mem', self.expr(['i', i.id]))}

    # ---------------- value helpers
    def strip(self, o):
        """look through casts"""
        while o[0] == 'i':
            i = self.insts[o[1]]
            if i.op in CASTS:
                o = i.ops[0]
            else:
                break
        while o[0] == 'ce' and o[1]['op'] in CASTS:
            o = o[1]['ops'][0]
        return o

    def inst_of(self, o):
        o = self.strip(o)
        return self.insts[o[1]] if o[0] == 'i' else None

    def const_of(self, o):
        o = self.strip(o)
        if o[0] == 'c':
            return o[1]
        if o[0] == 'cbig':
            return int(o[1])
        if o[0] == 'n':
            return 0
        return None

    def member(self, step):
        """name of the struct member selected by a GEP 's' step"""
        _, off, sname, fidx = step
        return self.prog.member_name(sname, off, fidx)

    def arg_allocas(self):
        """at -O0 every parameter is spilled: alloca <- store arg. map alloca id -> arg index"""
        if self._arg_alloca is None:
            m = {}
            for i in self.blocks[0] if self.blocks else []:
                if i.op == 'store' and i.ops[0][0] == 'a' and i.ops[1][0] == 'i':
                    m[i.ops[1][1]] = i.ops[0][1]
            self._arg_alloca = m
        return self._arg_alloca

    def expr(self, o, depth=0):
        """canonical C-like access-path string of an operand (for matching and reports)"""
        if depth > 12:
            return '...'
        k = o[0]
        if k == 'c':
            return str(o[1])
        if k == 'cbig':
            return o[1]
        if k == 'n':
            return '0'
        if k == 'u':
            return 'undef'
        if k == 'a':
            return self.args[o[1]]['name'] or ('arg%d' % o[1])
        if k == 'g':
            return '&' + o[1] if not o[1].startswith('.str') else self.prog.cstring(o[1], quote=True)
        if k == 'f':
            return o[1]
        if k == 'b':
            return 'bb%d' % o[1]
        if k == 'cd':
            return '{const}'
        if k == 'ce':
            ce = o[1]
            if ce['op'] in CASTS:
                return self.expr(ce['ops'][0], depth + 1)
            if ce['op'] == 'getelementptr':
                base = ce['ops'][0]
                if base[0] == 'g' and base[1].startswith('.str') or (base[0] == 'g' and self.prog.cstring(base[1]) is not None and ce.get('off', 0) == 0):
                    return self.prog.cstring(base[1], quote=True)
                return '%s+%s' % (self.expr(base, depth + 1), ce.get('off', '?'))
            return ce['op'] + '(' + ','.join(self.expr(x, depth + 1) for x in ce['ops']) + ')'
        if k != 'i':
            return '?'
        key = o[1]
        if key in self._expr_cache:
            return self._expr_cache[key]
        i = self.insts[key]
        r = self._expr_inst(i, depth)
        self._expr_cache[key] = r
        return r

    def xexpr(self, o):
        """like expr, with single-assignment locals that hold a call result replaced by the call"""
        saved = self._expr_cache
        self._expr_cache = getattr(self, '_xexpr_cache', {})
        self._expand = True
        try:
            return self.expr(o)
        finally:
            self._expand = False
            self._xexpr_cache = self._expr_cache
            self._expr_cache = saved

    def _expr_inst(self, i, depth):
        op = i.op
        E = lambda x: self.expr(x, depth + 1)
        if op == 'alloca':
            return '&' + (i.var or i.name or ('tmp%d' % i.id))
        if op in CASTS:
            return E(i.ops[0])
        if op == 'load':
            if getattr(self, '_expand', False):
                # expansion mode (xexpr): a local assigned exactly once from a call prints as that call, so that
                # `t = getter(x); if (t == K)` and `if (getter(x) == K)` give the same atom whatever the name of t
                al = self.strip(i.ops[0])
                if al[0] == 'i' and self.insts[al[1]].op == 'alloca':
                    sts = [u for u in self.users.get(al[1], ()) if u.op == 'store' and self.strip(u.ops[1]) == al]
                    if len(sts) == 1:
                        v = self.inst_of(sts[0].ops[0])
                        if v is not None and ((v.op == 'call' and v.callee and not v.callee.startswith('llvm.') and not (v.ty or '').endswith('*')) or v.op in ('load', 'getelementptr')):
                            return E(sts[0].ops[0])
            a = E(i.ops[0])
            return a[1:] if a.startswith('&') else '*' + a
        if op == 'getelementptr':
            base = E(i.ops[0])
            s = base
            for k, st in enumerate(i.steps or []):
                idx = i.ops[1 + k]
                if st[0] == 's':
                    nm = self.member(st)
                    if s.startswith('&'):
                        s = '&' + s[1:] + '.' + nm
                    else:
                        s = '&' + s + '->' + nm
                else:
                    c = self.const_of(idx)
                    if k == 0:
                        if c == 0:
                            continue
                        # pointer arithmetic: p + idx  == &p[idx]
                        s = '&' + (s[1:] if s.startswith('&') and False else s) + '[' + E(idx) + ']'
                    else:
                        if s.startswith('&'):
                            s = '&' + s[1:] + '[' + E(idx) + ']'
                        else:
                            s = '&' + s + '[' + E(idx) + ']'
            return s
        if op in BINOPS:
            a_, b_ = i.ops[0], i.ops[1]
            # canonical operand order for commutative operators: a constant goes to the right (`1 + i` prints as `(i+1)`)
            if op in ('add', 'mul', 'and', 'or', 'xor') and self.const_of(a_) is not None and self.const_of(b_) is None:
                a_, b_ = b_, a_
            return '(' + E(a_) + BINOPS[op] + E(b_) + ')'
        if op == 'icmp':
            a_, b_ = i.ops[0], i.ops[1]
            if i.pred in ('eq', 'ne') and self.const_of(a_) is not None and self.const_of(b_) is None:
                a_, b_ = b_, a_          # `0 == x` prints as `(x==0)`
            return '(' + E(a_) + PREDS[i.pred] + E(b_) + ')'
        if op == 'call':
            if i.asm is not None:
                return 'asm'
            nm = i.callee or ('(*' + E(i.target) + ')' if i.target else '?')
            return nm + '(' + ','.join(E(x) for x in i.ops) + ')'
        if op == 'select':
            return '(' + E(i.ops[0]) + '?' + E(i.ops[1]) + ':' + E(i.ops[2]) + ')'
        if op == 'phi':
            return 'phi%d' % i.id
        return op + '%d' % i.id

    def addr_base(self, o):
        """follow GEPs/casts of an address operand down to its root operand"""
        o = self.strip(o)
        while o[0] == 'i' and self.insts[o[1]].op == 'getelementptr':
            o = self.strip(self.insts[o[1]].ops[0])
        return o


class Program:
    def __init__(self, path):
        d = json.load(open(path))
        self.raw = d
        self.structs = d['structs']; self.distructs = d['distructs']; self.enums = d['enums']; self.globals = d['globals']
        self.distructs_alt = {}
        for a_ in d.get('distructs_alt', []):
            self.distructs_alt.setdefault(a_['name'], []).append(a_['def'])
        self.functions = {}
        for name, fd in d['functions'].items():
            self.functions[name] = Function(name, fd, self)
        self._apply_local_map()
        self._callers = None
        self._slots = None
        self._cg = None
        self._variants = None
        self._cons = {}

    def _apply_local_map(self):
        """rules name locals as the pinned tree does (ref/locals.json).  A local of the current tree whose name the reference does
        not know is given the name of the reference local that disappeared from the same function, when type and relative order
        leave exactly one candidate: a pure rename then leaves every anchor in place.  Ambiguous cases are left alone."""
        import os
        self.local_renames = {}
        if os.environ.get('VERIF_NO_LOCALMAP'):
            return
        p = os.path.join(os.path.dirname(os.path.dirname(os.path.abspath(__file__))), 'ref', 'locals.json')
        if not os.path.exists(p):
            return
        ref = json.load(open(p))
        for f in self.functions.values():
            if f.decl:
                continue
            r = ref.get(base(f.name) + '@' + (f.file or ''))
            if not r:
                continue
            cur = [i for i in f.all_insts() if i.op == 'alloca' and i.var]
            cur_names = [i.var for i in cur]
            ref_names = [n for n, _ in r]
            if cur_names == ref_names:
                continue
            from collections import Counter
            cc = Counter(cur_names)
            missing = []
            seen_ref = Counter()
            for k, (n, t) in enumerate(r):
                seen_ref[n] += 1
                if seen_ref[n] > cc.get(n, 0):
                    missing.append((k, n, t))                                              # reference locals that vanished
            rc_ = Counter(ref_names)
            seen_cur = Counter()
            new = []
            for k, i in enumerate(cur):
                seen_cur[i.var] += 1
                if seen_cur[i.var] > rc_.get(i.var, 0):
                    new.append((k, i))                                                    # current locals unknown to the reference
            if not missing or not new:
                continue
            # match in order, type by type
            used = set(); mapped_ids = set()
            for k, i in new:
                cands = [(mk, n) for mk, n, t in missing if t == (i.vty or '') and mk not in used]
                if not cands:
                    continue
                # the candidate must be unambiguous among the not yet matched unknown locals of that type
                same_type_new = [x for _, x in new if (x.vty or '') == (i.vty or '') and x.id not in mapped_ids]
                if len(cands) != len(same_type_new) and len(cands) != 1:
                    continue
                n = cands[0][1]
                used.add(cands[0][0])
                self.local_renames.setdefault(f.name, {})[i.var] = n
                i.var = n
                mapped_ids.add(i.id)

    def fn(self, name):
        f = self.functions.get(name)
        if f is None or f.decl:
            v = self.variants(name)
            if v:
                return v[0]
            from .frontend import AnalysisBroken
            raise AnalysisBroken('anchor function %s not found in program' % name)
        return f

    def has(self, name):
        f = self.functions.get(name)
        return f is not None and not f.decl

    def defined(self):
        return [f for f in self.functions.values() if not f.decl]

    def distruct_for(self, sname):
        """debug-info description of the LLVM struct `sname`: when several units define different structs of the same name
        (llvm-link keeps them apart as name, name.123, ...), the description whose size and member offsets fit the layout"""
        base = re.sub(r'^(struct|union)\.', '', sname or '')
        base = re.sub(r'\.\d+$', '', base)
        ds = self.distructs.get(base)
        alts = self.distructs_alt.get(base)
        if not alts or ds is None:
            return ds
        lay = self.structs.get(sname)
        if not lay:
            return ds
        offs = {fl['off'] for fl in lay['fields']}
        def fits(d):
            return d['size'] == lay['size'] and {m['off'] for m in d['members'] if m.get('bitoff', 0) % 8 == 0} <= offs | {m['off'] for m in d['members']} and \
                {m['off'] for m in d['members']} >= offs - {o for o in offs if False} and len({m['off'] for m in d['members']} & offs) == len(offs)
        cands = [d for d in [ds] + alts if fits(d)]
        if len(cands) >= 1:
            return cands[0]
        return ds

    def member_name(self, sname, off, fidx=None):
        ds = self.distruct_for(sname)
        if ds:
            cands = [m for m in ds['members'] if m['off'] == off]
            if len(cands) == 1:
                return cands[0]['name']
            if cands:
                # bitfields / unions sharing an offset
                return '|'.join(m['name'] for m in cands)
        return 'f%s' % (fidx if fidx is not None else off)

    def const_index(self, f, o):
        return f.const_of(o)

    def cstring(self, gname, quote=False):
        g = self.globals.get(gname)
        if not g or 'bytes' not in g or not g['ty'].endswith('x i8]'):
            return None
        b = bytes.fromhex(g['bytes'])
        if b.endswith(b'\0'):
            b = b[:-1]
        s = b.decode('latin-1')
        return '"' + s.replace('\n', '\\n') + '"' if quote else s

    def global_bytes(self, name):
        g = self.globals.get(name)
        if not g or 'bytes' not in g:
            from .frontend import AnalysisBroken
            raise AnalysisBroken('constant global %s not found' % name)
        return bytes.fromhex(g['bytes'])

    # ---------------- call graph with function-pointer slots
    def variants(self, name):
        """all defined functions whose base name is `name` (static inline copies)"""
        if self._variants is None:
            v = defaultdict(list)
            for f in self.defined():
                v[base(f.name)].append(f)
            self._variants = v
        return self._variants.get(name, [])

    def slot_desc(self, f, addr):
        """abstract location of a pointer-typed memory cell: 'g:<global>+off', 'm:<struct>.<member>',
        'a:<fn>:<argidx>' (parameter), 'l:<fn>:<var>' (local)"""
        a = f.strip(addr)
        if a[0] == 'g':
            return 'g:' + a[1]
        if a[0] == 'ce' and a[1]['op'] == 'getelementptr' and a[1]['ops'][0][0] == 'g':
            return 'g:%s+%s' % (a[1]['ops'][0][1], a[1].get('off'))
        if a[0] == 'i':
            i = f.insts[a[1]]
            if i.op == 'getelementptr':
                last_s = None
                for st in i.steps or []:
                    if st[0] == 's':
                        last_s = st
                if last_s is not None:
                    sname = re.sub(r'\.\d+$', '', re.sub(r'^(struct|union)\.', '', last_s[2]))
                    return 'm:%s.%s' % (sname, f.member(last_s))
                b0 = f.strip(i.ops[0])
                if b0[0] == 'g':
                    return 'g:' + b0[1] + ('+%s' % i.off if i.off is not None else '[*]')
                return self.slot_desc(f, i.ops[0])
            if i.op == 'alloca':
                aa = f.arg_allocas()
                if i.id in aa:
                    return 'a:%s:%d' % (f.name, aa[i.id])
                return 'l:%s:%s' % (f.name, i.var or i.name)
            if i.op == 'load':
                return 'p:' + f.expr(a)
        return '?:' + f.expr(a)

    def _fp_val(self, f, o, depth=0):
        """function-pointer value of operand: (set of fn names, set of slot descriptors)"""
        o = f.strip(o)
        if o[0] == 'f':
            return {o[1]}, set()
        if o[0] == 'a':
            return set(), {'a:%s:%d' % (f.name, o[1])}
        if o[0] == 'i' and depth < 4:
            i = f.insts[o[1]]
            if i.op == 'load':
                return set(), {self.slot_desc(f, i.ops[0])}
            if i.op in ('select', 'phi'):
                fs, ss = set(), set()
                for x in (i.ops[1:] if i.op == 'select' else i.ops):
                    a, b2 = self._fp_val(f, x, depth + 1)
                    fs |= a; ss |= b2
                return fs, ss
        return set(), set()

    def _constraints(self, f):
        """function-pointer flow constraints generated inside f: list of (slot, fns, included slots)"""
        c = self._cons.get(f.name)
        if c is not None:
            return c
        c = []
        isfp = lambda ty: ty is not None and '(' in ty and ty.endswith('*')
        for i in f.all_insts():
            if i.op == 'store':
                fs, ss = self._fp_val(f, i.ops[0])
                if not fs and not ss:
                    continue
                v = f.strip(i.ops[0])
                if not fs:
                    vi = f.inst_of(i.ops[0])
                    ty = vi.ty if vi is not None else (f.args[v[1]]['ty'] if v[0] == 'a' else None)
                    if not isfp(ty):
                        continue
                c.append((self.slot_desc(f, i.ops[1]), fs, ss, i.id))
            elif i.op == 'call' and i.callee_full and i.asm is None:
                tgt = self.functions.get(i.callee_full)
                if tgt is None or tgt.decl:
                    continue
                for k, a in enumerate(i.ops):
                    if k >= len(tgt.args) or not isfp(tgt.args[k]['ty']):
                        continue
                    fs, ss = self._fp_val(f, a)
                    if fs or ss:
                        c.append(('a:%s:%d' % (tgt.name, k), fs, ss, i.id))
        self._cons[f.name] = c
        return c

    def solve_slots(self, fnames=None, reach=None):
        """slot descriptor -> set of function names that may be stored there, using only the
        stores / argument passing that occur in the given functions (default: all) plus
        constant initialisers.  Fixpoint over inclusion constraints."""
        direct = defaultdict(set)
        incl = defaultdict(set)
        for f in self.defined():
            if fnames is not None and f.name not in fnames:
                continue
            rs = reach.get(f.name) if reach is not None else None
            for sd, fs, ss, iid in self._constraints(f):
                if rs is not None and iid not in rs:
                    continue
                direct[sd] |= fs
                incl[sd] |= ss
        for gname, g in self.globals.items():
            if 'init' in g:
                def walk(o):
                    if o[0] == 'f':
                        direct['g:' + gname].add(o[1])
                    elif o[0] == 'agg':
                        for x in o[1]:
                            walk(x)
                    elif o[0] == 'ce':
                        for x in o[1]['ops']:
                            walk(x)
                walk(g['init'])
        gbase = lambda k: re.sub(r'(\+-?\d+|\[\*\]|\+None)$', '', k)
        changed = True
        while changed:
            changed = False
            for sd, ins in incl.items():
                for s2 in ins:
                    src = set(direct.get(s2, ()))
                    if s2.startswith('g:'):
                        for k in list(direct):
                            if k.startswith('g:') and gbase(k) == gbase(s2) and (k == s2 or s2.endswith('[*]') or s2.endswith('+None') or k == gbase(k)):
                                src |= direct[k]
                    if not src <= direct[sd]:
                        direct[sd] |= src
                        changed = True
        return direct

    def slots(self):
        if self._slots is None:
            self._slots = self.solve_slots()
        return self._slots

    def indirect_targets(self, f, call, slots=None):
        """functions an indirect call may reach: every function that may be stored in the
        slot(s) the target value comes from."""
        fs, ss = self._fp_val(f, call.target)
        slots = slots if slots is not None else self.slots()
        res = set(fs)
        gbase = lambda k: re.sub(r'(\+-?\d+|\[\*\]|\+None)$', '', k)
        for sd in ss:
            if sd in slots:
                res |= slots[sd]
            if sd.startswith('g:'):
                for k, v in slots.items():
                    if k.startswith('g:') and gbase(k) == gbase(sd):
                        res |= v
        return res or None

    def call_targets(self, f, c, slots=None):
        """callee names of one call site (direct, indirect via slots, callbacks via externals)"""
        slots = slots if slots is not None else self.slots()
        s = set()
        if c.asm is not None:
            return s
        if c.callee_full:
            s.add(c.callee_full)
            tgt = self.functions.get(c.callee_full)
            if tgt is None or tgt.decl:
                for a in c.ops:
                    fs, ss = self._fp_val(f, a)
                    s |= fs
                    for sd in ss:
                        if sd.startswith('a:') or sd.startswith('l:'):
                            s |= slots.get(sd, set())
        else:
            ts = self.indirect_targets(f, c, slots)
            if ts:
                s |= ts
        return s

    def callgraph(self):
        """name -> set of callee names: direct calls, indirect calls resolved through slots, and
        callbacks (function constants passed to external functions such as pthread_create/qsort)."""
        if self._cg is not None:
            return self._cg
        cg = {}
        unresolved = []
        for f in self.defined():
            s = set()
            for c in f.calls():
                if c.asm is not None:
                    continue
                if c.callee_full:
                    s.add(c.callee_full)
                    tgt = self.functions.get(c.callee_full)
                    if tgt is None or tgt.decl:
                        for a in c.ops:
                            fs, ss = self._fp_val(f, a)
                            s |= fs
                            for sd in ss:
                                if sd.startswith('a:') or sd.startswith('l:'):
                                    s |= self.slots().get(sd, set())
                else:
                    ts = self.indirect_targets(f, c)
                    if ts is None:
                        unresolved.append((f.name, c))
                    else:
                        s |= ts
            cg[f.name] = s
        self._cg = cg
        self.unresolved_calls = unresolved
        return cg

    def callers(self, name):
        if self._callers is None:
            m = defaultdict(list)
            for f in self.defined():
                for c in f.calls():
                    if c.callee:
                        m[c.callee].append((f, c))
            self._callers = m
        return self._callers.get(name, [])

    def reachable(self, roots, cg=None, stop=()):
        cg = cg or self.callgraph()
        seen = set()
        st = list(roots)
        while st:
            x = st.pop()
            if x in seen or x in stop:
                continue
            seen.add(x)
            st.extend(cg.get(x, ()))
        return seen
