"""Finite-domain interpretation of small integer-only code regions (-O0 IR, everything lives in allocas).

Used for code whose behaviour is a function of a handful of small integers and of an array that is touched
only through comparisons (so a small ordered domain is a complete abstraction of the array contents for a
given length): the scrub quota derivation, block_is_enabled.  No rule lives here.

A region starts at the first instruction of a block, with the locals of the enclosing function seeded by
variable name, and runs until the `stop` predicate accepts a call instruction (or the function returns).
Calls to defined functions are interpreted; calls to anything else raise Unsupported unless the caller's
`extern` hook gives them a value."""
from .frontend import AnalysisBroken
from .ir import base


class Unsupported(AnalysisBroken):
    pass


class P_:
    """pointer = (region, byte offset)"""
    __slots__ = ('reg', 'off')

    def __init__(self, reg, off=0):
        self.reg = reg; self.off = off

    def __repr__(self):
        return 'P(%s+%d)' % (self.reg, self.off)


def width(ty):
    if ty and ty.startswith('i') and ty[1:].isdigit():
        return int(ty[1:])
    return 64


def signed(v, w):
    v &= (1 << w) - 1
    return v - (1 << w) if v >> (w - 1) else v


PURE_OPS = {'load', 'getelementptr', 'zext', 'trunc', 'sext', 'bitcast', 'ptrtoint', 'inttoptr', 'freeze'}


import re as _re
_ARR = _re.compile(r'^\[(\d+) x i(8|16|32|64)\]\*?$')


class Stop(Exception):
    def __init__(self, ins):
        self.ins = ins


class Region:
    def __init__(self, P, extern=None, max_steps=200000):
        self.P = P
        self.mem = {}          # (region, off) -> int
        self.extern = extern or (lambda ins, args: None)
        self.steps = 0
        self.max_steps = max_steps
        self.nframe = 0
        self.zero_regions = set()
        self.discover = None           # list: when set, locals read before being written are recorded (alloca id) and read as 0      # objects whose unset fields read as 0 (e.g. an option block with every option off)

    # ---- memory helpers for the rules
    def local(self, f, name):
        for i in f.all_insts():
            if i.op == 'alloca' and i.var == name:
                return P_(('alloca', f.name, 0, i.id), 0)
        raise AnalysisBroken('%s: local %s not found' % (f.name, name))

    def set_local(self, f, name, v, off=0):
        p = self.local(f, name)
        self.mem[(p.reg, off)] = v

    def local_by_id(self, f, aid):
        return P_(('alloca', f.name, 0, aid), 0)

    def get_local(self, f, name, off=0):
        p = self.local(f, name)
        return self.mem.get((p.reg, off))

    def array(self, name, values, elsize):
        reg = ('array', name)
        for n, v in enumerate(values):
            self.mem[(reg, n * elsize)] = v
        self.mem[(reg, 'len')] = len(values) * elsize
        return P_(reg, 0)

    # ---- interpretation
    def run(self, f, start_block=0, args=(), stop=None, frame=0, start_idx=0):
        vals = {}
        for i in f.all_insts():
            if i.op == 'alloca':
                vals[i.id] = P_(('alloca', f.name, frame, i.id), 0)
                # a local array of integers has a known extent: accesses beyond it are reported (stack buffer overflow)
                mt = _ARR.match(i.ty or '')
                if mt:
                    self.mem.setdefault((('alloca', f.name, frame, i.id), 'len'), int(mt.group(1)) * (int(mt.group(2)) // 8))

        def val(o):
            k = o[0]
            if k == 'i':
                if o[1] not in vals:
                    # a pure value computed in the start block just before the region (operand loads of the first call): evaluate on demand
                    pi = f.insts.get(o[1])
                    if pi is not None and start_idx and pi.block == start_block and pi.idx < start_idx and pi.op in PURE_OPS and o[1] not in pending:
                        pending.add(o[1])
                        pure_eval(pi)
                        pending.discard(o[1])
                    if o[1] not in vals:
                        raise Unsupported('%s: value %%%d defined outside the interpreted region' % (f.name, o[1]))
                return vals[o[1]]
            if k == 'c':
                return o[1] & ((1 << o[2]) - 1)
            if k == 'a':
                return args[o[1]]
            if k in ('n', 'u'):
                return 0
            if k == 'g':
                return P_(('glob', o[1]), 0)
            if k == 'f':
                return ('fn', o[1])
            if k == 'ce':
                ce = o[1]
                if ce['op'] in ('bitcast', 'ptrtoint', 'inttoptr'):
                    return val(ce['ops'][0])
                if ce['op'] == 'getelementptr' and 'off' in ce:
                    b = val(ce['ops'][0])
                    return P_(b.reg, b.off + ce['off'])
            raise Unsupported('operand %r' % (o,))

        if (start_block != 0 or start_idx) and args:
            # a region inside the function: the parameters were spilled to their allocas at entry
            for aid, k in f.arg_allocas().items():
                if k < len(args):
                    self.mem.setdefault((('alloca', f.name, frame, aid), 0), args[k])
        pending = set()

        def pure_eval(pi):
            """evaluate one side-effect-free instruction (load / gep / cast / arithmetic / compare) outside the normal flow"""
            w_ = width(pi.ty)
            if pi.op == 'load':
                p_ = val(pi.ops[0])
                if not isinstance(p_, P_):
                    raise Unsupported('%s: load through non-pointer at %s' % (f.name, pi.loc()))
                if (p_.reg, p_.off) not in self.mem and p_.reg in self.zero_regions:
                    self.mem[(p_.reg, p_.off)] = 0
                if (p_.reg, p_.off) not in self.mem and self.discover is not None and p_.reg[0] == 'alloca':
                    self.discover.append((p_.reg[3], p_.off, pi.ty))
                    if (pi.ty or '').endswith('*'):
                        obj = ('obj', 'input%d' % p_.reg[3]); self.zero_regions.add(obj); self.mem[(p_.reg, p_.off)] = P_(obj, 0)
                    else:
                        self.mem[(p_.reg, p_.off)] = 0
                if (p_.reg, p_.off) not in self.mem:
                    raise Unsupported('%s: read of unset memory %r at %s' % (f.name, p_, pi.loc()))
                vals[pi.id] = self.mem[(p_.reg, p_.off)]
            elif pi.op == 'getelementptr':
                b_ = val(pi.ops[0])
                if not isinstance(b_, P_):
                    raise Unsupported('%s: gep on non-pointer' % f.name)
                off_ = b_.off
                for st_, io_ in zip(pi.steps, pi.ops[1:]):
                    if st_[0] == 's':
                        off_ += st_[1]
                    else:
                        iv_ = val(io_)
                        sw_ = io_[2] if io_[0] == 'c' else (width(f.insts[io_[1]].ty) if io_[0] == 'i' else 64)
                        off_ += signed(iv_, sw_) * st_[1]
                vals[pi.id] = P_(b_.reg, off_)
            elif pi.op in ('zext', 'trunc'):
                v_ = val(pi.ops[0]); vals[pi.id] = v_ & ((1 << w_) - 1) if isinstance(v_, int) else v_
            elif pi.op in ('bitcast', 'ptrtoint', 'inttoptr', 'freeze'):
                vals[pi.id] = val(pi.ops[0])
            elif pi.op == 'sext':
                o_ = pi.ops[0]
                sw_ = o_[2] if o_[0] == 'c' else (width(f.insts[o_[1]].ty) if o_[0] == 'i' else 64)
                vals[pi.id] = signed(val(o_), sw_) & ((1 << w_) - 1)
            else:
                raise Unsupported('%s: cannot pre-evaluate %s' % (f.name, pi.op))

        bi = start_block; prev = None
        while True:
            blk = f.blocks[bi]
            newv = {}
            for ins in blk:
                if ins.op == 'phi':
                    sel = [o for pb, o in zip(ins.inc, ins.ops) if pb == prev]
                    if not sel:
                        raise Unsupported('%s: phi without matching predecessor' % f.name)
                    newv[ins.id] = val(sel[0])
            vals.update(newv)
            nxt = None
            for ins in blk:
                op = ins.op
                if op in ('phi', 'dbg', 'alloca'):
                    continue
                if start_idx and bi == start_block and prev is None and ins.idx < start_idx:
                    continue
                self.steps += 1
                if self.steps > self.max_steps:
                    raise Unsupported('%s: step budget exhausted (non-terminating region?)' % f.name)
                w = width(ins.ty)
                if op == 'load':
                    p = val(ins.ops[0])
                    if not isinstance(p, P_):
                        raise Unsupported('%s: load through non-pointer at %s' % (f.name, ins.loc()))
                    ln = self.mem.get((p.reg, 'len'))
                    if ln is not None and not (0 <= p.off < ln):
                        raise OutOfBounds('%s: read of %s at byte offset %d outside its %d bytes (%s)' % (f.name, p.reg[1], p.off, ln, ins.loc()))
                    if (p.reg, p.off) not in self.mem and p.reg in self.zero_regions:
                        self.mem[(p.reg, p.off)] = 0
                    if (p.reg, p.off) not in self.mem and self.discover is not None and p.reg[0] == 'alloca':
                        self.discover.append((p.reg[3], p.off, ins.ty))
                        if (ins.ty or '').endswith('*'):
                            # an unknown pointer input: a fresh object whose fields read as 0
                            obj = ('obj', 'input%d' % p.reg[3])
                            self.zero_regions.add(obj)
                            self.mem[(p.reg, p.off)] = P_(obj, 0)
                        else:
                            self.mem[(p.reg, p.off)] = 0
                    if (p.reg, p.off) not in self.mem:
                        raise Unsupported('%s: read of unset memory %r at %s' % (f.name, p, ins.loc()))
                    vals[ins.id] = self.mem[(p.reg, p.off)]
                elif op == 'store':
                    p = val(ins.ops[1])
                    if not isinstance(p, P_):
                        raise Unsupported('%s: store through non-pointer at %s' % (f.name, ins.loc()))
                    ln = self.mem.get((p.reg, 'len'))
                    if ln is not None and not (0 <= p.off < ln):
                        raise OutOfBounds('%s: write of %s at byte offset %d outside its %d bytes (%s)' % (f.name, p.reg[1], p.off, ln, ins.loc()))
                    self.mem[(p.reg, p.off)] = val(ins.ops[0])
                elif op == 'getelementptr':
                    b = val(ins.ops[0])
                    if not isinstance(b, P_):
                        raise Unsupported('%s: gep on non-pointer' % f.name)
                    off = b.off
                    for st, io in zip(ins.steps, ins.ops[1:]):
                        if st[0] == 's':
                            off += st[1]
                        else:
                            iv = val(io)
                            sw = io[2] if io[0] == 'c' else (width(f.insts[io[1]].ty) if io[0] == 'i' else 64)
                            off += signed(iv, sw) * st[1]
                    vals[ins.id] = P_(b.reg, off)
                elif op in ('zext', 'trunc'):
                    v = val(ins.ops[0])
                    vals[ins.id] = v & ((1 << w) - 1) if isinstance(v, int) else v
                elif op == 'sext':
                    o = ins.ops[0]
                    sw = o[2] if o[0] == 'c' else (width(f.insts[o[1]].ty) if o[0] == 'i' else width(f.args[o[1]]['ty']))
                    vals[ins.id] = signed(val(o), sw) & ((1 << w) - 1)
                elif op in ('bitcast', 'ptrtoint', 'inttoptr', 'freeze'):
                    vals[ins.id] = val(ins.ops[0])
                elif op in ('add', 'sub', 'mul', 'and', 'or', 'xor', 'shl', 'lshr', 'ashr', 'udiv', 'urem', 'sdiv', 'srem'):
                    a = val(ins.ops[0]); b = val(ins.ops[1])
                    if op == 'sub' and isinstance(a, P_) and isinstance(b, P_) and a.reg == b.reg:
                        # difference of two pointers into the same object (ptrtoint / sub / sdiv of `p - base`)
                        vals[ins.id] = (a.off - b.off) & ((1 << w) - 1)
                        continue
                    if op in ('add', 'sub') and isinstance(a, P_) and isinstance(b, int):
                        vals[ins.id] = P_(a.reg, a.off + (signed(b, w) if op == 'add' else -signed(b, w)))
                        continue
                    if not (isinstance(a, int) and isinstance(b, int)):
                        raise Unsupported('%s: arithmetic on pointers at %s' % (f.name, ins.loc()))
                    m = (1 << w) - 1
                    if op == 'add': r = a + b
                    elif op == 'sub': r = a - b
                    elif op == 'mul': r = a * b
                    elif op == 'and': r = a & b
                    elif op == 'or': r = a | b
                    elif op == 'xor': r = a ^ b
                    elif op in ('shl', 'lshr', 'ashr'):
                        if b >= w:
                            raise OutOfBounds('%s: shift by %d of a %d-bit value at %s (undefined behaviour)' % (f.name, b, w, ins.loc()))
                        r = a << b if op == 'shl' else ((a & m) >> b if op == 'lshr' else signed(a, w) >> b)
                    elif op in ('udiv', 'urem'):
                        if b == 0:
                            raise Unsupported('division by zero')
                        r = (a & m) // (b & m) if op == 'udiv' else (a & m) % (b & m)
                    else:
                        sa_, sb_ = signed(a, w), signed(b, w)
                        if sb_ == 0:
                            raise Unsupported('division by zero')
                        q = abs(sa_) // abs(sb_) * (1 if (sa_ < 0) == (sb_ < 0) else -1)
                        r = q if op == 'sdiv' else sa_ - q * sb_
                    vals[ins.id] = r & m
                elif op == 'icmp':
                    a = val(ins.ops[0]); b = val(ins.ops[1])
                    o = ins.ops[0]
                    sw = o[2] if o[0] == 'c' else (width(f.insts[o[1]].ty) if o[0] == 'i' else width(f.args[o[1]]['ty']))
                    if isinstance(a, P_) or isinstance(b, P_):
                        if ins.pred in ('eq', 'ne'):
                            same = isinstance(a, P_) and isinstance(b, P_) and a.reg == b.reg and a.off == b.off
                            vals[ins.id] = int(same if ins.pred == 'eq' else not same)
                            continue
                        raise Unsupported('pointer ordering')
                    m = (1 << sw) - 1
                    ua, ub = a & m, b & m
                    sa_, sb_ = signed(a, sw), signed(b, sw)
                    vals[ins.id] = int({'eq': ua == ub, 'ne': ua != ub, 'ugt': ua > ub, 'uge': ua >= ub, 'ult': ua < ub, 'ule': ua <= ub,
                                        'sgt': sa_ > sb_, 'sge': sa_ >= sb_, 'slt': sa_ < sb_, 'sle': sa_ <= sb_}[ins.pred])
                elif op == 'select':
                    vals[ins.id] = val(ins.ops[1]) if val(ins.ops[0]) else val(ins.ops[2])
                elif op == 'br':
                    if len(ins.ops) == 1:
                        nxt = ins.ops[0][1]
                    else:
                        nxt = ins.ops[2][1] if val(ins.ops[0]) else ins.ops[1][1]
                    break
                elif op == 'switch':
                    c = val(ins.ops[0])
                    o = ins.ops[0]
                    sw = width(f.insts[o[1]].ty) if o[0] == 'i' else 32
                    nxt = ins.default
                    for cv, cb in ins.cases:
                        if (cv & ((1 << sw) - 1)) == (c & ((1 << sw) - 1)):
                            nxt = cb
                    break
                elif op == 'ret':
                    return val(ins.ops[0]) if ins.ops else None
                elif op == 'unreachable':
                    raise Unsupported('%s: reached unreachable at %s' % (f.name, ins.loc()))
                elif op == 'call':
                    if ins.callee and ins.callee.startswith('llvm.'):
                        continue
                    if stop is not None and stop(ins):
                        raise Stop(ins)
                    cargs = [val(o) for o in ins.ops[:ins.nargs if ins.nargs is not None else len(ins.ops)]]
                    r = self.extern(ins, cargs)
                    if r is not None:
                        vals[ins.id] = r[0]
                        continue
                    g = self.P.functions.get(ins.callee_full) if ins.callee_full else None
                    if g is None or g.decl:
                        raise Unsupported('%s: call to %s at %s cannot be interpreted' % (f.name, ins.callee or 'indirect', ins.loc()))
                    self.nframe += 1
                    if self.nframe > 2000:
                        raise Unsupported('too many frames')
                    vals[ins.id] = self.run(g, 0, cargs, stop, frame=self.nframe)
                else:
                    raise Unsupported('%s: opcode %s at %s' % (f.name, op, ins.loc()))
            if nxt is None:
                raise Unsupported('%s: fell off block' % f.name)
            prev = bi; bi = nxt


class OutOfBounds(Exception):
    pass
