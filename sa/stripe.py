"""Structural anchors of the stripe loops (sync / scrub / dry) and small path helpers shared by
the rules of C04, C05, C06, C07, C08, C13, C15, C19."""
from .frontend import AnalysisBroken
from .flags import FlagAnalysis, NORETURN
from .ir import base

FLAG_NAMES = {'error_on_this_block', 'silent_error_on_this_block', 'io_error_on_this_block', 'fixed_error_on_this_block',
              'parity_needs_to_be_updated', 'parity_going_to_be_updated', 'block_is_unsynced', 'file_is_unsynced'}


class StripeLoop:
    def __init__(self, P, fname, extra_flags=()):
        self.P = P
        self.f = f = P.fn(fname)
        names = FLAG_NAMES | set(extra_flags)
        self.fa = FlagAnalysis(f, flag_names=names)
        self.flags = set(self.fa.names)
        # the stripe loop: the loop whose header region calls through the io_read_next slot
        heads = [c for c in f.calls() if c.indirect and 'io_read_next' in f.expr(c.target)]
        if len(heads) != 1:
            raise AnalysisBroken('%s: expected exactly one io_read_next call' % fname)
        self.read_next = heads[0]
        h = f.loop_of(self.read_next.block)
        if h is None:
            raise AnalysisBroken('%s: io_read_next is not inside a loop' % fname)
        # outermost loop containing it
        hs = [hh for hh, body in f.loops.items() if self.read_next.block in body]
        self.header = max(hs, key=lambda hh: len(f.loops[hh]))
        self.body = f.loops[self.header]
        self.bail = [b for b, n in enumerate(f.bname) if n == 'bail']
        self.indirect = {}
        for c in f.calls():
            if c.indirect:
                e = f.expr(c.target)
                self.indirect.setdefault(e, []).append(c)

    def slot_calls(self, slot):
        return self.indirect.get(slot, [])

    def alloca(self, name):
        for i in self.f.all_insts():
            if i.op == 'alloca' and i.var == name:
                return i
        raise AnalysisBroken('%s: local %s not found' % (self.f.name, name))

    def increments(self, name):
        """instructions `++name` / `name += k` : store into alloca of (load same alloca) + const"""
        f = self.f
        al = self.alloca(name)
        res = []
        for u in f.users.get(al.id, ()):
            if u.op == 'store' and f.strip(u.ops[1]) == ['i', al.id]:
                v = f.inst_of(u.ops[0])
                if v is not None and v.op == 'add':
                    l = f.inst_of(v.ops[0])
                    if l is not None and l.op == 'load' and f.strip(l.ops[0]) == ['i', al.id]:
                        res.append(u)
        return res

    def flag_stores(self, name, value=None):
        f = self.f
        al = self.alloca(name)
        res = []
        for u in f.users.get(al.id, ()):
            if u.op == 'store' and f.strip(u.ops[1]) == ['i', al.id]:
                c = f.const_of(u.ops[0])
                if value is None or c == value:
                    res.append(u)
        return res

    def escapes_without(self, start, stops, targets):
        """is some target instruction reachable from `start` without passing any stop instruction?"""
        f = self.f
        r = f.reach([start], stop={s.id for s in stops})
        return [t for t in targets if t.id in r]

    def block_first(self, b):
        return self.f.blocks[b][0]


def failing_return_uses(f, counters):
    """does the function's return value depend on all the given counters? (return -1 iff sum != 0 modulo test options):
    each counter must be loaded in the block region that decides the return value"""
    rets = f.returns()
    used = set()
    for i in f.all_insts():
        if i.op == 'load':
            e = f.expr(['i', i.id])
            if e in counters:
                # loaded after the loop and feeding an icmp that steers a store to retval
                for u in f.users.get(i.id, ()):
                    used.add((e, u.op))
    return used
