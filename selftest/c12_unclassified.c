/* positive example for the zero-expected rule R-C12-1: a write-capable libc call in a function
 * that is not an effect primitive must be reported as UNCLASSIFIED */
#include <unistd.h>
#include <fcntl.h>
int helper_cleanup(const char* path)
{
	return unlink(path);
}
int helper_open_rw(const char* path)
{
	int flags = O_RDONLY;
	flags |= O_TRUNC;
	return open(path, flags);
}
int helper_open_ro(const char* path)
{
	return open(path, O_RDONLY | O_NOFOLLOW);
}
