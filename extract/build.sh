#!/bin/sh
# builds the LLVM fact extractor (offline, system llvm-14)
set -e
cd "$(dirname "$0")"
if [ ! -x llvm-facts ] || [ llvm-facts.cc -nt llvm-facts ]; then
  clang++ $(llvm-config-14 --cxxflags) -O1 -fno-rtti llvm-facts.cc -o llvm-facts /usr/lib/llvm-14/lib/libLLVM-14.so
fi
