// Fact extractor: loads one LLVM IR module (bitcode or text) and prints JSON facts.
// Built against libLLVM-14. Rule logic lives in Python (sa/); this file contains no rules.
//
// usage: llvm-facts <module.bc|.ll> > facts.json
#include "llvm/IR/LLVMContext.h"
#include "llvm/IR/Module.h"
#include "llvm/IR/Function.h"
#include "llvm/IR/Instructions.h"
#include "llvm/IR/IntrinsicInst.h"
#include "llvm/IR/Constants.h"
#include "llvm/IR/InlineAsm.h"
#include "llvm/IR/DebugInfoMetadata.h"
#include "llvm/IR/DebugInfo.h"
#include "llvm/IR/DataLayout.h"
#include "llvm/IR/Operator.h"
#include "llvm/IRReader/IRReader.h"
#include "llvm/Support/SourceMgr.h"
#include "llvm/Support/raw_ostream.h"
#include <map>
#include <string>
#include <vector>
#include <set>

using namespace llvm;

static raw_ostream &O = outs();
static const DataLayout *DL;

static std::string esc(StringRef s)
{
	std::string r;
	for (unsigned char c : s) {
		if (c == '"') r += "\\\"";
		else if (c == '\\') r += "\\\\";
		else if (c == '\n') r += "\\n";
		else if (c == '\t') r += "\\t";
		else if (c == '\r') r += "\\r";
		else if (c < 0x20 || c >= 0x7f) { char b[8]; snprintf(b, sizeof b, "\\u%04x", c); r += b; }
		else r += (char)c;
	}
	return r;
}

static std::string tystr(Type *t)
{
	std::string s;
	raw_string_ostream os(s);
	t->print(os, false, true);
	return os.str();
}

// flatten a pointer-free constant to bytes; returns false if it has pointers/unsupported
static bool flatten(const Constant *c, std::vector<uint8_t> &out, uint64_t off)
{
	Type *t = c->getType();
	uint64_t sz = DL->getTypeAllocSize(t);
	if (out.size() < off + sz) out.resize(off + sz, 0);
	if (isa<ConstantAggregateZero>(c) || isa<UndefValue>(c)) return true;
	if (auto *ci = dyn_cast<ConstantInt>(c)) {
		APInt v = ci->getValue();
		unsigned nb = (v.getBitWidth() + 7) / 8;
		for (unsigned i = 0; i < nb; ++i) out[off + i] = (uint8_t)v.extractBitsAsZExtValue(std::min(8u, v.getBitWidth() - i * 8), i * 8);
		return true;
	}
	if (auto *cf = dyn_cast<ConstantFP>(c)) {
		APInt v = cf->getValueAPF().bitcastToAPInt();
		unsigned nb = (v.getBitWidth() + 7) / 8;
		for (unsigned i = 0; i < nb; ++i) out[off + i] = (uint8_t)v.extractBitsAsZExtValue(8, i * 8);
		return true;
	}
	if (auto *cds = dyn_cast<ConstantDataSequential>(c)) {
		StringRef raw = cds->getRawDataValues();
		for (size_t i = 0; i < raw.size(); ++i) out[off + i] = (uint8_t)raw[i];
		return true;
	}
	if (auto *ca = dyn_cast<ConstantArray>(c)) {
		uint64_t es = DL->getTypeAllocSize(ca->getType()->getElementType());
		for (unsigned i = 0; i < ca->getNumOperands(); ++i)
			if (!flatten(ca->getOperand(i), out, off + i * es)) return false;
		return true;
	}
	if (auto *cv = dyn_cast<ConstantVector>(c)) {
		uint64_t es = DL->getTypeAllocSize(cast<VectorType>(cv->getType())->getElementType());
		for (unsigned i = 0; i < cv->getNumOperands(); ++i)
			if (!flatten(cv->getOperand(i), out, off + i * es)) return false;
		return true;
	}
	if (auto *cs = dyn_cast<ConstantStruct>(c)) {
		const StructLayout *sl = DL->getStructLayout(cs->getType());
		for (unsigned i = 0; i < cs->getNumOperands(); ++i)
			if (!flatten(cs->getOperand(i), out, off + sl->getElementOffset(i))) return false;
		return true;
	}
	if (isa<ConstantPointerNull>(c)) return true;
	return false;
}

struct FnCtx {
	std::map<const Value *, unsigned> instId;
	std::map<const BasicBlock *, unsigned> bbId;
	std::map<const Argument *, unsigned> argId;
};

static void emitConst(const Constant *c, FnCtx *fc);

static void emitOperand(const Value *v, FnCtx *fc)
{
	if (auto *i = dyn_cast<Instruction>(v)) {
		O << "[\"i\"," << fc->instId[i] << "]";
	} else if (auto *a = dyn_cast<Argument>(v)) {
		O << "[\"a\"," << fc->argId[a] << "]";
	} else if (auto *bb = dyn_cast<BasicBlock>(v)) {
		O << "[\"b\"," << fc->bbId[bb] << "]";
	} else if (auto *c = dyn_cast<Constant>(v)) {
		emitConst(c, fc);
	} else if (isa<InlineAsm>(v)) {
		O << "[\"asm\"]";
	} else if (isa<MetadataAsValue>(v)) {
		O << "[\"m\"]";
	} else {
		O << "[\"?\"]";
	}
}

static void emitConst(const Constant *c, FnCtx *fc)
{
	if (auto *ci = dyn_cast<ConstantInt>(c)) {
		if (ci->getBitWidth() <= 64)
			O << "[\"c\"," << (ci->getBitWidth() == 1 ? (int64_t)ci->getZExtValue() : ci->getSExtValue()) << "," << ci->getBitWidth() << "]";
		else {
			SmallString<64> s; ci->getValue().toStringUnsigned(s, 10);
			O << "[\"cbig\",\"" << s << "\"," << ci->getBitWidth() << "]";
		}
	} else if (auto *f = dyn_cast<Function>(c)) {
		O << "[\"f\",\"" << esc(f->getName()) << "\"]";
	} else if (auto *g = dyn_cast<GlobalVariable>(c)) {
		O << "[\"g\",\"" << esc(g->getName()) << "\"]";
	} else if (isa<ConstantPointerNull>(c)) {
		O << "[\"n\"]";
	} else if (isa<UndefValue>(c)) {
		O << "[\"u\"]";
	} else if (auto *ce = dyn_cast<ConstantExpr>(c)) {
		O << "[\"ce\",{\"op\":\"" << ce->getOpcodeName() << "\",\"ty\":\"" << esc(tystr(ce->getType())) << "\"";
		if (auto *gep = dyn_cast<GEPOperator>(ce)) {
			O << ",\"src\":\"" << esc(tystr(gep->getSourceElementType())) << "\"";
			APInt off(DL->getIndexSizeInBits(gep->getPointerAddressSpace()), 0);
			if (gep->accumulateConstantOffset(*DL, off)) O << ",\"off\":" << off.getSExtValue();
		}
		O << ",\"ops\":[";
		for (unsigned i = 0; i < ce->getNumOperands(); ++i) {
			if (i) O << ",";
			emitOperand(ce->getOperand(i), fc);
		}
		O << "]}]";
	} else if (isa<ConstantFP>(c)) {
		O << "[\"fp\"]";
	} else {
		std::vector<uint8_t> b;
		if (DL->getTypeAllocSize(c->getType()) <= 4096 && flatten(c, b, 0)) {
			O << "[\"cd\",\"";
			static const char *hx = "0123456789abcdef";
			for (uint8_t x : b) O << hx[x >> 4] << hx[x & 15];
			O << "\"]";
		} else {
			// aggregate with pointers: structured
			O << "[\"agg\",[";
			for (unsigned i = 0; i < c->getNumOperands(); ++i) {
				if (i) O << ",";
				emitOperand(c->getOperand(i), fc);
			}
			O << "]]";
		}
	}
}

static void emitDIType(const DIType *t, int depth);

static std::string diTypeName(const DIType *t)
{
	// short printable name of a debug type
	if (!t) return "void";
	if (auto *d = dyn_cast<DIDerivedType>(t)) {
		switch (d->getTag()) {
		case dwarf::DW_TAG_pointer_type: return diTypeName(d->getBaseType()) + "*";
		case dwarf::DW_TAG_const_type: return diTypeName(d->getBaseType());
		case dwarf::DW_TAG_volatile_type: return diTypeName(d->getBaseType());
		case dwarf::DW_TAG_restrict_type: return diTypeName(d->getBaseType());
		case dwarf::DW_TAG_typedef: {
			// look through typedefs to structs so that struct names are canonical
			const DIType *b = d->getBaseType();
			if (b && isa<DICompositeType>(b) && !b->getName().empty()) return diTypeName(b);
			return d->getName().str();
		}
		default: return d->getName().str();
		}
	}
	if (auto *c = dyn_cast<DICompositeType>(t)) {
		if (c->getTag() == dwarf::DW_TAG_array_type) return diTypeName(c->getBaseType()) + "[]";
		if (c->getTag() == dwarf::DW_TAG_structure_type) return "struct " + c->getName().str();
		if (c->getTag() == dwarf::DW_TAG_union_type) return "union " + c->getName().str();
		if (c->getTag() == dwarf::DW_TAG_enumeration_type) return "enum " + c->getName().str();
	}
	if (isa<DISubroutineType>(t)) return "fn";
	return t->getName().str();
}

int main(int argc, char **argv)
{
	if (argc < 2) { errs() << "usage: llvm-facts module\n"; return 2; }
	LLVMContext ctx;
	SMDiagnostic err;
	std::unique_ptr<Module> M = parseIRFile(argv[1], err, ctx);
	if (!M) { err.print(argv[0], errs()); return 2; }
	DL = &M->getDataLayout();

	O << "{\n";

	// LLVM struct layouts
	O << "\"structs\":{";
	bool first = true;
	for (StructType *st : M->getIdentifiedStructTypes()) {
		if (st->isOpaque()) continue;
		if (!first) O << ",";
		first = false;
		const StructLayout *sl = DL->getStructLayout(st);
		O << "\n\"" << esc(st->getName()) << "\":{\"size\":" << sl->getSizeInBytes() << ",\"fields\":[";
		for (unsigned i = 0; i < st->getNumElements(); ++i) {
			if (i) O << ",";
			O << "{\"off\":" << sl->getElementOffset(i) << ",\"ty\":\"" << esc(tystr(st->getElementType(i))) << "\"}";
		}
		O << "]}";
	}
	O << "},\n";

	// debug-info structs: member names by offset.  Two translation units may define different structs with the same name
	// (struct failed_struct in check.c and in sync.c): the first goes to "distructs", the others to "distructs_alt"
	DebugInfoFinder dif;
	dif.processModule(*M);
	std::set<std::string> seen;
	for (int pass = 0; pass < 2; ++pass) {
		O << (pass == 0 ? "\"distructs\":{" : "\"distructs_alt\":[");
		first = true;
		std::set<std::string> seen_pass;
		std::set<std::string> emitted_sig;
		for (DIType *t : dif.types()) {
			auto *c = dyn_cast<DICompositeType>(t);
			if (!c) continue;
			if (c->getTag() != dwarf::DW_TAG_structure_type && c->getTag() != dwarf::DW_TAG_union_type) continue;
			if (c->getName().empty() || c->isForwardDecl()) continue;
			std::string nm = c->getName().str();
			bool is_first = seen_pass.insert(nm).second;
			if (pass == 0 && !is_first) continue;
			if (pass == 1 && is_first) continue;
			std::string body;
			{
				std::string tmp;
				raw_string_ostream B(tmp);
				B << "{\"size\":" << c->getSizeInBits() / 8 << ",\"members\":[";
				bool f2 = true;
				for (const DINode *e : c->getElements()) {
					auto *m = dyn_cast<DIDerivedType>(e);
					if (!m || m->getTag() != dwarf::DW_TAG_member) continue;
					if (!f2) B << ",";
					f2 = false;
					B << "{\"name\":\"" << esc(m->getName()) << "\",\"off\":" << m->getOffsetInBits() / 8
					  << ",\"bitoff\":" << m->getOffsetInBits() << ",\"bits\":" << m->getSizeInBits()
					  << ",\"ty\":\"" << esc(diTypeName(m->getBaseType())) << "\"}";
				}
				B << "]}";
				B.flush();
				body = tmp;
			}
			if (pass == 1) {
				// identical re-definitions (same header seen by several units) are not alternatives
				if (!emitted_sig.insert(nm + body).second) continue;
			}
			if (!first) O << ",";
			first = false;
			if (pass == 0)
				O << "\n\"" << esc(nm) << "\":" << body;
			else
				O << "\n{\"name\":\"" << esc(nm) << "\",\"def\":" << body << "}";
		}
		O << (pass == 0 ? "},\n" : "],\n");
	}

	// enumerators
	O << "\"enums\":{";
	first = true;
	for (DIType *t : dif.types()) {
		auto *c = dyn_cast<DICompositeType>(t);
		if (!c || c->getTag() != dwarf::DW_TAG_enumeration_type) continue;
		for (const DINode *e : c->getElements()) {
			auto *en = dyn_cast<DIEnumerator>(e);
			if (!en) continue;
			std::string nm = en->getName().str();
			if (!seen.insert("enum:" + nm).second) continue;
			if (!first) O << ",";
			first = false;
			O << "\"" << esc(nm) << "\":" << en->getValue().getSExtValue();
		}
	}
	O << "},\n";

	// globals
	O << "\"globals\":{";
	first = true;
	for (GlobalVariable &g : M->globals()) {
		if (!first) O << ",";
		first = false;
		O << "\n\"" << esc(g.getName()) << "\":{\"ty\":\"" << esc(tystr(g.getValueType())) << "\",\"const\":" << (g.isConstant() ? "true" : "false")
		  << ",\"size\":" << (g.getValueType()->isSized() ? DL->getTypeAllocSize(g.getValueType()) : 0);
		SmallVector<DIGlobalVariableExpression *, 1> gves;
		g.getDebugInfo(gves);
		if (!gves.empty()) {
			auto *gv = gves[0]->getVariable();
			O << ",\"file\":\"" << esc(gv->getFilename()) << "\",\"line\":" << gv->getLine() << ",\"dity\":\"" << esc(diTypeName(gv->getType())) << "\"";
		}
		if (g.hasInitializer()) {
			const Constant *c = g.getInitializer();
			std::vector<uint8_t> b;
			if (flatten(c, b, 0)) {
				O << ",\"bytes\":\"";
				static const char *hx = "0123456789abcdef";
				for (uint8_t x : b) O << hx[x >> 4] << hx[x & 15];
				O << "\"";
			} else {
				O << ",\"init\":";
				FnCtx fc;
				emitOperand(c, &fc);
			}
		} else {
			O << ",\"extern\":true";
		}
		O << "}";
	}
	O << "},\n";

	// functions
	O << "\"functions\":{";
	first = true;
	for (Function &F : *M) {
		if (!first) O << ",";
		first = false;
		O << "\n\"" << esc(F.getName()) << "\":{";
		O << "\"decl\":" << (F.isDeclaration() ? "true" : "false");
		O << ",\"ret\":\"" << esc(tystr(F.getReturnType())) << "\"";
		O << ",\"vararg\":" << (F.isVarArg() ? "true" : "false");
		O << ",\"internal\":" << (F.hasLocalLinkage() ? "true" : "false");
		if (DISubprogram *sp = F.getSubprogram())
			O << ",\"file\":\"" << esc(sp->getFilename()) << "\",\"line\":" << sp->getLine();
		FnCtx fc;
		unsigned n = 0;
		O << ",\"args\":[";
		for (Argument &a : F.args()) {
			if (n) O << ",";
			fc.argId[&a] = n++;
			O << "{\"name\":\"" << esc(a.getName()) << "\",\"ty\":\"" << esc(tystr(a.getType())) << "\"}";
		}
		O << "]";
		if (F.isDeclaration()) { O << "}"; continue; }
		unsigned id = 0, bid = 0;
		for (BasicBlock &B : F) {
			fc.bbId[&B] = bid++;
			for (Instruction &I : B) fc.instId[&I] = id++;
		}
		// variable names from dbg.declare / dbg.value
		std::map<const Value *, std::string> varName;
		std::map<const Value *, std::string> varType;
		for (BasicBlock &B : F)
			for (Instruction &I : B)
				if (auto *dd = dyn_cast<DbgVariableIntrinsic>(&I)) {
					if (isa<DbgDeclareInst>(dd) || isa<DbgValueInst>(dd)) {
						Value *v = dd->getVariableLocationOp(0);
						if (v && !varName.count(v)) {
							varName[v] = dd->getVariable()->getName().str();
							varType[v] = diTypeName(dd->getVariable()->getType());
							if (dd->getVariable()->isParameter())
								varName[v] = varName[v]; // keep
						}
					}
				}
		O << ",\"blocks\":[";
		bool fb = true;
		for (BasicBlock &B : F) {
			if (!fb) O << ",";
			fb = false;
			O << "\n {\"name\":\"" << esc(B.getName()) << "\",\"insts\":[";
			bool fi = true;
			for (Instruction &I : B) {
				if (isa<DbgInfoIntrinsic>(&I)) {
					// keep numbering stable but emit a compact marker
					if (!fi) O << ",";
					fi = false;
					O << "\n  {\"id\":" << fc.instId[&I] << ",\"op\":\"dbg\"";
					if (auto *dv = dyn_cast<DbgValueInst>(&I)) {
						O << ",\"var\":\"" << esc(dv->getVariable()->getName()) << "\",\"ops\":[";
						Value *v = dv->getVariableLocationOp(0);
						if (v) emitOperand(v, &fc);
						O << "]";
					}
					O << "}";
					continue;
				}
				if (!fi) O << ",";
				fi = false;
				O << "\n  {\"id\":" << fc.instId[&I] << ",\"op\":\"" << I.getOpcodeName() << "\",\"ty\":\"" << esc(tystr(I.getType())) << "\"";
				if (const DebugLoc &dl = I.getDebugLoc()) {
					O << ",\"line\":" << dl.getLine() << ",\"col\":" << dl.getCol();
					if (auto *sc = dyn_cast_or_null<DIScope>(dl.getScope())) {
						StringRef fn = sc->getFilename();
						O << ",\"file\":\"" << esc(fn) << "\"";
						if (DISubprogram *sp = dyn_cast_or_null<DILocalScope>(dl.getScope()) ? cast<DILocalScope>(dl.getScope())->getSubprogram() : nullptr)
							if (sp != F.getSubprogram()) O << ",\"inl\":\"" << esc(sp->getName()) << "\"";
					}
					if (DILocation *ia = dl.getInlinedAt()) {
						// outermost inlined-at line = line in this function
						DILocation *outer = ia;
						while (outer->getInlinedAt()) outer = outer->getInlinedAt();
						O << ",\"oline\":" << outer->getLine();
					}
				}
				if (varName.count(&I)) O << ",\"var\":\"" << esc(varName[&I]) << "\",\"vty\":\"" << esc(varType[&I]) << "\"";
				if (auto *ai = dyn_cast<AllocaInst>(&I)) {
					O << ",\"n\":\"" << esc(ai->getName()) << "\"";
					O << ",\"aty\":\"" << esc(tystr(ai->getAllocatedType())) << "\"";
					O << ",\"asize\":" << (ai->getAllocatedType()->isSized() ? DL->getTypeAllocSize(ai->getAllocatedType()) : 0);
				}
				if (auto *gep = dyn_cast<GetElementPtrInst>(&I)) {
					O << ",\"src\":\"" << esc(tystr(gep->getSourceElementType())) << "\"";
					APInt off(DL->getIndexSizeInBits(gep->getPointerAddressSpace()), 0);
					if (gep->accumulateConstantOffset(*DL, off)) O << ",\"off\":" << off.getSExtValue();
					// per-index scale info: list of [kind, value] where kind 's' struct field (offset), 'a' array/pointer step (elem size)
					O << ",\"steps\":[";
					Type *cur = gep->getSourceElementType();
					bool fs = true;
					unsigned k = 0;
					for (auto it = gep->idx_begin(); it != gep->idx_end(); ++it, ++k) {
						if (!fs) O << ",";
						fs = false;
						if (k == 0) {
							O << "[\"a\"," << DL->getTypeAllocSize(cur) << "]";
						} else if (auto *st = dyn_cast<StructType>(cur)) {
							unsigned fi2 = cast<ConstantInt>(*it)->getZExtValue();
							O << "[\"s\"," << DL->getStructLayout(st)->getElementOffset(fi2) << ",\"" << esc(st->hasName() ? st->getName() : "") << "\"," << fi2 << "]";
							cur = st->getElementType(fi2);
						} else if (auto *at = dyn_cast<ArrayType>(cur)) {
							cur = at->getElementType();
							O << "[\"a\"," << DL->getTypeAllocSize(cur) << "]";
						} else if (auto *vt = dyn_cast<VectorType>(cur)) {
							cur = vt->getElementType();
							O << "[\"a\"," << DL->getTypeAllocSize(cur) << "]";
						} else {
							O << "[\"?\"]";
						}
					}
					O << "]";
				}
				if (auto *ci = dyn_cast<CmpInst>(&I)) O << ",\"pred\":\"" << CmpInst::getPredicateName(ci->getPredicate()) << "\"";
				if (auto *cb = dyn_cast<CallBase>(&I)) {
					const Value *cv = cb->getCalledOperand()->stripPointerCasts();
					if (auto *cf = dyn_cast<Function>(cv)) O << ",\"callee\":\"" << esc(cf->getName()) << "\"";
					else if (auto *ia = dyn_cast<InlineAsm>(cv)) O << ",\"asm\":\"" << esc(ia->getAsmString()) << "\",\"cons\":\"" << esc(ia->getConstraintString()) << "\"";
					else O << ",\"indirect\":true";
					O << ",\"nargs\":" << cb->arg_size();
				}
				if (auto *li = dyn_cast<LoadInst>(&I)) { if (li->isVolatile()) O << ",\"volatile\":true"; }
				if (auto *si = dyn_cast<StoreInst>(&I)) { if (si->isVolatile()) O << ",\"volatile\":true"; }
				if (auto *sw = dyn_cast<SwitchInst>(&I)) {
					O << ",\"cases\":[";
					bool fcs = true;
					for (auto &cs : sw->cases()) {
						if (!fcs) O << ",";
						fcs = false;
						O << "[" << cs.getCaseValue()->getSExtValue() << "," << fc.bbId[cs.getCaseSuccessor()] << "]";
					}
					O << "],\"default\":" << fc.bbId[sw->getDefaultDest()];
				}
				if (auto *phi = dyn_cast<PHINode>(&I)) {
					O << ",\"inc\":[";
					for (unsigned k = 0; k < phi->getNumIncomingValues(); ++k) {
						if (k) O << ",";
						O << fc.bbId[phi->getIncomingBlock(k)];
					}
					O << "]";
				}
				if (I.isTerminator()) {
					O << ",\"succ\":[";
					for (unsigned k = 0; k < I.getNumSuccessors(); ++k) {
						if (k) O << ",";
						O << fc.bbId[I.getSuccessor(k)];
					}
					O << "]";
				}
				O << ",\"ops\":[";
				unsigned nops = I.getNumOperands();
				if (auto *cb = dyn_cast<CallBase>(&I)) nops = cb->arg_size();
				for (unsigned k = 0; k < nops; ++k) {
					if (k) O << ",";
					emitOperand(I.getOperand(k), &fc);
				}
				O << "]";
				if (auto *cb = dyn_cast<CallBase>(&I))
					if (cb->isIndirectCall()) { O << ",\"target\":"; emitOperand(cb->getCalledOperand(), &fc); }
				O << "}";
			}
			O << "]}";
		}
		O << "]}";
	}
	O << "}\n}\n";
	return 0;
}
