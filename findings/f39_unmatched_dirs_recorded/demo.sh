#!/bin/bash
# usage: demo.sh /path/to/snapraid
# exit 0 = directories that no rule selects stay out of the array, 1 = violated
SR=${1:?usage: demo.sh /path/to/snapraid}
T=$(mktemp -d /tmp/hc18-dirs.XXXXXX)
trap 'rm -rf "$T"' EXIT
mkdir -p $T/d1 $T/d2 $T/par $T/cnt
cat > $T/conf <<EOC
blocksize 1
parity $T/par/parity
content $T/cnt/content
data d1 $T/d1
data d2 $T/d2
include /keep/
EOC
sr() { timeout 60 "$SR" -c $T/conf --test-skip-device --test-skip-self "$@"; }

mkdir -p $T/d1/keep/emptydir $T/d1/other/sub $T/d1/private   # keep/emptydir: selected by rule 1, must be stored
echo x > $T/d1/keep/f            # selected by "include /keep/"
echo y > $T/d1/other/sub/g       # no rule matches, last rule is an include -> excluded
                                 # 'other', 'other/sub' and 'private': no rule matches -> excluded as well
echo z > $T/d2/zz                # excluded too (only there to have a second disk)

sr sync -v > $T/sync.out 2>&1 || { cat $T/sync.out; exit 2; }
ndirs=$(grep -E '^ +[0-9]+ empty dirs' $T/sync.out | tail -1 | awk '{print $1}')
echo "rules: include /keep/   (only rule)"
echo "sync reports: $ndirs empty dirs stored in the array (expected 1: keep/emptydir)"

# the stored entries are acted upon: remove the two unselected trees and ask for an undelete
rm -rf $T/d1/other $T/d1/private
sr fix -m -l $T/fix.log > $T/fix.out 2>&1
grep '^recovered' $T/fix.out
bad=0
[ "$ndirs" = 1 ] || bad=1
[ -e $T/d1/other ] && { echo "fix re-created $T/d1/other (never selected by any rule)"; bad=1; }
[ -e $T/d1/private ] && { echo "fix re-created $T/d1/private (never selected by any rule)"; bad=1; }
[ $bad = 0 ] && echo "OK" || echo "VIOLATION: directories matched by no rule (default = exclude) are in the array"
exit $bad
