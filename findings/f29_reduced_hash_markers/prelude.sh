# helper functions shared by the demo.sh scripts (sourced, not executed)
# SR = snapraid binary, T = working directory of the current case

# mkconf <ndata> <nparity> [extra conf lines...]
mkconf() {
	local nd=$1 np=$2 i names=(parity 2-parity 3-parity)
	shift 2
	mkdir -p "$T"
	{
		echo "blocksize 1"
		for ((i = 0; i < np; i++)); do mkdir -p "$T/p$i"; echo "${names[$i]} $T/p$i/par"; done
		echo "content $T/content"
		for ((i = 1; i <= nd; i++)); do mkdir -p "$T/d$i"; echo "data d$i $T/d$i"; echo "content $T/d$i/content"; done
		for i in "$@"; do echo "$i"; done
	} > "$T/conf"
}
sr() { "$SR" -c "$T/conf" --test-skip-device --test-skip-self --no-warnings "$@"; }
rnd() { head -c "$2" /dev/urandom > "$1"; }
setup_fail() { echo "SETUP PROBLEM: $*"; exit 2; }
# what fix printed, without the progress noise
fixsays() { grep -h "recovered \|unrecoverable \|Everything OK\|UNRECOVERABLE\|recovered errors" "$1" | sed 's/^.*\r//; s/^/  fix says: /'; }
# change 8 bytes of <file> at <offset> keeping size and time-stamp
corrupt() { touch -r "$1" "$T/.stamp"; printf 'XXXXXXXX' | dd of="$1" bs=1 seek="$2" conv=notrunc 2> /dev/null; touch -r "$T/.stamp" "$1"; }

# verdict <file> <reference> <fix exit status>
# the property holds for <file> when it has the recorded bytes, or when it is not
# left under its name, <file>.unrecoverable exists and fix exited with a failure
verdict() {
	local f=$1 ref=$2 rc=$3
	if [ -f "$f" ] && [ ! -L "$f" ] && cmp -s "$f" "$ref"; then
		echo "  HOLDS: $(basename "$f") has the recorded bytes (fix exit status $rc)"
		return 0
	fi
	if [ ! -e "$f" ] && [ -e "$f.unrecoverable" ] && [ "$rc" -ne 0 ]; then
		echo "  HOLDS: $(basename "$f") reported unrecoverable (renamed, fix exit status $rc)"
		return 0
	fi
	if [ -e "$f" ]; then
		echo "  VIOLATED: $(basename "$f") is left under its name with bytes that are not the recorded ones (fix exit status $rc)"
	else
		echo "  VIOLATED: $(basename "$f") neither recovered nor reported unrecoverable (fix exit status $rc)"
	fi
	return 1
}
