#!/bin/bash
# usage: demo.sh /path/to/snapraid
# exit 0 = property holds, exit 1 = property violated, exit 2 = the scenario could not be set up
SR=${1:?usage: demo.sh /path/to/snapraid}
SR=$(readlink -f "$SR")
TOP=$(mktemp -d /tmp/hc05demo.XXXXXX)
trap 'rm -rf "$TOP"' EXIT
. "$(dirname "$0")/prelude.sh"

# A brand new file whose stripe was skipped by sync is lost: nothing of it is in the parity.
run_case() {
	local hs=$1
	T="$TOP/hs$hs"
	mkconf 2 2 "hashsize $hs"
	rnd "$T/d1/K" 1024
	rnd "$T/d2/C" 2048
	sr sync > "$T/sync1.log" 2>&1 || setup_fail "sync 1 failed"
	rnd "$T/d1/B" 1024          # new file in a never used position
	cp -p "$T/d1/B" "$T/B.ref"
	sr sync --test-run "mv $T/d2/C $T/C.away" > "$T/sync2.log" 2>&1
	mv "$T/C.away" "$T/d2/C"
	grep -q "Missing file" "$T/sync2.log" || setup_fail "the sync did not skip the stripe"
	rm "$T/d1/B"
	sr fix -l "$T/fix.log" > "$T/fix.out" 2>&1
	local rc=$?
	echo "case: hashsize $hs"
	fixsays "$T/fix.out"
	if [ -f "$T/d1/B" ] && ! tr -d '\0' < "$T/d1/B" | grep -q .; then echo "  (B is now 1024 zero bytes)"; fi
	verdict "$T/d1/B" "$T/B.ref" $rc
}

bad=0
run_case 16 || bad=1    # control: the default hash size answers 'unrecoverable'
run_case 8 || bad=1
exit $bad
