#!/bin/bash
# C13 / the result of the scan (copy detection) depends on which per-disk scan thread runs first
# exit 0 = property holds, 1 = violated, 2 = setup problem
. "$(dirname "$0")/common.sh"

violated=0

# build: X synced on d1; then X is replaced on d1 by a newer file, and a file with the
# name, size and time-stamp of the OLD d1/X appears on d2 (e.g. the old file was moved there
# with "cp -p"/rsync -t and a new version was written in its place)
build() { # build <root> <same|different>
	local R=$1
	mkarray $R 2 1
	mkfile $R/d1/X 4096 s1; mkfile $R/d1/keep 3000 s0; mkfile $R/d2/other 2048 s2
	touch -d "2020-01-02 03:04:05.123456789" $R/d1/X
	sr $R sync > /dev/null 2>&1 || { echo "setup problem: first sync failed"; exit 2; }
	cp -p $R/d1/X $R/d2/X
	if [ "$2" = different ]; then
		# same name, size and mtime, other content
		mkfile $R/d2/X 4096 s9
		touch -d "2020-01-02 03:04:05.123456789" $R/d2/X
	fi
	mkfile $R/d1/X 5000 s3
	touch -d "2021-01-01 00:00:00.5" $R/d1/X
}

echo "--- part A: 'snapraid diff' on the same tree, only the start of one scan thread is delayed by 500 ms"
for w in d1 d2; do
	build $TMP/a same
	SHIM_DIR_DELAY="$TMP/a/$w/,500" LD_PRELOAD=$SHIM sr $TMP/a diff 2>&1 | grep -E '^(add|copy|update|remove|move|restore) |^ +[0-9]+ (added|copied|updated)' | sort > $TMP/diff.$w
	echo "scan thread of $w delayed:"; sed 's/^/    /' $TMP/diff.$w
done
if ! cmp -s $TMP/diff.d1 $TMP/diff.d2; then violated=1; fi
build $TMP/a same
sr $TMP/a --test-skip-multi-scan diff 2>&1 | grep -E '^(add|copy|update|remove|move|restore) ' | sort > $TMP/diff.seq
echo "single-threaded scan (--test-skip-multi-scan):"; sed 's/^/    /' $TMP/diff.seq

echo "--- part B: 'snapraid sync' when d2/X has the stamp of the old d1/X but other data"
for w in d1 d2; do
	build $TMP/b different
	SHIM_DIR_DELAY="$TMP/b/$w/,500" LD_PRELOAD=$SHIM sr $TMP/b sync -l $TMP/b/log > $TMP/b/out 2>&1
	rc=$?
	errs=$(grep -E '^(error:|summary:error_file)' $TMP/b/log | tr '\n' ' ')
	echo "scan thread of $w delayed: sync exit=$rc $errs"
	echo $rc > $TMP/rc.$w
done
if [ "$(cat $TMP/rc.d1)" != "$(cat $TMP/rc.d2)" ]; then violated=1; fi

if [ $violated = 1 ]; then
	echo "VIOLATED: diff/sync give different results for the same input depending on the interleaving of the scan threads"
	exit 1
fi
echo "HOLDS: same result for both interleavings"
exit 0
