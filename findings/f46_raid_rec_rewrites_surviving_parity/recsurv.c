/*
 * Property C03: raid_rec() must rebuild the blocks listed in ir[] and must not
 * modify any other block.  Here a parity with a higher index is lost, and the
 * parities with a lower index survive.
 */
#define _GNU_SOURCE
#include "raid/internal.h"
#include "raid/cpu.h"
#include <stdio.h>
#include <signal.h>
#include <setjmp.h>
#include <sys/mman.h>
#include <unistd.h>

#define ND 4
#define NP 3
#define SIZE 4096 /* one page, to be able to write protect single blocks */

static uint8_t *blk[ND + NP + 1];
static uint8_t ref[ND + NP][SIZE];
static void *v[ND + NP];
static sigjmp_buf jb;
static void *fault_addr;

static void on_segv(int sig, siginfo_t *si, void *ctx)
{
	(void)sig; (void)ctx;
	fault_addr = si->si_addr;
	siglongjmp(jb, 1);
}

static const char *blkname(int i)
{
	static const char *n[] = { "D0", "D1", "D2", "D3", "P(parity 0)", "Q(parity 1)", "R(parity 2)" };
	return n[i];
}

static void setup(void)
{
	int i, j;
	for (i = 0; i < ND; ++i)
		for (j = 0; j < SIZE; ++j)
			ref[i][j] = (uint8_t)(rand() >> 7);
	for (i = 0; i < ND + NP; ++i) v[i] = ref[i];
	raid_gen_ref(ND, NP, SIZE, v);
	for (i = 0; i < ND + NP; ++i) {
		memcpy(blk[i], ref[i], SIZE);
		v[i] = blk[i];
	}
}

static int run(const char *impl)
{
	int bad = 0;
	int ir[2];
	int i;
	uint8_t stale[SIZE];

	/* A: only R is lost, Q holds out of date content: it is not in ir[] and must stay as it is */
	setup();
	memset(blk[ND + 2], 0xEE, SIZE);
	for (i = 0; i < SIZE; ++i) stale[i] = blk[ND + 1][i] ^ 0x5a;
	memcpy(blk[ND + 1], stale, SIZE);
	ir[0] = ND + 2;
	raid_rec(1, ir, ND, NP, SIZE, v);
	if (memcmp(blk[ND + 2], ref[ND + 2], SIZE) != 0) { printf("[%s] A: lost R not rebuilt\n", impl); bad = 1; }
	if (memcmp(blk[ND + 1], stale, SIZE) != 0) { printf("[%s] A: ir={R}: surviving block Q was MODIFIED by raid_rec (now %s the recomputed parity)\n", impl, memcmp(blk[ND + 1], ref[ND + 1], SIZE) == 0 ? "equal to" : "different from"); bad = 1; }
	if (memcmp(blk[ND], ref[ND], SIZE) != 0) { printf("[%s] A: surviving P modified\n", impl); bad = 1; }

	/* B: D1 and R are lost; D1 is rebuilt from P, Q is not used and not listed */
	setup();
	memset(blk[1], 0xDD, SIZE);
	memset(blk[ND + 2], 0xEE, SIZE);
	memcpy(blk[ND + 1], stale, SIZE);
	ir[0] = 1; ir[1] = ND + 2;
	raid_rec(2, ir, ND, NP, SIZE, v);
	if (memcmp(blk[1], ref[1], SIZE) != 0) { printf("[%s] B: lost D1 not rebuilt\n", impl); bad = 1; }
	if (memcmp(blk[ND + 2], ref[ND + 2], SIZE) != 0) { printf("[%s] B: lost R not rebuilt\n", impl); bad = 1; }
	if (memcmp(blk[ND + 1], stale, SIZE) != 0) { printf("[%s] B: ir={D1,R}: surviving block Q was MODIFIED by raid_rec\n", impl); bad = 1; }

	/* C: everything consistent, survivors are write protected: any store to them faults */
	setup();
	memset(blk[ND + 2], 0xEE, SIZE);
	for (i = 0; i < ND + NP; ++i)
		if (i != ND + 2)
			mprotect(blk[i], SIZE, PROT_READ);
	ir[0] = ND + 2;
	if (sigsetjmp(jb, 1) == 0) {
		raid_rec(1, ir, ND, NP, SIZE, v);
		if (memcmp(blk[ND + 2], ref[ND + 2], SIZE) != 0) { printf("[%s] C: lost R not rebuilt\n", impl); bad = 1; }
	} else {
		int w = -1;
		for (i = 0; i < ND + NP; ++i)
			if ((uint8_t *)fault_addr >= blk[i] && (uint8_t *)fault_addr < blk[i] + SIZE) w = i;
		printf("[%s] C: ir={R}: raid_rec STORED into the write protected surviving block %s\n", impl, w >= 0 ? blkname(w) : "?");
		bad = 1;
	}
	for (i = 0; i < ND + NP; ++i) mprotect(blk[i], SIZE, PROT_READ | PROT_WRITE);
	return bad;
}

int main(void)
{
	struct sigaction sa;
	int i, bad = 0;
	uint8_t *arena;

	memset(&sa, 0, sizeof(sa));
	sa.sa_sigaction = on_segv;
	sa.sa_flags = SA_SIGINFO | SA_NODEFER;
	sigaction(SIGSEGV, &sa, 0);

	arena = mmap(0, (ND + NP + 1) * SIZE, PROT_READ | PROT_WRITE, MAP_PRIVATE | MAP_ANONYMOUS, -1, 0);
	for (i = 0; i < ND + NP + 1; ++i) blk[i] = arena + i * SIZE;
	memset(blk[ND + NP], 0, SIZE);

	raid_init();
	raid_zero(blk[ND + NP]);

	/* default (best) implementation selected by raid_init() */
	bad |= run("default");

	/* portable implementation */
	raid_gen_ptr[0] = raid_gen1_int64; raid_gen_ptr[1] = raid_gen2_int64; raid_gen3_ptr = raid_gen3_int8;
	raid_rec_ptr[0] = raid_rec1_int8; raid_rec_ptr[1] = raid_rec2_int8; raid_rec_ptr[2] = raid_recX_int8;
	raid_mode(RAID_MODE_CAUCHY);
	bad |= run("int8");

#ifdef CONFIG_X86
#ifdef CONFIG_SSSE3
	if (raid_cpu_has_ssse3()) {
		raid_gen_ptr[0] = raid_gen1_sse2; raid_gen_ptr[1] = raid_gen2_sse2; raid_gen3_ptr = raid_gen3_ssse3;
		raid_rec_ptr[0] = raid_rec1_ssse3; raid_rec_ptr[1] = raid_rec2_ssse3; raid_rec_ptr[2] = raid_recX_ssse3;
		raid_mode(RAID_MODE_CAUCHY);
		bad |= run("ssse3");
	}
#endif
#endif
	/* vandermonde mode, default implementation */
	raid_init();
	raid_mode(RAID_MODE_VANDERMONDE);
	bad |= run("default/vandermonde");

	printf(bad ? "VIOLATED\n" : "OK\n");
	return bad;
}
