#!/bin/bash
# exit 0 = property holds, 1 = violated, 2 = setup problem
# The RAID library compiled into snapraid is exercised through a tiny helper,
# built from the raid/ sources found next to the given binary.
SNAP=${1:?usage: demo.sh /path/to/snapraid}
SNAP=$(readlink -f "$SNAP")
SRC=${SNAPRAID_SRC:-$(dirname "$SNAP")}
HERE=$(dirname "$(readlink -f "$0")")
[ -f "$SRC/raid/raid.c" ] || { echo "SETUP: no raid/raid.c in $SRC (set SNAPRAID_SRC)"; exit 2; }
T=$(mktemp -d /tmp/c03-rec.XXXXXX)
trap 'rm -rf "$T"' EXIT
DEFS=""; [ -f "$SRC/config.h" ] && DEFS="-DHAVE_CONFIG_H"
gcc -O1 -g $DEFS -I"$SRC" -o $T/recsurv "$HERE/recsurv.c" \
	"$SRC"/raid/{raid,check,module,tables,int,x86,intz,x86z,helper,memory,tag}.c > $T/cc.log 2>&1 \
	|| { cat $T/cc.log; echo "SETUP: compile failed"; exit 2; }
timeout 60 $T/recsurv
RC=$?
[ $RC = 0 ] && exit 0
[ $RC = 1 ] && exit 1
exit 2
