#!/bin/bash
# fix -S N (documented "start from block N") on a lost / truncated file whose first
# blocks are before N: the file is rebuilt only from block N, the head is left as a
# hole (zeros), and the file is reported "recovered", gets its recorded mtime back,
# and the exit status is 0.
#
# usage: demo.sh /path/to/snapraid     exit 0 = property holds, 1 = violated
SNAP=${1:?usage: demo.sh /path/to/snapraid}
T=$(mktemp -d "${TMPDIR:-/tmp}/c05-start.XXXXXX") || exit 2
trap 'rm -rf "$T"' EXIT
mkdir $T/p $T/c $T/d1 $T/d2
cat > $T/conf <<EOC
blocksize 1
parity $T/p/parity
content $T/c/content
content $T/d1/content
data d1 $T/d1
data d2 $T/d2
EOC
S() { timeout 120 "$SNAP" -c $T/conf --test-skip-device --test-skip-self "$@"; }

head -c 5000 /dev/urandom > $T/d1/a      # 5 blocks, parity positions 0..4
head -c 5000 /dev/urandom > $T/d1/t      # 5 blocks, parity positions 5..9
head -c 10240 /dev/urandom > $T/d2/b
S sync > $T/sync.out 2>&1 || { echo "setup: sync failed"; cat $T/sync.out; exit 2; }
cp -p $T/d1/a $T/a.orig
cp -p $T/d1/t $T/t.orig

# damage: a is lost, t is cut to its first 100 bytes
rm $T/d1/a
truncate -s 100 $T/d1/t

# "advanced manual recovering": restart a fix from block 7 (inside t), then from block 2 (inside a)
violated=0
S fix -S 7 -l $T/fix1.log > $T/fix1.out 2>&1; rc1=$?
if [ -e $T/d1/t ] && ! cmp -s $T/d1/t $T/t.orig && grep -q "^status:recovered:d1:t$" $T/fix1.log; then
	echo "VIOLATION: d1/t reported 'recovered' by 'fix -S 7' (exit status $rc1) but bytes 100..2047 are a hole"
	[ "$(stat -c %Y $T/d1/t)" = "$(stat -c %Y $T/t.orig)" ] && echo "           and it got the recorded mtime back, so diff/sync see it as unchanged"
	violated=1
fi
S fix -S 2 -l $T/fix2.log > $T/fix2.out 2>&1; rc2=$?
if [ -e $T/d1/a ] && ! cmp -s $T/d1/a $T/a.orig; then
	echo "VIOLATION: d1/a is left under its name with wrong content after 'fix -S 2' (exit status $rc2)"
	grep -E "^status:.*:a$" $T/fix2.log
	[ "$(stat -c %Y $T/d1/a)" = "$(stat -c %Y $T/a.orig)" ] && echo "           and it got the recorded mtime back, so diff/sync see it as unchanged"
	violated=1
fi
if [ $violated = 0 ]; then echo "property holds"; fi
exit $violated
