#!/bin/bash
# usage: demo.sh /path/to/snapraid
# Array stored in array.tar: written by the REFERENCE build (commit e695936), hashsize 8,
# 2 parities, 3 data disks; first a complete sync, then a second sync (new files, changed
# files, deleted files) interrupted with --test-kill-after-sync, i.e. the parity is fully
# updated but the content file still lists the new/changed blocks as CHG.
# Then disk d0 is lost and rebuilt with "fix" by the binary under test.
# exit 0: d0 is rebuilt (every file back under its name with the right bytes, fix exits 0)
# exit 1: d0 is not fully rebuilt
SNAPRAID=$(readlink -f "$1")
HERE=$(cd "$(dirname "$0")" && pwd)
T=$(mktemp -d /tmp/hc16-bl.XXXXXX)
trap 'rm -rf "$T"' EXIT
tar -xpf "$HERE/array.tar" -C "$T"
cat > "$T/conf" <<EOC
blocksize 1
hashsize 8
parity $T/par/parity
2-parity $T/par/2-parity
content $T/cnt/c0
content $T/cnt/c1
content $T/cnt/c2
data d0 $T/d0
data d1 $T/d1
data d2 $T/d2
EOC
OPTS="--test-skip-device --test-skip-self --test-skip-lock"
mv "$T/d0" "$T/d0.expected"; mkdir "$T/d0"
timeout 120 "$SNAPRAID" $OPTS -c "$T/conf" fix > "$T/fix.log" 2>&1
rc=$?
grep -E "errors|OK|DANGER" "$T/fix.log"
echo "fix exit code: $rc"
echo "rebuilt d0: $(ls "$T/d0" | tr '\n' ' ')"
bad=0
[ $rc -ne 0 ] && bad=1
for f in "$T/d0.expected"/*; do
	n=$(basename "$f")
	if ! cmp -s "$f" "$T/d0/$n"; then echo "NOT REBUILT: $n"; bad=1; fi
done
if [ $bad -ne 0 ]; then echo "VIOLATED: the lost disk was not fully rebuilt"; exit 1; fi
echo "HOLDS: the lost disk was fully rebuilt"
exit 0
