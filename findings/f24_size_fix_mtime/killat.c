// LD_PRELOAD shim: kill the process (SIGKILL) at the Nth call of futimens/futimes/utimensat
#define _GNU_SOURCE
#include <dlfcn.h>
#include <stdlib.h>
#include <signal.h>
#include <unistd.h>
#include <sys/stat.h>
#include <sys/time.h>
static int count;
static void hit(void) {
	const char* e = getenv("KILL_AT_UTIME");
	if (!e) return;
	if (++count == atoi(e)) kill(getpid(), SIGKILL);
}
int futimens(int fd, const struct timespec t[2]) {
	static int (*real)(int, const struct timespec*);
	if (!real) real = dlsym(RTLD_NEXT, "futimens");
	hit();
	return real(fd, t);
}
int futimes(int fd, const struct timeval t[2]) {
	static int (*real)(int, const struct timeval*);
	if (!real) real = dlsym(RTLD_NEXT, "futimes");
	hit();
	return real(fd, t);
}
