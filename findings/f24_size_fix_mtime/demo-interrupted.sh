#!/bin/bash
# same root cause, other trigger: fix is killed after writing the last block of a file and before
# setting its time; the re-run of fix finds all blocks good and never sets the time
. "$(dirname "$0")/../common.sh"
HERE=$(dirname "$(readlink -f "$0")")
gcc -shared -fPIC -o $T/killat.so $HERE/killat.c -ldl || exit 2
mkarray 1 2
head -c 3000 /dev/urandom > $T/d1/x; touch -d '2010-01-01 01:01:01.123456789 UTC' $T/d1/x
head -c 3000 /dev/urandom > $T/d2/other
Q sync || exit 2
A=$(sha1sum < $T/d1/x); M=$(stat -c %.9Y $T/d1/x)
rm $T/d1/x
KILL_AT_UTIME=1 LD_PRELOAD=$T/killat.so "$SNAP" -c $T/conf --test-skip-device --test-skip-self fix > /dev/null 2>&1
echo "first fix killed: rc=$?"
Q fix || viol "second fix failed"
[ "$(sha1sum < $T/d1/x)" = "$A" ] || viol "bytes of x not restored"
M2=$(stat -c %.9Y $T/d1/x)
[ "$M2" = "$M" ] || viol "mtime of x is $M2 instead of the synced $M after the completed re-run of fix"
Q check || viol "check reports errors after fix"
finish
