#!/bin/bash
# a file that only grew (garbage appended, time-stamp unchanged) is cut back by fix, but its mtime is left at "now"
. "$(dirname "$0")/../common.sh"
mkarray 1 2
head -c 3000 /dev/urandom > $T/d1/x; touch -d '2010-01-01 01:01:01.123456789 UTC' $T/d1/x
head -c 3000 /dev/urandom > $T/d2/other
Q sync || exit 2
A=$(sha1sum < $T/d1/x); M=$(stat -c %.9Y $T/d1/x)
echo garbage >> $T/d1/x; touch -d '2010-01-01 01:01:01.123456789 UTC' $T/d1/x
Q fix || viol "fix failed"
tail -5 $T/last.out
[ "$(sha1sum < $T/d1/x)" = "$A" ] || viol "bytes of x not restored"
M2=$(stat -c %.9Y $T/d1/x)
[ "$M2" = "$M" ] || viol "mtime of x is $M2 instead of the synced $M"
Q check || viol "check reports errors after fix"
S diff 2>/dev/null | grep -e '^update' && echo "note: 'diff' now lists x as updated, the next sync re-reads it"
finish
