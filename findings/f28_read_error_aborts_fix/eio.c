// LD_PRELOAD shim: pread()/pread64() on a file whose path ends with $EIO_SUFFIX fails with EIO
// when the requested range touches [EIO_FROM, EIO_TO) (defaults: whole file)
#define _GNU_SOURCE
#include <dlfcn.h>
#include <stdlib.h>
#include <string.h>
#include <stdio.h>
#include <errno.h>
#include <unistd.h>
#include <sys/types.h>
static int match(int fd, off_t off, size_t n) {
	const char* suf = getenv("EIO_SUFFIX");
	char link[64], path[8192];
	ssize_t l;
	long long from = 0, to = -1;
	if (!suf) return 0;
	snprintf(link, sizeof(link), "/proc/self/fd/%d", fd);
	l = readlink(link, path, sizeof(path) - 1);
	if (l < 0) return 0;
	path[l] = 0;
	if ((size_t)l < strlen(suf) || strcmp(path + l - strlen(suf), suf) != 0) return 0;
	if (getenv("EIO_FROM")) from = atoll(getenv("EIO_FROM"));
	if (getenv("EIO_TO")) to = atoll(getenv("EIO_TO"));
	if (to >= 0 && off >= to) return 0;
	if ((long long)(off + n) <= from) return 0;
	return 1;
}
ssize_t pread(int fd, void* buf, size_t n, off_t off) {
	static ssize_t (*real)(int, void*, size_t, off_t);
	if (!real) real = dlsym(RTLD_NEXT, "pread");
	if (match(fd, off, n)) { errno = EIO; return -1; }
	return real(fd, buf, n, off);
}
ssize_t pread64(int fd, void* buf, size_t n, off_t off) {
	static ssize_t (*real)(int, void*, size_t, off_t);
	if (!real) real = dlsym(RTLD_NEXT, "pread64");
	if (match(fd, off, n)) { errno = EIO; return -1; }
	return real(fd, buf, n, off);
}
